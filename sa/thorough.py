"""Thorough tier: checker self-validation (seeded mutants must be reported, benign variants must stay silent),
positive controls for zero-expected-count rules, and the clippy restriction-lint cross-reference for C01."""
import json
import os
import shutil
import subprocess
import tempfile

from . import facts, oblig, selftest
from . import tree as T
from . import units as U
from .report import Finding

VERIF = os.path.dirname(os.path.dirname(os.path.abspath(__file__)))
CONTROLS = os.path.join(VERIF, "selftest", "controls")


def run(ctx, res, prop, do_selftest=True):
    out = {}
    if do_selftest:
        out["selftest"] = selftest.for_property(prop, res)
    if prop in ("C01", "C07", "C15", "C20"):
        controls(ctx, res, prop)
    if prop == "C01":
        clippy_crossref(ctx, res)
    return out


_controls_cache = {}


def controls_program():
    if "P" not in _controls_cache:
        d = tempfile.mkdtemp(prefix="chiritori-controls-")
        try:
            shutil.copytree(CONTROLS, os.path.join(d, "controls"), ignore=shutil.ignore_patterns("target"))
            fs = facts.extract_crate(os.path.join(d, "controls"), None)
        finally:
            shutil.rmtree(d, ignore_errors=True)
        f = [v for k, v in fs.items() if k.startswith("controls")]
        if not f:
            raise facts.ExtractionError("no facts for the controls crate")
        _controls_cache["P"] = T.Program(f[0])
    return _controls_cache["P"]


def controls(ctx, res, prop):
    """Each zero-expected-count rule must fire on its positive control (a rule matching nothing passes vacuously)."""
    from .rules import purity
    try:
        P = controls_program()
    except facts.ExtractionError as e:
        print("SELFTEST-FAIL: %s controls: %s" % (prop, str(e)[-200:]))
        res.extra["controls"] = {"error": str(e)[-300:]}
        return
    results = {}
    if prop in ("C15", "C20"):
        eff = ctx.spec("effects.json")
        kinds = {}
        for (b, node, kind, what) in purity.effect_sites(P, P.user_bodies(), eff):
            kinds.setdefault(kind, []).append(T.short_path(b["def_path"]))
        results["purity:effect"] = "ctl_env" in kinds.get("effect", [])
        results["purity:unordered-iteration"] = "ctl_hash_iter" in kinds.get("unordered-iteration", [])
        results["purity:unsafe"] = "ctl_unsafe" in kinds.get("unsafe", [])
    if prop in ("C01",):
        def guard_of(name):
            b = P.fn(name)
            w = oblig.Walker(P, b, {})
            obs = [o for o in w.run() if o["kind"] not in ("add", "mul", "capacity")]
            return [o["guard"] for o in obs]
        results["OB:unguarded-sub"] = guard_of("ctl_sub") == [False]
        results["OB:guarded-sub"] = guard_of("ctl_sub_guarded") == [True]
        results["OB:unguarded-unwrap"] = guard_of("ctl_unwrap") == [False]
        results["OB:unguarded-index"] = guard_of("ctl_index") == [False]
        results["OB:loop-invariant"] = guard_of("ctl_loop") == [True, True]
    if prop in ("C01", "C07"):
        spec = {"fields": {}, "fns": {}}

        def slice_units(name):
            b = P.fn(name)
            un = U.Units(P, b, spec)
            out = []
            for n in T.nodes(b["tree"], "index"):
                rng = T.peel(n["idx"])
                if rng.get("k") == "struct":
                    for f in rng["fields"]:
                        out.append(un.unit(f["e"]))
            return out
        results["units:raw-offset"] = slice_units("ctl_slice") == [U.BR]
        results["units:ascii-guard"] = slice_units("ctl_slice_guarded") in ([U.BB], [U.ZERO], ["BB"])
    res.extra["controls"] = results
    for k, ok in results.items():
        if not ok:
            print("SELFTEST-FAIL: %s control `%s` did not behave as expected" % (prop, k))


def clippy_crossref(ctx, res):
    """Every clippy restriction-lint site (indexing_slicing, string_slice, arithmetic_side_effects, unwrap_used,
    expect_used, panic) inside the analysed universe must be an enumerated obligation."""
    tgt = tempfile.mkdtemp(prefix="chiritori-clippy-")
    try:
        env = dict(os.environ)
        env["CARGO_NET_OFFLINE"] = "true"
        env["CARGO_TARGET_DIR"] = tgt
        cmd = ["cargo", "+nightly", "clippy", "--offline", "-p", "chiritori", "--lib", "--message-format=json", "--", "-A", "clippy::all",
               "-W", "clippy::indexing_slicing", "-W", "clippy::string_slice", "-W", "clippy::arithmetic_side_effects",
               "-W", "clippy::unwrap_used", "-W", "clippy::expect_used", "-W", "clippy::panic"]
        r = subprocess.run(cmd, cwd=ctx.repo, env=env, stdout=subprocess.PIPE, stderr=subprocess.DEVNULL, text=True)
    finally:
        shutil.rmtree(tgt, ignore_errors=True)
    sites = []
    for line in r.stdout.splitlines():
        try:
            m = json.loads(line)
        except ValueError:
            continue
        if m.get("reason") != "compiler-message":
            continue
        msg = m["message"]
        code = (msg.get("code") or {}).get("code") or ""
        if not code.startswith("clippy::"):
            continue
        sp = [s for s in msg["spans"] if s["is_primary"]]
        if sp:
            sites.append((code, sp[0]["file_name"], sp[0]["line_start"], sp[0]["column_start"]))
    obs = getattr(ctx, "_c01_obs", [])
    bodies = getattr(ctx, "_c01_bodies", [])
    unmatched = []
    in_universe = 0
    for code, file, line, col in sites:
        inside = any(b[0] == file and (b[1], b[2]) <= (line, col) <= (b[3], b[4]) for b in bodies)
        if not inside:
            continue
        in_universe += 1
        if not any(o[0] == file and (o[1], o[2]) <= (line, col) <= (o[3], o[4]) for o in obs):
            unmatched.append("%s at %s:%d:%d" % (code, file, line, col))
    res.extra["clippy_crossref"] = {"lint_sites": len(sites), "in_universe": in_universe, "unmatched": unmatched[:10]}
    if not sites:
        res.cannot("C01.clippy", "-", "clippy", "clippy produced no restriction-lint site (tool failed?)")
    elif unmatched:
        res.add(Finding("C01.clippy", "-", "clippy-unmatched:" + unmatched[0].split(" at ")[0], "clippy reports %d panic-capable site(s) in the universe that the obligation "
                        "enumeration does not contain: %s" % (len(unmatched), unmatched[:3]), cannot_analyse=True))
    else:
        res.holds("C01.clippy", "-", "clippy-covered", "%d restriction-lint sites in the universe, all enumerated" % in_universe)
