"""Utilities over the exported typed expression trees: traversal, normalised rendering (used for
instance keys and diagnostics: locals by name, no spans), program index and call resolution."""
import re

EXPR_CHILD_KEYS = ("f", "recv", "l", "r", "e", "cond", "then", "els", "scrut", "base", "idx", "iter",
                   "body", "while_cond", "block", "tail", "init", "guard")
LIST_CHILD_KEYS = ("args", "es", "stmts", "arms", "fields")


def is_node(x):
    return isinstance(x, dict) and "k" in x


def children(n):
    """Direct sub-nodes (expressions, blocks, statements, arms) in source order."""
    out = []
    k = n.get("k")
    if k is None:
        # arm or field-init
        for key in ("guard", "body", "e"):
            v = n.get(key)
            if isinstance(v, dict):
                out.append(v)
        return out
    order = {
        "call": ("f", "args"), "mcall": ("recv", "args"), "binary": ("l", "r"), "assign": ("l", "r"),
        "assign_op": ("l", "r"), "if": ("cond", "then", "els"), "match": ("scrut", "arms"),
        "index": ("base", "idx"), "for": ("iter", "body"), "loop": ("while_cond", "body"),
        "block": ("stmts", "tail"), "let": ("init", "els"), "struct": ("fields", "base"),
        "blockexpr": ("block",), "closure": ("body",), "expr": ("e",),
    }.get(k)
    if order is None:
        order = EXPR_CHILD_KEYS + LIST_CHILD_KEYS
    for key in order:
        v = n.get(key)
        if isinstance(v, dict):
            out.append(v)
        elif isinstance(v, list):
            for x in v:
                if isinstance(x, dict):
                    out.append(x)
    return out


SHORTENING = re.compile(r"\.(take|skip|step_by|filter|rev|take_while|skip_while|filter_map|chain|nth|nth_back|last|dedup\w*|truncate|retain|split_off|drain)\(")


def shortened(text):
    """an iterator adaptor / list operation that drops, reorders or adds items, in a rendered traversal (None if plain)"""
    m = SHORTENING.search(text)
    return m.group(0)[1:-1] if m else None


def returned_value(body):
    """The expression a function returns through its tail; a tail that is an immutable local defined once in the same block
    (`let merged = <expr>; debug_assert!(..); merged`) is that expression."""
    blk = peel(body["tree"])
    while blk.get("k") == "blockexpr":
        blk = blk["block"]
    tail = peel(blk["tail"]) if blk.get("tail") is not None else {}
    if local_of(tail) is not None:
        defs = [s_ for s_ in blk.get("stmts", []) if s_.get("k") == "let" and s_["pat"].get("p") == "bind" and s_["pat"]["id"] == local_of(tail) and s_.get("init") is not None
                and "Mut" not in s_["pat"].get("mode", "")]
        touched = [x for x in nodes(body["tree"], "mcall") if local_of(peel_ref(x["recv"])) == local_of(tail) and "ref_mut" in (x["recv"].get("adj") or [])]
        if len(defs) == 1 and not touched:
            return peel(defs[0]["init"])
    return tail


def _recv(n, R):
    """A range literal in receiver position is parenthesised: `(a..b).len()`, not `a..b.len()`."""
    p = peel(n)
    if p.get("k") == "struct" and "ops::Range" in ((p.get("res") or {}).get("path") or ""):
        return "(%s)" % R(n)
    return R(n)


def walk(n, parents=None):
    """Pre-order traversal yielding (node, parents-tuple)."""
    if parents is None:
        parents = ()
    yield n, parents
    p2 = parents + (n,)
    for c in children(n):
        yield from walk(c, p2)


def nodes(n, kind=None):
    for x, _ in walk(n):
        if kind is None or x.get("k") == kind:
            yield x


def peel(n):
    """Strip wrappers that do not change the value: blocks with only a tail, `&`/`&mut`, deref."""
    while True:
        k = n.get("k")
        if k == "blockexpr" and not n["block"]["stmts"] and n["block"].get("tail") is not None and not n.get("inlined"):
            n = n["block"]["tail"]       # (a labelled block that stands for an inlined helper with early returns is kept)
        elif k == "block" and not n["stmts"] and n.get("tail") is not None:
            n = n["tail"]
        else:
            return n


def peel_ref(n):
    while True:
        n = peel(n)
        k = n.get("k")
        if k == "addr_of":
            n = n["e"]
        elif k == "unary" and n.get("op") == "*":
            n = n["e"]
        else:
            return n


def strip_generics(p):
    out, depth = [], 0
    i = 0
    while i < len(p):
        c = p[i]
        if c == "<":
            if depth == 0 and out[-2:] == [":", ":"]:
                out = out[:-2]
            depth += 1
        elif c == ">":
            depth -= 1
        elif depth == 0:
            out.append(c)
        i += 1
    return "".join(out)


_AS = re.compile(r"^<(.+?) as (.+?)>::(.+)$")


def short_path(p):
    """`crate::<a::B as c::T>::m` -> `B::m` ; `crate::a::b::f` -> `a::b::f`."""
    if p is None:
        return None
    if p.startswith("crate::"):
        p = p[7:]
    m = _AS.match(p)
    if m:
        ty = strip_generics(m.group(1)).split("::")[-1]
        return ty + "::" + m.group(3)
    m = re.match(r"^(.*)::<impl (.+?) for (.+?)>::(.+)$", p)
    if m:
        return strip_generics(m.group(3)).split("::")[-1] + "::" + m.group(4)
    return strip_generics(p)


def callee(n):
    """Resolved callee def path of a call / method call / overloaded operator node, or None."""
    k = n.get("k")
    if k == "mcall":
        return n.get("resolved") or n.get("path")
    if k == "call":
        f = peel(n["f"])
        if f.get("k") == "path":
            r = f.get("res", {})
            if r.get("r") == "def":
                return f.get("resolved") or r.get("path")
            if r.get("r") == "selfctor":
                return r.get("path")
        return None
    if k in ("binary", "unary", "index", "assign_op"):
        return n.get("overloaded")
    return None


def callee_generic(n):
    """Trait-level (unresolved) callee path."""
    k = n.get("k")
    if k == "mcall":
        return n.get("path")
    if k == "call":
        f = peel(n["f"])
        if f.get("k") == "path" and f.get("res", {}).get("r") == "def":
            return f["res"]["path"]
    return callee(n)


def cname(n):
    """Generic-free callee name, e.g. `std::vec::Vec::push`, `core::str::<impl str>::len`."""
    c = callee_generic(n)
    return strip_generics(c) if c else None


def local_of(n):
    n = peel(n)
    if n.get("k") == "path" and n.get("res", {}).get("r") == "local":
        return n["res"]["id"]
    return None


def min_args(n):
    """(a, b) if n is `std::cmp::min(a, b)` or `a.min(b)` (Ord::min), else None."""
    n = peel_ref(n)
    ab = None
    if n.get("k") == "call" and (cname(n) or "").endswith("cmp::min") and len(n["args"]) == 2:
        ab = (n["args"][0], n["args"][1])
    elif n.get("k") == "mcall" and n["name"] == "min" and len(n["args"]) == 1 and (cname(n) or "").endswith("Ord::min"):
        ab = (n["recv"], n["args"][0])
    if ab is None:
        return None
    # min is commutative: the compound operand first, the plain local (the bound it is clamped by) second
    if local_of(peel_ref(ab[0])) is not None and local_of(peel_ref(ab[1])) is None:
        ab = (ab[1], ab[0])
    return ab


CONSTS = {}        # def path of a constant whose initialiser is a literal -> its value (filled by Program)


def lit_value(n):
    """The value of a literal, or of a named constant whose initialiser is a literal (`const ATTR: &str = "to"`)."""
    n = peel_ref(n) if n.get("k") == "addr_of" else peel(n)
    if n.get("k") == "lit":
        return n["v"][0]
    if n.get("k") == "path" and (n.get("res") or {}).get("dk", "").startswith(("Const", "AssocConst")):
        return CONSTS.get(n["res"].get("path"))
    return None


def is_lit(n, v=None):
    n = peel(n)
    if n.get("k") != "lit":
        return False
    return v is None or n["v"][0] == v


def loc(n):
    sp = n.get("sp")
    if not sp:
        return "?"
    return "%s:%d" % (sp[0], sp[1])


# ------------------------------------------------------------------------------------------------
# rendering

_SHAPE = [False]


def render_shape(n):
    """render() with every local replaced by its type: the spelling-independent shape of an expression."""
    _SHAPE[0] = True
    try:
        return render(n)
    finally:
        _SHAPE[0] = False


def rpat(p):
    k = p.get("p")
    if k == "wild":
        return "_"
    if k == "bind":
        if _SHAPE[0]:
            return "_"
        s = p["name"]
        if "Mut" in p.get("mode", "") and "mut" not in s:
            if p["mode"].endswith("Mut)") or "Mut" in p["mode"].split(",")[-1]:
                s = "mut " + s
        if p.get("sub"):
            s += " @ " + rpat(p["sub"])
        return s
    if k == "lit":
        return repr(p["v"][0])
    if k == "path":
        return short_path(p["res"].get("path", "?")).split("::")[-1] if p["res"].get("path") else "?"
    if k == "tuple_struct":
        nm = (p["res"].get("path") or "?")
        return "%s(%s)" % (strip_generics(nm).split("::")[-1], ", ".join(rpat(x) for x in p["pats"]))
    if k == "struct":
        nm = (p["res"].get("path") or "?")
        return "%s{%s}" % (strip_generics(nm).split("::")[-1], ", ".join(f["name"] + ": " + rpat(f["pat"]) for f in p["fields"]))
    if k == "tuple":
        return "(%s)" % ", ".join(rpat(x) for x in p["pats"])
    if k == "ref":
        return "&" + rpat(p["pat"])
    if k == "or":
        return " | ".join(rpat(x) for x in p["pats"])
    return "<pat?%s>" % p.get("what", "")


def pat_nodes(p):
    """All sub-patterns of a pattern (pre-order)."""
    if not isinstance(p, dict):
        return
    yield p
    for x in p.get("pats", []) or []:
        yield from pat_nodes(x)
    for f in p.get("fields", []) or []:
        yield from pat_nodes(f.get("pat"))
    if isinstance(p.get("pat"), dict):
        yield from pat_nodes(p["pat"])
    if isinstance(p.get("sub"), dict):
        yield from pat_nodes(p["sub"])


def render(n, depth=0):
    """Normalised source-like rendering (single line)."""
    if n is None:
        return ""
    k = n.get("k")
    if k is None:
        return "?"
    R = render
    if k == "lit":
        v = n["v"][0]
        if n["lk"] in ("str", "char", "bytestr"):
            return repr(v) if n["lk"] != "char" else "'" + repr(v)[1:-1] + "'"
        if n["lk"] == "byte":
            return "b'%s'" % (chr(v) if 32 < v < 127 else "\\x%02x" % v)
        if n["lk"] == "bool":
            return "true" if v else "false"
        return str(v)
    if k == "path":
        r = n["res"]
        if r.get("r") == "local":
            if _SHAPE[0]:
                return "<%s>" % strip_generics(n.get("ty") or "?").lstrip("&").replace("mut ", "")
            return r["name"]
        p = r.get("path") or r.get("dbg", "?")
        return short_path(p)
    if k == "call":
        f = peel(n["f"])
        fn = short_path(callee_generic(n)) if callee_generic(n) else R(f)
        # an empty collection is an empty collection: the capacity hint is never observable
        if fn in ("std::vec::Vec::with_capacity", "std::vec::Vec::<T>::with_capacity") and len(n["args"]) == 1:
            return "std::vec::Vec::new()"
        if fn == "std::string::String::with_capacity" and len(n["args"]) == 1:
            return "std::string::String::new()"
        if fn.endswith("Default::default") and not n["args"] and strip_generics(n.get("ty") or "") == "std::vec::Vec":
            return "std::vec::Vec::new()"
        if fn in ("std::convert::From::from", "std::string::String::from") and len(n["args"]) == 1 and strip_generics(n.get("ty") or "") == "std::string::String" \
                and (peel(n["args"][0]).get("ty") or "").replace("&", "").strip() == "str":
            return "%s.to_string()" % R(n["args"][0])
        return "%s(%s)" % (fn, ", ".join(R(a) for a in n["args"]))
    if k == "mcall":
        # an owned copy of a str is an owned copy of a str: to_owned / to_string / into (String) / String::from
        if n["name"] in ("to_owned", "into", "to_string") and not n["args"] and strip_generics(n.get("ty") or "") == "std::string::String" \
                and (peel(n["recv"]).get("aty") or peel(n["recv"]).get("ty") or "").replace("&", "").replace("mut ", "").strip() in ("str", "std::string::String"):
            return "%s.to_string()" % R(n["recv"])
        return "%s.%s(%s)" % (_recv(n["recv"], R), n["name"], ", ".join(R(a) for a in n["args"]))
    if k == "binary":
        return "(%s %s %s)" % (R(n["l"]), n["op"], R(n["r"]))
    if k == "unary":
        return "%s%s" % (n["op"], R(n["e"]))
    if k == "cast":
        return "(%s as %s)" % (R(n["e"]), n["ty"])
    if k == "tuple":
        return "(%s)" % ", ".join(R(a) for a in n["es"])
    if k == "array":
        return "[%s]" % ", ".join(R(a) for a in n["es"])
    if k == "repeat":
        return "[%s; _]" % R(n["e"])
    if k == "let_cond":
        return "let %s = %s" % (rpat(n["pat"]), R(n["e"]))
    if k == "if":
        s = "if %s %s" % (R(n["cond"]), R(n["then"]))
        if n.get("els"):
            s += " else %s" % R(n["els"])
        return s
    if k == "loop":
        if "while_cond" in n:
            return "while %s %s" % (R(n["while_cond"]), R(n["body"]))
        return "loop %s" % R(n["body"])
    if k == "for":
        return "for %s in %s %s" % (rpat(n["pat"]), R(n["iter"]), R(n["body"]))
    if k == "match":
        arms = []
        for a in n["arms"]:
            g = " if %s" % R(a["guard"]) if a.get("guard") else ""
            arms.append("%s%s => %s" % (rpat(a["pat"]), g, R(a["body"])))
        return "match %s { %s }" % (R(n["scrut"]), ", ".join(arms))
    if k == "closure":
        return "|%s| %s" % (", ".join(rpat(p["pat"]) for p in n["params"]), R(n["body"]))
    if k == "blockexpr":
        return R(n["block"])
    if k == "block":
        parts = [R(s) for s in n["stmts"]]
        if n.get("tail") is not None:
            parts.append(R(n["tail"]))
        return "{ %s }" % "; ".join(parts)
    if k == "let":
        s = "let %s" % rpat(n["pat"])
        if n.get("init") is not None:
            s += " = %s" % R(n["init"])
        if n.get("els") is not None:
            s += " else %s" % R(n["els"])
        return s
    if k == "expr":
        return R(n["e"])
    if k == "item":
        return "<item>"
    if k == "assign":
        return "%s = %s" % (R(n["l"]), R(n["r"]))
    if k == "assign_op":
        return "%s %s %s" % (R(n["l"]), n["op"], R(n["r"]))
    if k == "field":
        return "%s.%s" % (_recv(n["base"], R), n["name"])
    if k == "index":
        return "%s[%s]" % (R(n["base"]), R(n["idx"]))
    if k == "addr_of":
        return "&%s%s" % ("mut " if n.get("mut") else "", R(n["e"]))
    if k == "break":
        return "break %s" % R(n["e"]) if n.get("e") else "break"
    if k == "continue":
        return "continue"
    if k == "ret":
        return "return %s" % R(n["e"]) if n.get("e") else "return"
    if k == "struct":
        nm = n["res"].get("path") or "?"
        nm = short_path(nm)
        if nm.startswith("core::ops::Range") or nm.startswith("std::ops::Range") or "::range::" in nm or nm.startswith("core::range"):
            f = {x["name"]: R(x["e"]) for x in n["fields"]}
            if "start" in f and "end" in f:
                return "%s..%s" % (f["start"], f["end"])
            if "start" in f:
                return "%s.." % f["start"]
            if "end" in f:
                return "..%s" % f["end"]
        s = "%s{%s}" % (nm.split("::")[-1], ", ".join("%s: %s" % (x["name"], R(x["e"])) for x in n["fields"]))
        return s
    if k == "unknown":
        return "<unknown %s>" % n.get("what")
    return "<%s>" % k


def pretty(n, ind=0):
    """Multi-line rendering for humans (debug aid)."""
    pad = "  " * ind
    k = n.get("k")
    if k in ("block",):
        lines = [pad + "{"]
        for s in n["stmts"]:
            lines.append(pretty(s, ind + 1))
        if n.get("tail") is not None:
            lines.append(pretty(n["tail"], ind + 1))
        lines.append(pad + "}")
        return "\n".join(lines)
    if k == "blockexpr":
        return pretty(n["block"], ind)
    if k == "expr":
        return pretty(n["e"], ind)
    if k == "if":
        s = pad + "if " + render(n["cond"]) + "\n" + pretty(n["then"], ind)
        if n.get("els"):
            s += "\n" + pad + "else\n" + pretty(n["els"], ind)
        return s
    if k == "match":
        s = pad + "match " + render(n["scrut"]) + " {"
        for a in n["arms"]:
            g = " if " + render(a["guard"]) if a.get("guard") else ""
            s += "\n" + pad + "  " + rpat(a["pat"]) + g + " =>\n" + pretty(a["body"], ind + 2)
        return s + "\n" + pad + "}"
    if k == "loop":
        if "while_cond" in n:
            return pad + "while " + render(n["while_cond"]) + "\n" + pretty(n["body"], ind)
        return pad + "loop\n" + pretty(n["body"], ind)
    if k == "for":
        return pad + "for %s in %s\n" % (rpat(n["pat"]), render(n["iter"])) + pretty(n["body"], ind)
    if k == "let" and n.get("init") is not None and peel(n["init"]).get("k") in ("if", "match", "loop", "block", "blockexpr"):
        return pad + "let %s =\n" % rpat(n["pat"]) + pretty(n["init"], ind + 1)
    return pad + render(n)


# ------------------------------------------------------------------------------------------------

class Program:
    """Index over one crate's facts."""

    def __init__(self, facts):
        self.facts = facts
        self.bodies = {}
        for b in facts["bodies"]:
            self.bodies.setdefault(b["def_path"], b)
        self.by_short = {}
        for p, b in self.bodies.items():
            self.by_short.setdefault(short_path(p), []).append(b)
        for b in facts["bodies"]:
            if (b.get("kind") or "").startswith(("Const", "AssocConst")) and peel(b["tree"]).get("k") == "lit":
                CONSTS[b["def_path"]] = peel(b["tree"])["v"][0]
        self.adts = {a["def_path"]: a for a in facts["adts"]}
        self.impls = facts["impls"]
        self.traits = {t["def_path"]: t for t in facts["traits"]}

    def fn(self, short, required=True):
        """Look a body up by (suffix of) its short path; must be unique."""
        hits = [b for s, bs in self.by_short.items() for b in bs if s == short or s.endswith("::" + short)]
        if len(hits) == 1:
            return hits[0]
        if not hits:
            if required:
                raise AnchorMissing("function `%s` not found in the analysed program" % short)
            return None
        raise AnchorMissing("function name `%s` is ambiguous: %s" % (short, [h["def_path"] for h in hits]))

    def fns_matching(self, suffix):
        return [b for s, bs in self.by_short.items() for b in bs if s == suffix or s.endswith("::" + suffix)]

    def trait_impl_methods(self, trait_method_path):
        """Local implementations of a trait method (`crate::a::Trait::m` -> bodies)."""
        tp, _, m = trait_method_path.rpartition("::")
        out = []
        for i in self.impls:
            if i.get("trait") == tp:
                for me in i["methods"]:
                    if me["name"] == m and me["path"] in self.bodies:
                        out.append(self.bodies[me["path"]])
        return out

    def user_bodies(self):
        """Bodies that are not derive/macro generated."""
        away = getattr(self, "inlined_away", ())
        return [b for b in self.facts["bodies"] if not b.get("exp") and not (b.get("impl_of") or {}).get("derived") and b["def_path"] not in away]

    def callees(self, body):
        """Resolved crate-local callees (def paths) of a body, dyn calls fanned out to all impls."""
        out = []
        for n in nodes(body["tree"]):
            c = callee(n)
            if not c:
                # function items used as values (e.g. passed to map)
                if n.get("k") == "path" and n.get("res", {}).get("dk") in ("Fn", "AssocFn"):
                    c = n.get("resolved") or n["res"]["path"]
                else:
                    continue
            if c in self.bodies:
                out.append((c, n))
            elif c.startswith("crate::"):
                impls = self.trait_impl_methods(c)
                for b in impls:
                    out.append((b["def_path"], n))
        return out

    def entry_universe(self):
        """def paths reachable from the library entry points clean / list / list_all (what the properties quantify over);
        code that nothing of this calls - a new public convenience method, say - is not part of any analysed behaviour."""
        if not hasattr(self, "_universe"):
            roots = [b["def_path"] for n_ in ("chiritori::clean", "chiritori::list", "chiritori::list_all") for b in [self.fn(n_, required=False)] if b]
            self._universe = set(self.reachable(roots)) if roots else None
        return self._universe

    def reachable(self, roots):
        seen, work = [], list(roots)
        while work:
            p = work.pop()
            if p in seen or p not in self.bodies:
                continue
            seen.append(p)
            for c, _ in self.callees(self.bodies[p]):
                if c not in seen:
                    work.append(c)
        return seen


class AnchorMissing(Exception):
    pass
