"""Fact extraction: runs the rustc_private driver under the real cargo build of /repo and loads
the JSON fact files.  Nothing of chiritori is executed; `cargo check` only type-checks."""
import fcntl
import hashlib
import json
import os
import shutil
import subprocess
import tempfile
import time

VERIF = os.path.dirname(os.path.dirname(os.path.abspath(__file__)))
REPO = os.environ.get("VERIF_REPO", "/repo")
DRIVER_DIR = os.path.join(VERIF, "driver")
DRIVER = os.path.join(DRIVER_DIR, "target", "release", "driver")
CACHE = os.environ.get("VERIF_FACTS_CACHE") or os.path.join(VERIF, ".cache")      # (evaluation tools running in parallel give each worker its own)
SCHEMA = 3

EXPECTED = {"lib": "chiritori.chiritori.lib.json", "bin": "chiritori-cli.chiritori.bin.json"}


class ExtractionError(Exception):
    pass


def _env():
    env = dict(os.environ)
    env["CARGO_NET_OFFLINE"] = "true"
    return env


def nightly_sysroot():
    return subprocess.check_output(["rustc", "+nightly", "--print", "sysroot"], text=True, env=_env()).strip()


def build_driver(force=False):
    srcs = [os.path.join(DRIVER_DIR, "src", f) for f in os.listdir(os.path.join(DRIVER_DIR, "src"))]
    srcs.append(os.path.join(DRIVER_DIR, "Cargo.toml"))
    if not force and os.path.exists(DRIVER):
        m = os.path.getmtime(DRIVER)
        if all(os.path.getmtime(s) <= m for s in srcs):
            return
    r = subprocess.run(
        ["cargo", "+nightly", "build", "--release", "--offline"], cwd=DRIVER_DIR, env=_env(),
        stdout=subprocess.PIPE, stderr=subprocess.STDOUT, text=True)
    if r.returncode != 0 or not os.path.exists(DRIVER):
        raise ExtractionError("driver build failed:\n" + r.stdout[-4000:])


def source_files(repo):
    out = []
    for root, dirs, files in os.walk(repo):
        dirs[:] = sorted(d for d in dirs if d not in ("target", ".git", "node_modules"))
        for f in sorted(files):
            if f.endswith(".rs") or f in ("Cargo.toml", "Cargo.lock"):
                out.append(os.path.join(root, f))
    return out


def tree_hash(repo):
    h = hashlib.sha256()
    h.update(str(SCHEMA).encode())
    with open(DRIVER, "rb") as f:
        h.update(hashlib.sha256(f.read()).digest())
    for p in source_files(repo):
        h.update(os.path.relpath(p, repo).encode())
        with open(p, "rb") as f:
            h.update(hashlib.sha256(f.read()).digest())
    return h.hexdigest()[:24]


def _run_cargo(repo, facts_dir, target_dir, extra_rustflags=""):
    env = _env()
    env["LD_LIBRARY_PATH"] = os.path.join(nightly_sysroot(), "lib") + ":" + env.get("LD_LIBRARY_PATH", "")
    env["RUSTFLAGS"] = ("-Zmir-opt-level=0 -Awarnings " + extra_rustflags).strip()
    env["RUSTC_WORKSPACE_WRAPPER"] = DRIVER
    env["VERIF_FACTS_DIR"] = facts_dir
    env["CARGO_TARGET_DIR"] = target_dir
    r = subprocess.run(["cargo", "+nightly", "check", "--offline", "--workspace"], cwd=repo, env=env,
                       stdout=subprocess.PIPE, stderr=subprocess.STDOUT, text=True)
    return r


def extract(repo=REPO, fresh=False, facts_dir=None):
    """Return {'lib': facts, 'bin': facts, 'meta': {...}} for the working tree of `repo`.

    fresh=False: reuse /verif/.cache/<hash of the working tree> when present, and a persistent
    dependency target dir (the members' fingerprints are deleted so the wrapper always runs).
    fresh=True: throw-away target dir, no cache."""
    os.makedirs(CACHE, exist_ok=True)
    t0 = time.time()
    with open(os.path.join(CACHE, ".lock"), "w") as lock:
        fcntl.flock(lock, fcntl.LOCK_EX)
        build_driver()
        key = tree_hash(repo)
        cdir = os.path.join(CACHE, "facts-" + key)
        if not fresh and all(os.path.exists(os.path.join(cdir, f)) for f in EXPECTED.values()):
            return _load(cdir, {"cached": True, "key": key, "extract_s": round(time.time() - t0, 2)})
        out = facts_dir or tempfile.mkdtemp(prefix="chiritori-facts-")
        os.makedirs(out, exist_ok=True)
        if fresh:
            target = tempfile.mkdtemp(prefix="chiritori-target-")
        else:
            target = os.path.join(CACHE, "target")
            fp = os.path.join(target, "debug", ".fingerprint")
            if os.path.isdir(fp):
                for d in os.listdir(fp):
                    if d.startswith("chiritori"):
                        shutil.rmtree(os.path.join(fp, d), ignore_errors=True)
        try:
            r = _run_cargo(repo, out, target)
            if r.returncode != 0:
                raise ExtractionError("cargo check failed on the working tree (the tree must compile):\n" + r.stdout[-6000:])
            for f in EXPECTED.values():
                p = os.path.join(out, f)
                if not os.path.exists(p) or os.path.getsize(p) == 0:
                    raise ExtractionError("fact file missing after extraction: %s\n%s" % (f, r.stdout[-2000:]))
            if not fresh:
                # keep only a handful of cached fact sets
                old = sorted((d for d in os.listdir(CACHE) if d.startswith("facts-")),
                             key=lambda d: os.path.getmtime(os.path.join(CACHE, d)))
                for d in old[:-6]:
                    shutil.rmtree(os.path.join(CACHE, d), ignore_errors=True)
                tmp = cdir + ".tmp%d" % os.getpid()
                shutil.rmtree(tmp, ignore_errors=True)
                os.makedirs(tmp)
                for f in EXPECTED.values():
                    shutil.copy(os.path.join(out, f), os.path.join(tmp, f))
                shutil.rmtree(cdir, ignore_errors=True)
                os.rename(tmp, cdir)
            return _load(out, {"cached": False, "key": key, "extract_s": round(time.time() - t0, 2)})
        finally:
            if fresh:
                shutil.rmtree(target, ignore_errors=True)
            if facts_dir is None:
                shutil.rmtree(out, ignore_errors=True)


def _load(d, meta):
    res = {"meta": meta}
    for k, f in EXPECTED.items():
        with open(os.path.join(d, f)) as fh:
            data = json.load(fh)
        if data.get("schema") != SCHEMA:
            raise ExtractionError("fact schema mismatch in %s" % f)
        res[k] = data
    return res


def extract_crate(crate_dir, pkg_files):
    """Analyse a stand-alone crate (selftest controls) with the same driver."""
    build_driver()
    out = tempfile.mkdtemp(prefix="chiritori-facts-")
    target = tempfile.mkdtemp(prefix="chiritori-target-")
    try:
        r = _run_cargo(crate_dir, out, target)
        if r.returncode != 0:
            raise ExtractionError("cargo check failed for %s:\n%s" % (crate_dir, r.stdout[-4000:]))
        res = {}
        for f in os.listdir(out):
            with open(os.path.join(out, f)) as fh:
                res[f] = json.load(fh)
        return res
    finally:
        shutil.rmtree(out, ignore_errors=True)
        shutil.rmtree(target, ignore_errors=True)


if __name__ == "__main__":
    import sys
    f = extract(fresh="--fresh" in sys.argv)
    print(f["meta"], len(f["lib"]["bodies"]), len(f["bin"]["bodies"]))
