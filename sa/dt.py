"""Decision tables: compare the complete table extracted by the abstract interpreter with a spec."""
import itertools

from . import absint as A
from .report import Finding


def compare(res, rule, fn, outs, classify, domains, spec, observe, loc="?", what="verdict"):
    """outs: outcomes of Interp.explore.  classify(atom key, value) -> (spec atom name, spec value) or None = unknown atom.
    domains: {spec atom: [values]}.  spec(row) -> expected observation, or None for don't-care.
    observe(out) -> observation.  Every row of the product of the domains is one obligation.
    Returns (rows, mismatches)."""
    paths = []
    for o in outs:
        dec = {}
        unknown = []
        for k, v in o["decisions"].items():
            c = classify(k, v)
            if c is None:
                unknown.append(k)
            else:
                a, v = c
                if a in dec and dec[a] != v:
                    res.cannot(rule, fn, "atom-clash:" + a, "two atoms classify as `%s` with different values" % a, loc)
                    return 0, 1
                dec[a] = v
        if unknown:
            res.cannot(rule, fn, "unknown-atom:" + unknown[0][:120],
                       "the %s depends on a condition the spec table has no atom for: %s" % (what, unknown[0]), loc)
            return 0, 1
        paths.append((dec, o))
    names = list(domains)
    rows = 0
    bad = 0
    for combo in itertools.product(*[domains[n] for n in names]):
        row = dict(zip(names, combo))
        exp = spec(row)
        if exp is None:
            continue
        rows += 1
        hits = [o for dec, o in paths if all(row[a] == v for a, v in dec.items())]
        rowtxt = ",".join("%s=%s" % (n, row[n]) for n in names)
        if not hits:
            res.cannot(rule, fn, "row:" + rowtxt, "no extracted path covers this row", loc)
            bad += 1
            continue
        obs = {repr(observe(o)) for o in hits}
        if len(obs) != 1:
            res.cannot(rule, fn, "row:" + rowtxt, "paths covering this row disagree: %s" % sorted(obs), loc)
            bad += 1
            continue
        got = observe(hits[0])
        if got != exp:
            bad += 1
            res.add(Finding(rule, fn, "row:" + rowtxt,
                            "decision table mismatch in row [%s]: code gives %s=%r, the property requires %r"
                            % (rowtxt, what, got, exp), loc=loc,
                            detail={"row": row, "code": repr(got), "spec": repr(exp),
                                    "path_decisions": {k: str(v) for k, v in hits[0]["decisions"].items()}}))
        else:
            res.holds(rule, fn, "row:" + rowtxt)
    return rows, bad


def as_bool(out):
    v = out["value"]
    if out["exit"] == "panic":
        return "panic"
    if isinstance(v, A.Lit) and isinstance(v.v, bool):
        return v.v
    return A.show(v)
