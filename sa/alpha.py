"""Spelling independence of local names.

Many rules identify a local by the name it has on the reference tree (`cursor`, `removed_len`, `pause_on_char`, ..).  A
rename of a local variable, closure parameter or function parameter preserves behaviour and must not raise an alarm.  So
before any rule runs, every body is aligned with the *reference binder list* of the same function (spec/binders.json,
generated from the reference tree by tools/gen_binders.py): a binder whose name no longer exists in the function ("vanished")
and a binder with a name the reference does not know ("new") are paired when the binder sequences (kind, type) align, and the
new name is replaced by the reference name throughout the body.  Names present in both are never touched, so reordering or
swapping existing locals is not papered over; parameters are aligned by position.

The renaming is recorded in body["alpha"] ({reference name: source name}) and reported in the evidence."""
import difflib
import json
import os
import re

from . import tree as T

VERIF = os.path.dirname(os.path.dirname(os.path.abspath(__file__)))
REF = os.path.join(VERIF, "spec", "binders.json")


def _ty(t):
    t = re.sub(r"'\w+ ?", "", t or "?")
    return t.replace("&mut ", "&").replace("mut ", "")


def binders(body):
    """Pre-order list of the binding occurrences of a body: dict(kind, ty, name, pat)."""
    out = []

    def pat(p, kind):
        for x in T.pat_nodes(p):
            if x.get("p") == "bind":
                out.append({"kind": kind, "ty": _ty(x.get("ty")), "name": x["name"], "pat": x})
    for i, p in enumerate(body.get("params", [])):
        pat(p["pat"], "param%d" % i)
    for n in T.nodes(body["tree"]):
        k = n.get("k")
        if k == "let":
            pat(n.get("pat"), "let")
        elif k == "let_cond":
            pat(n.get("pat"), "iflet")
        elif k == "for":
            pat(n.get("pat"), "for")
        elif k == "closure":
            for j, p in enumerate(n.get("params", [])):
                pat(p["pat"], "clo%d" % j)
        elif k == "match":
            for a in n.get("arms", []):
                pat(a.get("pat"), "arm")
    return out


def reference_of(program):
    return {b["def_path"]: [[x["kind"], x["ty"], x["name"]] for x in binders(b)] for b in program.user_bodies()}


# ------------------------------------------------------------------------------------------------ items (functions, types)

def _sig(b):
    return [_ty(p.get("ty")) for p in b.get("params", [])] + [_ty(b.get("ret_ty"))]


def items_of(crate_facts):
    """Reference description of the crate's own functions and types: where they are and what they look like without names."""
    fns = {}
    for b in crate_facts["bodies"]:
        if b.get("kind") in ("Fn", "AssocFn") and not b.get("exp") and b.get("sp"):
            fns[b["def_path"]] = {"file": b["sp"][0], "line": b["sp"][1], "sig": _sig(b)}
        elif (b.get("kind") or "").startswith(("Const", "AssocConst", "Static")) and not b.get("exp") and b.get("sp") and "{" not in b["def_path"].rsplit("::", 1)[-1]:
            # named constants take part in the alignment like functions (signature = their type)
            fns[b["def_path"]] = {"file": b["sp"][0], "line": b["sp"][1], "sig": ["const", _ty(b.get("ret_ty"))]}
    adts = {}
    for a in crate_facts["adts"]:
        if not a.get("sp"):
            continue
        adts[a["def_path"]] = {"file": a["sp"][0], "line": a["sp"][1], "kind": a["kind"],
                               "variants": [[v["name"], [_ty(f["ty"]) for f in v["fields"]], [f["name"] for f in v["fields"]]] for v in a.get("variants", [])]}
    return {"fns": fns, "adts": adts}


def _parent(path):
    return path.rsplit("::", 1)[0]


def align_items(crate_facts, ref):
    """Renamed private functions, types, enum variants and struct fields are mapped back to their reference names.  A
    vanished reference item and a new item are paired when they live in the same file under the same parent path and have
    the same shape (signature / variant and field types), uniquely.  Returns (facts, {new: reference})."""
    cur = items_of(crate_facts)
    done = {}
    repl = []          # (regex, replacement) on the serialised facts
    # type renames first (function signatures mention the types)
    van = [p for p in ref.get("adts", {}) if p not in cur["adts"]]
    new = [p for p in cur["adts"] if p not in ref.get("adts", {})]
    for v in van:
        rv = ref["adts"][v]
        shape = [(x[1]) for x in rv["variants"]]
        cands = [n for n in new if cur["adts"][n]["file"] == rv["file"] and _parent(n) == _parent(v) and cur["adts"][n]["kind"] == rv["kind"]
                 and [(x[1]) for x in cur["adts"][n]["variants"]] == shape]
        back = [w for w in van if ref["adts"][w]["file"] == rv["file"] and _parent(w) == _parent(v) and ref["adts"][w]["kind"] == rv["kind"]
                and [(x[1]) for x in ref["adts"][w]["variants"]] == shape]
        if len(cands) == 1 and len(back) == 1:
            n = cands[0]
            done[n] = v
            short_n, short_v = n[len("crate::"):], v[len("crate::"):]
            repl.append((re.compile(r"(?<![\w:])(crate::)?%s(?![\w])" % re.escape(short_n)), lambda m, sv=short_v: (m.group(1) or "") + sv))
    # a type that was moved keeps its name and shape (module paths inside the field types are ignored: the type may mention itself)
    def _leafy(t):
        return re.sub(r"(?:\w+::)+", "", t)
    for v in van:
        if v in done.values():
            continue
        rv = ref["adts"][v]
        shape = [(x[0], [_leafy(t) for t in x[1]]) for x in rv["variants"]]
        leaf = v.rsplit("::", 1)[-1]
        cands = [n for n in new if n not in done and n.rsplit("::", 1)[-1] == leaf and cur["adts"][n]["kind"] == rv["kind"]
                 and [(x[0], [_leafy(t) for t in x[1]]) for x in cur["adts"][n]["variants"]] == shape]
        back = [w for w in van if w not in done.values() and w.rsplit("::", 1)[-1] == leaf]
        if len(cands) == 1 and len(back) == 1:
            n = cands[0]
            done[n] = v
            short_n, short_v = n[len("crate::"):], v[len("crate::"):]
            repl.append((re.compile(r"(?<![\w:])(crate::)?%s(?![\w])" % re.escape(short_n)), lambda m, sv=short_v: (m.group(1) or "") + sv))
    if repl:
        txt = json.dumps(crate_facts)
        for rx, rp in repl:
            txt = rx.sub(rp, txt)
        crate_facts = json.loads(txt)
        cur = items_of(crate_facts)
        repl = []
    # variants and fields of types present on both sides
    field_map = {}     # (adt path, variant path or None) -> {new field: ref field}
    for pth, ra in ref.get("adts", {}).items():
        ca = cur["adts"].get(pth)
        if ca is None or len(ca["variants"]) != len(ra["variants"]):
            continue
        rnames = {x[0] for x in ra["variants"]}
        cnames = {x[0] for x in ca["variants"]}
        for rvv, cvv in zip(ra["variants"], ca["variants"]):
            if rvv[1] != cvv[1]:
                continue
            if rvv[0] != cvv[0] and ra["kind"] == "enum" and cvv[0] not in rnames and rvv[0] not in cnames:
                done["%s::%s" % (pth, cvv[0])] = "%s::%s" % (pth, rvv[0])
                repl.append((re.compile(r"(?<![\w])%s::%s(?![\w])" % (re.escape(pth), re.escape(cvv[0]))), "%s::%s" % (pth, rvv[0])))
                short = pth[len("crate::"):]
                repl.append((re.compile(r"(?<![\w:])%s::%s(?![\w])" % (re.escape(short), re.escape(cvv[0]))), "%s::%s" % (short, rvv[0])))
            fm = {}
            for rf, cf in zip(rvv[2], cvv[2]):
                if rf != cf and cf not in rvv[2] and rf not in cvv[2]:
                    fm[cf] = rf
            if fm:
                field_map[(pth, cvv[0])] = fm
                for cf, rf in fm.items():
                    done["%s.%s" % (pth, cf)] = rf
    # functions
    van = [p for p in ref.get("fns", {}) if p not in cur["fns"]]
    new = [p for p in cur["fns"] if p not in ref.get("fns", {})]
    paired_new = set()
    for v in van:
        rv = ref["fns"][v]
        cands = [n for n in new if cur["fns"][n]["file"] == rv["file"] and _parent(n) == _parent(v) and cur["fns"][n]["sig"] == rv["sig"]]
        back = [w for w in van if ref["fns"][w]["file"] == rv["file"] and _parent(w) == _parent(v) and ref["fns"][w]["sig"] == rv["sig"]]
        if len(cands) == 1 and len(back) == 1:
            n = cands[0]
            done[n] = v
            paired_new.add(n)
            repl.append((re.compile(r"(?<![\w])%s(?![\w])" % re.escape(n)), v))
            repl.append((re.compile(r"(?<![\w:])%s(?![\w])" % re.escape(n[len("crate::"):])), v[len("crate::"):]))
    # a function that was *moved* (another module / file, or free function <-> associated function) keeps its name and
    # signature: paired when that (name, signature) is unique among the vanished and among the new functions of the crate
    def _leaf(p_):
        return p_.rsplit("::", 1)[-1]
    for v in van:
        if v in done.values():
            continue
        rv = ref["fns"][v]
        cands = [n for n in new if n not in paired_new and _leaf(n) == _leaf(v) and cur["fns"][n]["sig"] == rv["sig"]]
        back = [w for w in van if w not in done.values() and _leaf(w) == _leaf(v) and ref["fns"][w]["sig"] == rv["sig"]]
        if len(cands) == 1 and len(back) == 1:
            n = cands[0]
            done[n] = v
            paired_new.add(n)
            repl.append((re.compile(r"(?<![\w])%s(?![\w])" % re.escape(n)), v))
            repl.append((re.compile(r"(?<![\w:])%s(?![\w])" % re.escape(n[len("crate::"):])), v[len("crate::"):]))
    if repl:
        txt = json.dumps(crate_facts)
        for rx, rp in repl:
            txt = rx.sub(rp, txt)
        crate_facts = json.loads(txt)
        for a in crate_facts["adts"]:
            for v in a.get("variants", []):
                if v.get("path") and a["kind"] == "enum":
                    v["name"] = v["path"].rsplit("::", 1)[-1]
    if field_map:
        _rename_fields(crate_facts, field_map)
    return crate_facts, done


def _rename_fields(crate_facts, field_map):
    by_adt = {}
    for (pth, vname), fm in field_map.items():
        by_adt.setdefault(pth, {}).update(fm)
        by_adt.setdefault(pth[len("crate::"):], {}).update(fm)
    for a in crate_facts["adts"]:
        fm = by_adt.get(a["def_path"])
        if fm:
            for v in a.get("variants", []):
                for f in v["fields"]:
                    f["name"] = fm.get(f["name"], f["name"])

    def adt_of(ty):
        t = T.strip_generics(_ty(ty or "")).lstrip("&")
        return by_adt.get(t) or by_adt.get("crate::" + t)
    for b in crate_facts["bodies"]:
        for n in T.nodes(b["tree"]):
            k = n.get("k")
            if k == "field":
                base = n.get("base") or {}
                fm = adt_of(base.get("aty") or base.get("ty"))
                if fm and n.get("name") in fm:
                    n["name"] = fm[n["name"]]
            elif k == "struct":
                fm = adt_of(n.get("ty")) or by_adt.get((n.get("res") or {}).get("path") or "")
                if fm:
                    for f in n.get("fields", []):
                        f["name"] = fm.get(f["name"], f["name"])
            pats = []
            if k in ("let", "let_cond", "for"):
                pats.append(n.get("pat"))
            if k == "closure":
                pats += [p["pat"] for p in n.get("params", [])]
            if k == "match":
                pats += [a_.get("pat") for a_ in n.get("arms", [])]
            for p in pats:
                for x in T.pat_nodes(p):
                    if x.get("p") == "struct":
                        fm = by_adt.get((x.get("res") or {}).get("path") or "") or adt_of(x.get("ty"))
                        if fm:
                            for f in x.get("fields", []):
                                f["name"] = fm.get(f["name"], f["name"])
        for p in b.get("params", []):
            for x in T.pat_nodes(p["pat"]):
                if x.get("p") == "struct":
                    fm = by_adt.get((x.get("res") or {}).get("path") or "")
                    if fm:
                        for f in x.get("fields", []):
                            f["name"] = fm.get(f["name"], f["name"])


def load_reference():
    if not os.path.exists(REF):
        return {}
    with open(REF) as f:
        return json.load(f)


def normalise_body(body, ref):
    """Rename new-named binders of `body` to the vanished reference names they align with.  Returns {ref name: source name}."""
    cur = binders(body)
    ref_names = {r[2] for r in ref}
    cur_names = {c["name"] for c in cur}
    if ref_names == cur_names or not (ref_names - cur_names) or not (cur_names - ref_names):
        return {}

    def key(kind, ty, name, both):
        return (kind, ty, name if name in both else "*")
    both = ref_names & cur_names
    a = [key(r[0], r[1], r[2], both) for r in ref]
    b = [key(c["kind"], c["ty"], c["name"], both) for c in cur]
    sm = difflib.SequenceMatcher(a=a, b=b, autojunk=False)
    pairs = {}       # source name -> reference name
    clash = set()
    for blk in sm.get_matching_blocks():
        for k in range(blk.size):
            r, c = ref[blk.a + k], cur[blk.b + k]
            if r[2] in both or c["name"] in both or r[2] == c["name"]:
                continue
            if pairs.get(c["name"], r[2]) != r[2]:
                clash.add(c["name"])
            pairs[c["name"]] = r[2]
    # a reference name may be the image of one source name only
    inv = {}
    for s, r in pairs.items():
        inv.setdefault(r, []).append(s)
    for r, ss in inv.items():
        if len(ss) > 1:
            clash.update(ss)
    pairs = {s: r for s, r in pairs.items() if s not in clash}
    if not pairs:
        return {}
    ids = {}
    for c in cur:
        if c["name"] in pairs:
            ids[c["pat"]["id"]] = pairs[c["name"]]
            c["pat"]["name"] = pairs[c["name"]]
    for n in T.nodes(body["tree"]):
        if n.get("k") == "path" and n["res"].get("r") == "local" and n["res"].get("id") in ids:
            n["res"]["name"] = ids[n["res"]["id"]]
    return {r: s for s, r in pairs.items()}


def normalise_program(program, ref):
    done = {}
    for b in program.user_bodies():
        r = ref.get(b["def_path"])
        if not r:
            continue
        if "alpha" in b:
            if b["alpha"]:
                done[T.short_path(b["def_path"])] = b["alpha"]
            continue
        b["alpha"] = normalise_body(b, r)
        if b["alpha"]:
            done[T.short_path(b["def_path"])] = b["alpha"]
    return done
