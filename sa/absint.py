"""Path-enumerating abstract interpreter over the typed expression trees (engine DT / FSM / linear).

Nothing is executed concretely: inputs are opaque symbols, every condition that depends on a symbol is
an *atom* whose outcomes are enumerated exhaustively (stateless DFS over the decision sequence), so
the result is the complete decision table of a loop-free code fragment over its finite abstract
domain.  Values compared only through <,<=,>,>=,==,!= are abstracted to the three orderings.
Anything outside the supported subset raises Cannot (callers fail closed)."""
from collections import OrderedDict

from . import tree as T


class Cannot(Exception):
    pass


# ---------------------------------------------------------------------------------------------- values

class Lit:
    def __init__(self, v, kind=None):
        self.v = v
        self.kind = kind

    def show(self):
        if isinstance(self.v, bool):
            return "true" if self.v else "false"
        return repr(self.v)


class Sym:
    def __init__(self, term, ty=None):
        self.term = term
        self.ty = ty or ""

    def show(self):
        return self.term


class Variant:
    def __init__(self, name, args=()):
        self.name = name      # short name, e.g. Some, None, State::Name
        self.args = list(args)

    def show(self):
        if not self.args:
            return self.name
        return "%s(%s)" % (self.name, ", ".join(show(a) for a in self.args))


class Tuple:
    def __init__(self, items):
        self.items = list(items)

    def show(self):
        # (x.0, x.1, ..) taken apart and put together again is x itself (eta rule for tuples)
        if len(self.items) >= 2 and all(isinstance(a, Sym) for a in self.items):
            base = self.items[0].term[:-2] if self.items[0].term.endswith(".0") else None
            if base and all(a.term == "%s.%d" % (base, i) for i, a in enumerate(self.items)):
                return base
        return "(%s)" % ", ".join(show(a) for a in self.items)


class Struct:
    def __init__(self, name, fields):
        self.name = name
        self.fields = OrderedDict(fields)

    def show(self):
        if self.name.endswith("Range") and set(self.fields) == {"start", "end"}:
            return "%s..%s" % (show(self.fields["start"]), show(self.fields["end"]))
        if self.name.endswith("RangeFrom") and set(self.fields) == {"start"}:
            return "%s.." % show(self.fields["start"])
        if self.name.endswith("RangeTo") and set(self.fields) == {"end"}:
            return "..%s" % show(self.fields["end"])
        return "%s{%s}" % (self.name, ", ".join("%s: %s" % (k, show(v)) for k, v in self.fields.items()))


class VecV:
    """A vector built on this path (literal / pushes); `base` is a symbolic prefix or None."""

    def __init__(self, items=(), base=None):
        self.items = list(items)
        self.base = base

    def show(self):
        s = ", ".join(show(a) for a in self.items)
        if self.base is not None:
            return "[%s.. %s]" % (show(self.base), s)
        return "[%s]" % s


class StrCat:
    """A String assembled on this path: ordered parts (symbols / literals)."""

    def __init__(self, parts):
        self.parts = list(parts)

    def show(self):
        return "concat(%s)" % ", ".join(show(p) for p in self.parts)


class Closure:
    def __init__(self, node, env, interp_fn=None):
        self.node = node
        self.env = env

    def show(self):
        return T.render(self.node)


UNIT = Tuple([])


def show(v):
    return v.show() if hasattr(v, "show") else str(v)


def contains_sym(v, term):
    """Number of occurrences of the symbol `term` inside a value."""
    if isinstance(v, Sym):
        return 1 if v.term == term else 0
    if isinstance(v, Variant):
        return sum(contains_sym(a, term) for a in v.args)
    if isinstance(v, Tuple):
        return sum(contains_sym(a, term) for a in v.items)
    if isinstance(v, Struct):
        return sum(contains_sym(a, term) for a in v.fields.values())
    if isinstance(v, VecV):
        n = sum(contains_sym(a, term) for a in v.items)
        if v.base is not None:
            n += contains_sym(v.base, term)
        return n
    return 0


class _Return(Exception):
    def __init__(self, v):
        self.v = v


class _Break(Exception):
    def __init__(self, v, target=None):
        self.v = v
        self.target = target


class _Continue(Exception):
    pass


class _Panic(Exception):
    def __init__(self, what):
        self.what = what


def sname(path):
    """Short variant / ctor name: last two segments for local enums, last one for Option/Result."""
    p = T.strip_generics(path or "?")
    segs = p.split("::")
    if segs[-1] in ("Some", "None", "Ok", "Err"):
        return segs[-1]
    return "::".join(segs[-2:]) if len(segs) >= 2 else segs[-1]


def _top_split(s):
    """Split `a, b` at the top-level comma (parentheses, braces, brackets and quotes respected)."""
    depth = 0
    q = None
    for i, c in enumerate(s):
        if q:
            if c == q and s[i - 1] != "\\":
                q = None
        elif c in "'\"":
            q = c
        elif c in "([{":
            depth += 1
        elif c in ")]}":
            depth -= 1
        elif c == "," and depth == 0:
            return s[:i], s[i + 1:].lstrip()
    return None


def _subst_key(key, val, old, new):
    """A decision key with `old` replaced by `new`, keeping the operand order canonical (eq / ord keys sort their operands)."""
    for head in ("eq(", "ord("):
        if key.startswith(head) and key.endswith(")"):
            ab = _top_split(key[len(head):-1])
            if ab:
                a, b = ab[0].replace(old, new), ab[1].replace(old, new)
                if a > b:
                    a, b = b, a
                    if head == "ord(":
                        val = {"<": ">", "=": "=", ">": "<"}.get(val, val)
                return "%s%s, %s)" % (head, a, b), val
    return key.replace(old, new), val


# ---------------------------------------------------------------------------------------------- interpreter

class Interp:
    def __init__(self, program, inline=(), opaque_bool_calls=True, max_paths=20000, assume_ok=False, models=None):
        self.P = program
        self.inline = set(inline)
        self.assume_ok = assume_ok       # unwrap/expect on an opaque Result takes the Ok branch only
        self.lazy_locals = False         # unbound locals evaluate to a symbol of their name (loop-body exploration)
        self.extra_models = models or {}
        self.max_paths = max_paths
        self.prefix = []
        self.reset()

    def reset(self):
        self.trace = []
        self.decisions = OrderedDict()
        self.effects = []
        self.ord_pairs = set()
        self.implied = {}            # atoms whose value follows from earlier decisions (not choices of their own)
        self._stack = []
        self._block_targets = []

    # -- oracle ------------------------------------------------------------------------------
    def choose(self, key, options):
        if key in self.decisions:
            return self.decisions[key]
        if key in self.implied:
            return self.implied[key]
        idx = len(self.trace)
        c = self.prefix[idx] if idx < len(self.prefix) else 0
        if c >= len(options):
            raise Cannot("oracle desynchronised at %s" % key)
        self.trace.append((key, len(options), c))
        self.decisions[key] = options[c]
        return options[c]

    def _next_prefix(self):
        tr = self.trace
        i = len(tr) - 1
        while i >= 0:
            _, n, c = tr[i]
            if c + 1 < n:
                return [x[2] for x in tr[:i]] + [c + 1]
            i -= 1
        return None

    def explore(self, fn):
        """Run fn(interp) for every decision sequence.  fn returns any value; outcomes are collected as
        dicts {decisions, exit, value, effects}."""
        outs = []
        self.prefix = []
        n = 0
        while True:
            self.reset()
            n += 1
            if n > self.max_paths:
                raise Cannot("more than %d paths" % self.max_paths)
            try:
                v = fn(self)
                out = {"exit": "fall", "value": v}
            except _Return as r:
                out = {"exit": "return", "value": r.v}
            except _Break as b:
                out = {"exit": "break", "value": b.v}
            except _Continue:
                out = {"exit": "continue", "value": None}
            except _Panic as p:
                out = {"exit": "panic", "value": Sym("panic: " + p.what)}
            out["decisions"] = OrderedDict(self.decisions)
            out["effects"] = list(self.effects)
            out["env"] = getattr(self, "last_env", None)
            outs.append(out)
            nxt = self._next_prefix()
            if nxt is None:
                return outs
            self.prefix = nxt

    # -- truthiness / opening symbolic values ------------------------------------------------------
    def truth(self, v):
        if isinstance(v, Lit) and isinstance(v.v, bool):
            return v.v
        if isinstance(v, Sym):
            return self.choose(v.term, [True, False])
        raise Cannot("condition is not boolean: %s" % show(v))

    def open_option(self, v):
        """Concrete Some(payload)/None for an Option-typed value."""
        if isinstance(v, Variant) and v.name in ("Some", "None"):
            return v
        if isinstance(v, Sym):
            some = self.choose("is_some(%s)" % v.term, [True, False])
            if some:
                return Variant("Some", [Sym("%s.some" % v.term, _opt_inner(v.ty))])
            return Variant("None")
        raise Cannot("not an Option: %s" % show(v))

    def open_result(self, v):
        if isinstance(v, Variant) and v.name in ("Ok", "Err"):
            return v
        if isinstance(v, Sym):
            ok = self.choose("is_ok(%s)" % v.term, [True, False])
            if ok:
                return Variant("Ok", [Sym("%s.ok" % v.term)])
            return Variant("Err", [Sym("%s.err" % v.term)])
        raise Cannot("not a Result: %s" % show(v))

    def compare(self, op, l, r, lty=""):
        if isinstance(l, Lit) and isinstance(r, Lit):
            a, b = l.v, r.v
            return Lit({"==": a == b, "!=": a != b, "<": a < b, "<=": a <= b, ">": a > b, ">=": a >= b}[op])
        if isinstance(l, Variant) and isinstance(r, Variant) and op in ("==", "!="):
            if l.name != r.name:
                return Lit(op == "!=")
            if not l.args and not r.args:
                return Lit(op == "==")
        # char classes
        if isinstance(l, CharClass) or isinstance(r, CharClass):
            cc, other = (l, r) if isinstance(l, CharClass) else (r, l)
            if isinstance(other, Lit) and op in ("==", "!="):
                eq = cc.equals(other.v)
                return Lit(eq if op == "==" else not eq)
            raise Cannot("char class compared with non-literal")
        ls, rs = show(l), show(r)
        if ls == rs and isinstance(l, (Sym, Lit)) and isinstance(r, (Sym, Lit)):
            self.effects.append(("same", ls, [], None))
            return Lit(op in ("==", "<=", ">="))        # a value compared with itself
        use_ord = op in ("<", "<=", ">", ">=") or (ls, rs) in self.ord_pairs or (rs, ls) in self.ord_pairs \
            or _is_orderable(lty)
        if use_ord:
            flip = ls > rs
            a, b = (rs, ls) if flip else (ls, rs)
            self.ord_pairs.add((a, b))
            o = self.choose("ord(%s, %s)" % (a, b), ["<", "=", ">"])
            if flip:
                o = {"<": ">", "=": "=", ">": "<"}[o]
            return Lit({"==": o == "=", "!=": o != "=", "<": o == "<", "<=": o in "<=", ">": o == ">", ">=": o in ">="}[op])
        a, b = sorted((ls, rs))
        eq = self.choose("eq(%s, %s)" % (a, b), [True, False])
        return Lit(eq if op == "==" else not eq)

    # -- patterns ----------------------------------------------------------------------------------
    def match_pat(self, p, v, env):
        """Try to match value v against pattern p, binding into env.  Returns True/False."""
        k = p["p"]
        if k == "wild":
            return True
        if k == "bind":
            if p.get("sub"):
                if not self.match_pat(p["sub"], v, env):
                    return False
            env[p["id"]] = v
            return True
        if k == "ref":
            return self.match_pat(p["pat"], v, env)
        if k == "tuple":
            items = self._tuple_items(v, len(p["pats"]))
            return all(self.match_pat(sp, it, env) for sp, it in zip(p["pats"], items))
        if k == "or":
            for sp in p["pats"]:
                if self.match_pat(sp, v, env):
                    return True
            return False
        if k == "lit":
            if isinstance(p["v"][0], bool) and isinstance(v, Sym):
                return self.truth(v) == p["v"][0]
            r = self.compare("==", v, Lit(p["v"][0]))
            return self.truth(r)
        if k == "struct" and (p["res"].get("dk") in ("Struct",) or not str(p["res"].get("dk", "")).startswith("Ctor")) and p["res"].get("dk") != "Variant":
            # plain struct destructuring: bind every field pattern to the field of the value
            for f in p["fields"]:
                if isinstance(v, Struct) and f["name"] in v.fields:
                    fv = v.fields[f["name"]]
                elif isinstance(v, Sym):
                    fv = Sym("%s.%s" % (v.term, f["name"]))
                else:
                    raise Cannot("cannot destructure %s" % show(v))
                if not self.match_pat(f["pat"], fv, env):
                    return False
            return True
        if k == "path" and str(p["res"].get("dk", "")).startswith(("Const", "AssocConst")) and p["res"].get("path") in T.CONSTS:
            # a named constant used as a pattern is its value
            r = self.compare("==", v, Lit(T.CONSTS[p["res"]["path"]]))
            return self.truth(r)
        if k in ("tuple_struct", "path", "struct"):
            name = sname(p["res"].get("path"))
            if isinstance(v, Struct) and getattr(v, "is_variant", False):
                # a struct-like variant built on this path against a pattern of the same enum
                if v.name != name:
                    return False
                if k != "struct":
                    return k == "path" or not p.get("pats")
                for f in p["fields"]:
                    if f["name"] not in v.fields:
                        raise Cannot("field %s of %s" % (f["name"], v.name))
                    if not self.match_pat(f["pat"], v.fields[f["name"]], env):
                        return False
                return True
            v = self.open_variant(v, name, p)
            if not isinstance(v, Variant):
                raise Cannot("cannot match %s against %s" % (show(v), name))
            if v.name != name:
                return False
            if k == "tuple_struct":
                if len(v.args) != len(p["pats"]):
                    raise Cannot("arity mismatch in pattern %s" % name)
                return all(self.match_pat(sp, a, env) for sp, a in zip(p["pats"], v.args))
            if k == "struct":
                # positional fields written with numeric names (`Continue{0: val}`, as the `?` desugaring does)
                if all(f["name"].isdigit() for f in p["fields"]):
                    for f in p["fields"]:
                        i_ = int(f["name"])
                        if i_ >= len(v.args):
                            raise Cannot("arity mismatch in pattern %s" % name)
                        if not self.match_pat(f["pat"], v.args[i_], env):
                            return False
                    return True
                raise Cannot("struct-variant patterns are not modelled")
            return True
        raise Cannot("pattern kind %s" % k)

    def open_variant(self, v, wanted, p):
        if isinstance(v, Variant):
            return v
        if wanted in ("Some", "None"):
            return self.open_option(v)
        if wanted in ("Ok", "Err"):
            return self.open_result(v)
        if isinstance(v, Sym):
            # local enum: enumerate its variants from the ADT table
            enum_path = (p["res"].get("path") or "").rsplit("::", 1)[0]
            adt = self.P.adts.get(T.strip_generics(enum_path)) or self.P.adts.get(enum_path)
            names = None
            if adt and adt["kind"] == "enum":
                names = [sname(x["path"]) for x in adt["variants"]]
                arity = {sname(x["path"]): len(x["fields"]) for x in adt["variants"]}
            if not names:
                names = [wanted, "<other>"]
                arity = {wanted: len(p.get("pats", [])), "<other>": 0}
            choice = self.choose("variant(%s)" % v.term, names)
            return Variant(choice, [Sym("%s.%d" % (v.term, i)) for i in range(arity.get(choice, 0))])
        return v

    def _tuple_items(self, v, n):
        if isinstance(v, Tuple):
            if len(v.items) != n:
                raise Cannot("tuple arity")
            return v.items
        if isinstance(v, Sym):
            return [Sym("%s.%d" % (v.term, i)) for i in range(n)]
        raise Cannot("not a tuple: %s" % show(v))

    # -- evaluation --------------------------------------------------------------------------------
    def block(self, b, env):
        for s in b["stmts"]:
            self.stmt(s, env)
        if b.get("tail") is not None:
            return self.ev(b["tail"], env)
        return UNIT

    def stmt(self, s, env):
        k = s["k"]
        if k == "let":
            if s.get("init") is None:
                return
            v = self.ev(s["init"], env)
            if s.get("els") is not None:
                if not self.match_pat(s["pat"], v, env):
                    self.block(s["els"], env)
                    raise Cannot("let-else block fell through")
                return
            if not self.match_pat(s["pat"], v, env):
                raise Cannot("irrefutable let pattern did not match %s" % show(v))
        elif k == "expr":
            self.ev(s["e"], env)
        elif k == "item":
            pass
        else:
            raise Cannot("statement kind %s" % k)

    def cond(self, c, env):
        """Evaluate an `if` condition (may contain let-chains); bindings go to env."""
        c = T.peel(c)
        if c["k"] == "let_cond":
            v = self.ev(c["e"], env)
            return self.match_pat(c["pat"], v, env)
        if c["k"] == "binary" and c["op"] == "&&":
            return self.cond(c["l"], env) and self.cond(c["r"], env)
        return self.truth(self.ev(c, env))

    def ev(self, n, env):
        k = n["k"]
        m = getattr(self, "ev_" + k, None)
        if m is None:
            raise Cannot("expression kind `%s` at %s" % (k, T.loc(n)))
        return m(n, env)

    def ev_lit(self, n, env):
        return Lit(n["v"][0], n["lk"])

    def ev_path(self, n, env):
        r = n["res"]
        if r["r"] == "local":
            if r["id"] not in env:
                if not self.lazy_locals:
                    raise Cannot("unbound local %s" % r["name"])
                env[r["id"]] = Sym(r["name"], n.get("ty"))
            return env[r["id"]]
        if r["r"] == "def":
            dk = r.get("dk", "")
            if dk.startswith("Ctor"):
                return Variant(sname(r["path"]))
            if dk.startswith("Const") or dk.startswith("AssocConst"):
                b = self.P.bodies.get(r["path"])
                if b is not None:
                    return self.ev(b["tree"], {})
                return Sym(T.short_path(r["path"]), n.get("ty"))
            if dk in ("Fn", "AssocFn"):
                return Sym("fn " + T.short_path(n.get("resolved") or r["path"]), "fn")
            if dk.startswith("Static"):
                return Sym(T.short_path(r["path"]), n.get("ty"))
        if r["r"] == "selfctor":
            return Variant(sname(r["path"]))
        raise Cannot("path resolution %s" % r)

    def ev_blockexpr(self, n, env):
        if n.get("inlined"):
            # the body of an inlined helper: its `return e` became `break 'inl e` (sa/inline.py)
            self._block_targets.append(n["id"])
            try:
                return self.block(n["block"], env)
            except _Break as b:
                if b.target == n["id"]:
                    return b.v
                raise
            finally:
                self._block_targets.pop()
        return self.block(n["block"], env)

    def ev_block(self, n, env):
        return self.block(n, env)

    def ev_tuple(self, n, env):
        return Tuple([self.ev(x, env) for x in n["es"]])

    def ev_array(self, n, env):
        return VecV([self.ev(x, env) for x in n["es"]])

    def ev_addr_of(self, n, env):
        return self.ev(n["e"], env)

    def ev_cast(self, n, env):
        return self.ev(n["e"], env)

    def ev_unary(self, n, env):
        v = self.ev(n["e"], env)
        if n["op"] == "*":
            return v
        if n["op"] == "!":
            if isinstance(v, Lit) and isinstance(v.v, bool):
                return Lit(not v.v)
            return Lit(not self.truth(v))
        if n["op"] == "-" and isinstance(v, Lit):
            return Lit(-v.v)
        return Sym("%s%s" % (n["op"], show(v)), n.get("ty"))

    def ev_binary(self, n, env):
        op = n["op"]
        if op == "&&":
            l = self.truth(self.ev(n["l"], env))
            if not l:
                return Lit(False)
            return Lit(self.truth(self.ev(n["r"], env)))
        if op == "||":
            l = self.truth(self.ev(n["l"], env))
            if l:
                return Lit(True)
            return Lit(self.truth(self.ev(n["r"], env)))
        l = self.ev(n["l"], env)
        r = self.ev(n["r"], env)
        if op in ("==", "!=", "<", "<=", ">", ">="):
            return self.compare(op, l, r, n["l"].get("ty", ""))
        if isinstance(l, Lit) and isinstance(r, Lit) and op in "+-*" and isinstance(l.v, int) and isinstance(r.v, int):
            return Lit({"+": l.v + r.v, "-": l.v - r.v, "*": l.v * r.v}[op])
        # String + &str: concatenation
        if op == "+" and (n.get("ty") or "").endswith("string::String"):
            lp = l.parts if isinstance(l, StrCat) else [l]
            rp = r.parts if isinstance(r, StrCat) else [r]
            return StrCat(lp + rp)
        # x + 0, 0 + x, x - 0 are x (results of `usize::from(false)` and the like)
        if op in "+-" and isinstance(r, Lit) and r.v == 0 and not isinstance(r.v, bool):
            return l
        if op == "+" and isinstance(l, Lit) and l.v == 0 and not isinstance(l.v, bool):
            return r
        return Sym("(%s %s %s)" % (show(l), op, show(r)), n.get("ty"))

    def ev_field(self, n, env):
        b = self.ev(n["base"], env)
        name = n["name"]
        if isinstance(b, Struct) and name in b.fields:
            return b.fields[name]
        if isinstance(b, Tuple) and name.isdigit():
            return b.items[int(name)]
        if isinstance(b, Sym):
            return Sym("%s.%s" % (b.term, name), n.get("ty"))
        raise Cannot("field %s of %s" % (name, show(b)))

    def ev_index(self, n, env):
        b = self.ev(n["base"], env)
        i = self.ev(n["idx"], env)
        if isinstance(b, VecV) and b.base is None and isinstance(i, Lit) and isinstance(i.v, int):
            if 0 <= i.v < len(b.items):
                return b.items[i.v]
            raise _Panic("index out of bounds: %s" % T.render(n))
        m = self.extra_models.get("index")
        if m is not None and (n.get("ty") or "") == "u8":
            return m(self, [b, i], n, env)
        # coll[coll.iter().position(p).unwrap()] is the element coll.iter().find(p) returns
        if isinstance(i, Sym) and i.term.endswith("#index") and isinstance(b, Sym) and i.term.startswith("find(%s.iter(), " % b.term):
            return Sym(i.term[:-len("#index")], n.get("ty"))
        return Sym("%s[%s]" % (show(b), show(i)), n.get("ty"))

    def ev_struct(self, n, env):
        r = n["res"]
        name = sname(r.get("path") or n.get("ty"))   # `Self { .. }` has no def path: use the type
        fields = [(f["name"], self.ev(f["e"], env)) for f in n["fields"]]
        if n.get("base") is not None:
            raise Cannot("struct update syntax")
        nm = T.strip_generics(r.get("path") or "")
        if "ops::Range" in nm or "range::Range" in nm:
            name = nm.split("::")[-1]
        st = Struct(name, fields)
        st.is_variant = r.get("dk") == "Variant"      # `Enum::V { a, b }`: a variant with named fields
        return st

    def ev_if(self, n, env):
        if self.cond(n["cond"], env):
            return self.ev(n["then"], env)
        if n.get("els") is not None:
            return self.ev(n["els"], env)
        return UNIT

    def ev_match(self, n, env):
        v = self.ev(n["scrut"], env)
        for a in n["arms"]:
            if self.match_pat(a["pat"], v, env):
                if a.get("guard") is not None:
                    if not self.cond(a["guard"], env):
                        continue
                return self.ev(a["body"], env)
        raise Cannot("no match arm applies to %s at %s" % (show(v), T.loc(n)))

    def ev_ret(self, n, env):
        raise _Return(self.ev(n["e"], env) if n.get("e") else UNIT)

    def ev_break(self, n, env):
        raise _Break(self.ev(n["e"], env) if n.get("e") else UNIT, n.get("target"))

    def ev_continue(self, n, env):
        raise _Continue()

    def ev_closure(self, n, env):
        return Closure(n, env)

    def ev_assign(self, n, env):
        v = self.ev(n["r"], env)
        self.assign(n["l"], v, env)
        return UNIT

    def ev_assign_op(self, n, env):
        cur = self.ev(n["l"], env)
        r = self.ev(n["r"], env)
        op = n["op"].rstrip("=")
        if isinstance(cur, Lit) and isinstance(r, Lit) and op in "+-":
            v = Lit(cur.v + r.v if op == "+" else cur.v - r.v)
        else:
            v = Sym("(%s %s %s)" % (show(cur), op, show(r)), n["l"].get("ty"))
        self.assign(n["l"], v, env)
        return UNIT

    def assign(self, place, v, env):
        place = T.peel(place)
        k = place["k"]
        if k == "unary" and place["op"] == "*":
            return self.assign(place["e"], v, env)
        if k == "path" and place["res"]["r"] == "local":
            env[place["res"]["id"]] = v
            self.effects.append(("assign", place["res"]["name"], v, place))
            return
        if k == "field":
            base = self.ev(place["base"], env)
            if isinstance(base, Struct) and place["name"] in base.fields:
                base.fields[place["name"]] = v
                return
            if isinstance(base, Tuple) and place["name"].isdigit():
                base.items[int(place["name"])] = v
                return
            self.effects.append(("assign_field", "%s.%s" % (show(base), place["name"]), v, place))
            return
        if k == "index":
            base = self.ev(place["base"], env)
            i = self.ev(place["idx"], env)
            if isinstance(base, VecV) and base.base is None and isinstance(i, Lit) and isinstance(i.v, int) and 0 <= i.v < len(base.items):
                base.items[i.v] = v
                return
            self.effects.append(("assign_index", "%s[%s]" % (show(base), show(i)), v, place))
            return
        raise Cannot("assignment to %s" % T.render(place))

    def ev_loop(self, n, env):
        raise Cannot("loop at %s (loops are handled by the calling rule)" % T.loc(n))

    def ev_for(self, n, env):
        """`for x in coll { if !p(x) { continue }; ..; return / break }`: a first-match search, interpreted as
        `coll.iter().find(p)` followed by the body on the found element.  Anything else is left to the calling rule."""
        body = n["body"]
        bound_inside = {x["id"] for s_ in T.nodes(body, "let") for x in T.pat_nodes(s_["pat"]) if x.get("p") == "bind"}
        for x in T.nodes(body):
            if x.get("k") in ("assign", "assign_op"):
                raise Cannot("loop at %s (loops are handled by the calling rule)" % T.loc(n))
            if x.get("k") == "mcall" and "ref_mut" in (x["recv"].get("adj") or []) and T.local_of(T.peel_ref(x["recv"])) not in bound_inside:
                raise Cannot("loop at %s (loops are handled by the calling rule)" % T.loc(n))
            if x.get("k") in ("loop", "for") and x is not n:
                raise Cannot("nested loop at %s" % T.loc(n))
        src = self.ev(n["iter"], env)
        if isinstance(src, VecV) and src.base is None:
            # a list whose items are all known on this path: the loop is executed, item by item
            for item in list(src.items):
                e2 = env
                if not self.match_pat(n["pat"], item, e2):
                    raise Cannot("loop pattern")
                try:
                    self.ev(body, e2)
                except _Continue:
                    continue
                except _Break as b:
                    if b.target in self._block_targets:
                        raise
                    break
            return UNIT
        if not isinstance(src, Sym):
            raise Cannot("loop at %s over a collection built on this path" % T.loc(n))
        it = T.peel(n["iter"])
        sterm = src.term if (it.get("k") == "mcall" and it["name"] in ("iter", "into_iter", "iter_mut")) else src.term + ".iter()"
        sub = Interp(self.P, inline=self.inline, models=self.extra_models, assume_ok=self.assume_ok)
        sub.lazy_locals = self.lazy_locals

        def run(J):
            e2 = dict(env)
            if not J.match_pat(n["pat"], Sym("$e"), e2):
                raise Cannot("loop pattern")
            return J.ev(body, e2)
        outs = sub.explore(run)
        seqs = []
        for o in outs:
            if o["exit"] == "panic":
                raise Cannot("loop body may panic at %s" % T.loc(n))
            skip = o["exit"] in ("fall", "continue")
            # calls recorded while the element is tested (`if a.is_available(el) {..}`) are the predicate of the search, like the
            # closure of `find`; anything else done to a skipped element is an effect the search idiom does not have
            if skip and any(e[0] != "call" for e in o["effects"]):
                raise Cannot("loop at %s has effects on elements it skips" % T.loc(n))
            seqs.append((list(o["decisions"].items()), skip))
        if not any(sk for _, sk in seqs) or all(sk for _, sk in seqs):
            raise Cannot("loop at %s is not a first-match search" % T.loc(n))
        # maximal decision prefixes under which no path skips = the predicate of the search
        prefixes = set()
        for seq, sk in seqs:
            if sk:
                continue
            for k in range(len(seq) + 1):
                pre = tuple(seq[:k])
                if not any(sk2 and tuple(seq2[:k]) == pre for seq2, sk2 in seqs):
                    prefixes.add(pre)
                    break
        if any(not pre or any("$e" not in key for key, _ in pre) for pre in prefixes):
            raise Cannot("loop at %s: the match condition does not depend on the element only" % T.loc(n))
        pred = "{%s}" % " | ".join(sorted(" & ".join("%s%s" % ("" if v is True else "!" if v is False else str(v) + ":", k) for k, v in pre) for pre in prefixes))
        found = Sym("find(%s, %s)" % (sterm, pred))
        o_ = self.open_option(found)
        if o_.name != "Some":
            return UNIT
        elem = o_.args[0]
        if len(prefixes) == 1:
            for key, v in list(prefixes)[0]:
                k2, v2 = _subst_key(key, v, "$e", elem.term)
                self.implied.setdefault(k2, v2)
        e2 = env
        if not self.match_pat(n["pat"], elem, e2):
            raise Cannot("loop pattern")
        try:
            self.ev(body, e2)
        except _Break as b:
            if b.target in self._block_targets:
                raise
            return UNIT
        except _Continue:
            raise Cannot("the found element is skipped at %s" % T.loc(n))
        raise Cannot("the found element falls through the loop body at %s" % T.loc(n))

    def ev_let_cond(self, n, env):
        return Lit(self.cond(n, env))

    def ev_repeat(self, n, env):
        return Sym("[%s; _]" % show(self.ev(n["e"], env)), n.get("ty"))

    def ev_unknown(self, n, env):
        raise Cannot("unknown HIR node %s at %s" % (n.get("what"), T.loc(n)))

    # -- calls -------------------------------------------------------------------------------------
    def apply(self, f, args):
        if isinstance(f, Closure):
            env = f.env
            ps = f.node["params"]
            if len(ps) != len(args):
                raise Cannot("closure arity")
            for p, a in zip(ps, args):
                if not self.match_pat(p["pat"], a, env):
                    raise Cannot("closure parameter pattern")
            try:
                return self.ev(f.node["body"], env)
            except _Return as r:
                return r.v
        if isinstance(f, Sym) and f.term.startswith("fn "):
            return Sym("%s(%s)" % (f.term[3:], ", ".join(show(a) for a in args)))
        if isinstance(f, Variant) and not f.args:
            return Variant(f.name, args)
        raise Cannot("cannot apply %s" % show(f))

    def call_fn_body(self, body, args):
        env = {}
        if len(body["params"]) != len(args):
            raise Cannot("arity of %s" % body["def_path"])
        for p, a in zip(body["params"], args):
            if not self.match_pat(p["pat"], a, env):
                raise Cannot("parameter pattern")
        try:
            return self.ev(body["tree"], env)
        except _Return as r:
            return r.v

    def ev_call(self, n, env):
        f = T.peel(n["f"])
        c = T.callee(n)
        args = [self.ev(a, env) for a in n["args"]]
        if f["k"] == "path" and f["res"]["r"] == "def" and f["res"].get("dk", "").startswith("Ctor"):
            return Variant(sname(f["res"]["path"]), args)
        if f["k"] == "path" and f["res"]["r"] == "local":
            return self.apply(self.ev(f, env), args)
        if c is None:
            raise Cannot("unresolved call at %s" % T.loc(n))
        return self.invoke(c, T.cname(n), None, args, n, env)

    def ev_mcall(self, n, env):
        recv = self.ev(n["recv"], env)
        args = [self.ev(a, env) for a in n["args"]]
        c = T.callee(n)
        return self.invoke(c, T.cname(n), recv, args, n, env)

    def invoke(self, c, cn, recv, args, n, env):
        """c: resolved path, cn: generic-free trait-level name."""
        allargs = ([recv] if recv is not None else []) + args
        if c in self.inline and c in self.P.bodies:
            return self.call_fn_body(self.P.bodies[c], allargs)
        # a function the reference tree does not have (a helper extracted from an analysed function) is interpreted
        # inline, so that extracting it changes nothing for the rules; recursion into it stays opaque
        if c in getattr(self.P, "new_fns", ()) and c in self.P.bodies and c not in self._stack:
            self._stack.append(c)
            try:
                return self.call_fn_body(self.P.bodies[c], allargs)
            finally:
                self._stack.pop()
        model = self.extra_models.get(cn) or MODELS.get(cn) or MODELS.get(T.strip_generics(c or ""))
        if model is None and cn:
            # suffix models, e.g. any Iterator::find
            for suffix, fn in SUFFIX_MODELS:
                if cn.endswith(suffix):
                    model = fn
                    break
        if model is not None:
            return model(self, allargs, n, env)
        # opaque call
        name = T.short_path(cn or c or "?")
        if (c or cn or "").startswith("crate::") and "::" in name:
            # crate-local callee: type-qualified method name or bare function name keeps the terms readable
            segs = name.split("::")
            name = "::".join(segs[-2:]) if segs[-2][:1].isupper() else segs[-1]
        if recv is not None:
            term = "%s.%s(%s)" % (show(recv), n["name"], ", ".join(show(a) for a in args))
        else:
            term = "%s(%s)" % (name, ", ".join(show(a) for a in args))
        self.effects.append(("call", name, allargs, n))
        # an opaque callee may write through `&mut local`
        argn = ([n["recv"]] if recv is not None else []) + n["args"]
        for an in argn:
            a = T.peel(an)
            if a.get("k") == "addr_of" and a.get("mut"):
                t = T.peel(a["e"])
                if t.get("k") == "path" and t["res"]["r"] == "local":
                    env[t["res"]["id"]] = Sym("out(%s)" % term)
        if n.get("ty") == "!":
            raise _Panic("diverging call %s" % name)
        return Sym(term, n.get("ty"))


class CharClass:
    """Abstract character: one of a finite set of literal classes or `other` (any char not in `excluded`)."""

    def __init__(self, ch=None, excluded=()):
        self.ch = ch
        self.excluded = set(excluded)

    def equals(self, c):
        if self.ch is not None:
            return self.ch == c
        if c in self.excluded:
            return False
        raise Cannot("literal %r is not in the alphabet partition" % c)

    def show(self):
        return repr(self.ch) if self.ch is not None else "<other>"


def _opt_inner(ty):
    if ty and ty.startswith("std::option::Option<") and ty.endswith(">"):
        return ty[len("std::option::Option<"):-1]
    return ""


def _is_orderable(ty):
    ty = (ty or "").lstrip("&")
    return ty in ("usize", "u8", "u16", "u32", "u64", "i32", "i64", "isize") or ty.startswith("chrono::DateTime")


# ---------------------------------------------------------------------------------------------- models

def _transparent(I, a, n, env):
    return a[0]


def _opt_map(I, a, n, env):
    o = I.open_option(a[0])
    if o.name == "Some":
        return Variant("Some", [I.apply(a[1], [o.args[0]])])
    return Variant("None")


def _opt_and_then(I, a, n, env):
    o = I.open_option(a[0])
    if o.name == "Some":
        return I.apply(a[1], [o.args[0]])
    return Variant("None")


def _opt_map_or(I, a, n, env):
    o = I.open_option(a[0])
    if o.name == "Some":
        return I.apply(a[2], [o.args[0]])
    return a[1]


def _opt_map_or_else(I, a, n, env):
    """opt.map_or_else(|| d, f): like map_or, the default computed only when needed."""
    o = I.open_option(a[0])
    if o.name == "Some":
        return I.apply(a[2], [o.args[0]])
    return I.apply(a[1], [])


def _opt_unwrap_or_else(I, a, n, env):
    o = I.open_option(a[0])
    return o.args[0] if o.name == "Some" else I.apply(a[1], [])


def _opt_is_some(I, a, n, env):
    return Lit(I.open_option(a[0]).name == "Some")


def _opt_is_none(I, a, n, env):
    return Lit(I.open_option(a[0]).name == "None")


def _opt_unwrap(I, a, n, env):
    o = I.open_option(a[0])
    if o.name == "Some":
        return o.args[0]
    raise _Panic("unwrap on None: %s" % T.render(n))


def _opt_unwrap_or(I, a, n, env):
    o = I.open_option(a[0])
    return o.args[0] if o.name == "Some" else a[1]


def _opt_is_some_and(I, a, n, env):
    o = I.open_option(a[0])
    if o.name == "Some":
        return Lit(I.truth(I.apply(a[1], [o.args[0]])))
    return Lit(False)


def _opt_is_none_or(I, a, n, env):
    o = I.open_option(a[0])
    if o.name == "Some":
        return Lit(I.truth(I.apply(a[1], [o.args[0]])))
    return Lit(True)


def _res_is_ok_and(I, a, n, env):
    o = I.open_result(a[0])
    if o.name == "Ok":
        return Lit(I.truth(I.apply(a[1], [o.args[0]])))
    return Lit(False)


def _opt_unwrap_or_default(I, a, n, env):
    o = I.open_option(a[0])
    if o.name == "Some":
        return o.args[0]
    ty = (n.get("ty") or "").lstrip("&")
    if ty in ("str", "std::string::String"):
        return Lit("")
    if ty in ("usize", "u32", "u64", "i32", "i64"):
        return Lit(0)
    if ty == "bool":
        return Lit(False)
    if ty.startswith("std::vec::Vec<"):
        return VecV([])
    return Sym("default::<%s>()" % ty, ty)


def _slice_join(I, a, n, env):
    """[a, b, ..].join(sep) of string pieces built on this path -> the assembled string."""
    v, sep = a[0], a[1]
    if isinstance(v, VecV) and v.base is None and (n.get("ty") or "").endswith("String"):
        parts = []
        for i, x in enumerate(v.items):
            if i:
                parts.extend(sep.parts if isinstance(sep, StrCat) else [sep])
            parts.extend(x.parts if isinstance(x, StrCat) else [x])
        return StrCat(parts)
    return Sym("%s.join(%s)" % (show(v), show(sep)), n.get("ty"))


def _print(I, a, n, env):
    """print!/println!: the printed text (assembled like format!) is recorded as the argument of the effect."""
    try:
        v = _format(I, a, n, env)
    except Cannot:
        v = Sym("<formatted text>")
    I.effects.append(("call", "std::io::_print", [v], n))
    return UNIT


def _try_branch(I, a, n, env):
    """`x?`: Option/Result -> ControlFlow (Continue(payload) | Break(residual))."""
    v = a[0]
    ty = T.strip_generics((n["args"][0].get("ty") or "")) if n.get("args") else ""
    if isinstance(v, Variant) and v.name in ("Ok", "Err") or "result::Result" in ty:
        r = I.open_result(v)
        return Variant("ControlFlow::Continue", [r.args[0]]) if r.name == "Ok" else Variant("ControlFlow::Break", [r])
    o = I.open_option(v)
    return Variant("ControlFlow::Continue", [o.args[0]]) if o.name == "Some" else Variant("ControlFlow::Break", [o])


def _format(I, a, n, env):
    """format!("..{}..", x, y) with plain `{}` placeholders -> the assembled string parts."""
    import re as _re
    snip = n.get("snip") or ""
    m = _re.match(r'^(format|print|println)!\(\s*"((?:[^"\\]|\\.)*)"\s*(?:,(.*))?\)$', snip, _re.S)
    if not m:
        raise Cannot("format! invocation not understood: %s" % snip[:60])
    fmt = m.group(2) + ("\\n" if m.group(1) == "println" else "")
    pieces = _re.split(r"(\{[^}]*\})", fmt)
    # argument values: the expansion starts with `let args = (&a, &b, ..);`
    blk = T.peel(n["args"][0]) if n.get("args") else None
    vals = []
    if blk is not None and blk.get("k") == "blockexpr" and blk["block"]["stmts"]:
        st0 = blk["block"]["stmts"][0]
        if st0.get("k") == "let" and st0.get("init") is not None:
            v = I.ev(st0["init"], env)
            vals = list(v.items) if isinstance(v, Tuple) else [v]
    parts = []
    vi = 0
    named = {}
    for pc in pieces:
        if not pc:
            continue
        if pc.startswith("{") and pc.endswith("}"):
            inner = pc[1:-1]
            if inner == "":
                if vi >= len(vals):
                    raise Cannot("format!: more placeholders than arguments")
                parts.append(vals[vi])
                vi += 1
            elif _re.match(r"^[A-Za-z_][A-Za-z0-9_]*$", inner):
                # inline named argument `{name}`: captured in order of first appearance
                if inner not in named:
                    if vi >= len(vals):
                        raise Cannot("format!: captured argument not found")
                    named[inner] = vals[vi]
                    vi += 1
                parts.append(named[inner])
            else:
                raise Cannot("format!: placeholder `%s` (width / precision / debug) is not modelled" % pc)
        else:
            parts.append(Lit(pc.replace("\\n", "\n").replace("\\t", "\t").replace('\\"', '"').replace("{{", "{").replace("}}", "}")))
    out = []
    for p_ in parts:
        if isinstance(p_, StrCat):
            out.extend(p_.parts)
        else:
            out.append(p_)
    return StrCat(out)


def _opt_filter(I, a, n, env):
    o = I.open_option(a[0])
    if o.name == "Some" and I.truth(I.apply(a[1], [o.args[0]])):
        return o
    return Variant("None")


def _res_is_ok(I, a, n, env):
    return Lit(I.open_result(a[0]).name == "Ok")


def _res_is_err(I, a, n, env):
    return Lit(I.open_result(a[0]).name == "Err")


def _res_unwrap(I, a, n, env):
    if I.assume_ok and isinstance(a[0], Sym):
        return Sym("%s.ok" % a[0].term)
    o = I.open_result(a[0])
    if o.name == "Ok":
        return o.args[0]
    raise _Panic("unwrap on Err: %s" % T.render(n))


def _res_ok(I, a, n, env):
    o = I.open_result(a[0])
    return Variant("Some", [o.args[0]]) if o.name == "Ok" else Variant("None")


def _res_map_err(I, a, n, env):
    o = I.open_result(a[0])
    if o.name == "Err":
        return Variant("Err", [I.apply(a[1], [o.args[0]])])
    return o


def _from_bool(I, a, n, env):
    """usize::from(b) / i32::from(b): 1 or 0 (the decision is the boolean's)."""
    ty = (n.get("ty") or "")
    aty = (n["args"][0].get("ty") or "") if n.get("args") else ""
    if aty.lstrip("&") == "bool" and ty in ("usize", "u8", "u16", "u32", "u64", "i32", "i64", "isize"):
        return Lit(1 if I.truth(a[0]) else 0)
    return Sym("%s::from(%s)" % (ty, show(a[0])), ty)


def _iter_position(I, a, n, env):
    """it.position(p): the index of the element that it.find(p) returns - same decision, and indexing the collection with
    it gives that element."""
    f = Sym("find(%s, %s)" % (show(a[0]), canon_pred(I, a[1])))
    o = I.open_option(f)
    if o.name == "Some":
        return Variant("Some", [Sym(o.args[0].term + "#index", "usize")])
    return Variant("None")


def _res_or(I, a, n, env):
    """r.or(Err(e)) == r.map_err(|_| e); r.or(Ok(v)): Ok(payload) or Ok(v)."""
    o = I.open_result(a[0])
    if o.name == "Err":
        return a[1]
    return o


def _iter_zip(I, a, n, env):
    # it.zip(std::iter::repeat(x)) pairs every item with x: the same as it.map(|v| (v, x))
    m = _re_zip.match(show(a[1]))
    if m:
        return Sym("%s.map(|v| (v, %s))" % (show(a[0]), m.group(1)), n.get("ty"))
    return Sym("%s.zip(%s)" % (show(a[0]), show(a[1])), n.get("ty"))


import re as _re_mod
_re_zip = _re_mod.compile(r"^std::iter::repeat\((.*)\)$")


def canon_pred(I, clo):
    """Canonical description of a predicate closure: the atoms under which it is true, obtained by
    exploring its body on a fresh element symbol `$e` (so `a.name == "to"` and `"to" == x.name` agree)."""
    if not isinstance(clo, Closure):
        return show(clo)
    sub = Interp(I.P, inline=I.inline)

    def run(J):
        env = dict(clo.env)
        ps = clo.node["params"]
        if len(ps) != 1 or not J.match_pat(ps[0]["pat"], Sym("$e"), env):
            raise Cannot("predicate closure shape")
        try:
            v = J.ev(clo.node["body"], env)
        except _Return as r:
            v = r.v
        return Lit(J.truth(v))
    outs = sub.explore(run)
    trues = []
    for o in outs:
        if o["exit"] != "fall":
            raise Cannot("predicate closure exits abnormally")
        if o["value"].v:
            trues.append(" & ".join("%s%s" % ("" if v is True else "!" if v is False else str(v) + ":", k) for k, v in o["decisions"].items()))
    return "{%s}" % " | ".join(sorted(trues))


def _iter_find(I, a, n, env):
    return Sym("find(%s, %s)" % (show(a[0]), canon_pred(I, a[1])), n.get("ty"))


def _slice_split_first(I, a, n, env):
    """v.split_first(): None iff v is empty, else Some((v[0], v[1..])) - the same decision as v.is_empty()."""
    v = a[0]
    if isinstance(v, VecV):
        if v.items and v.base is None:
            return Variant("Some", [Tuple([v.items[0], VecV(v.items[1:])])])
        if not v.items and v.base is None:
            return Variant("None")
        if not v.items and I.truth(Sym("is_empty(%s)" % show(v.base), "bool")):
            return Variant("None")
        return Variant("Some", [Tuple([Sym("%s[0]" % show(v)), Sym("%s[1..]" % show(v))])])
    return Sym("%s.split_first()" % show(v), n.get("ty"))


def _list_into_iter(I, a, n, env):
    """A list built on this path consumed as an iterator: the same list (its items in order)."""
    v = a[0]
    if isinstance(v, VecV):
        return v
    return Sym("%s.into_iter()" % show(v), n.get("ty"))


def _list_iter_next(I, a, n, env):
    """`it.next()` on such an iterator: None iff nothing is left (the decision of `is_empty`), else the first item; the
    iterator then stands behind it."""
    v = a[0]
    if isinstance(v, VecV):
        if v.base is None:
            return Variant("Some", [v.items.pop(0)]) if v.items else Variant("None")
        if not v.items and I.truth(Sym("is_empty(%s)" % show(v.base), "bool")):
            return Variant("None")
        whole = show(v)
        first = Sym("%s[0]" % whole)
        v.items = []
        v.base = Sym("%s[1..]" % whole)
        return Variant("Some", [first])
    return Sym("%s.next()" % show(v), n.get("ty"))


def _iter_find_map(I, a, n, env):
    """it.find_map(|x| cond(x).then(|| f(x)))  ==  it.find(|x| cond(x)).map(|x| f(x)): the closure is explored on a fresh
    element; the paths that yield Some(..) give the predicate, their value (with the element substituted) the result."""
    clo = a[1]
    if not isinstance(clo, Closure) or len(clo.node["params"]) != 1:
        return Sym("find_map(%s, %s)" % (show(a[0]), show(clo)), n.get("ty"))
    sub = Interp(I.P, inline=I.inline, models=I.extra_models)

    def run(J):
        env2 = dict(clo.env)
        if not J.match_pat(clo.node["params"][0]["pat"], Sym("$e"), env2):
            raise Cannot("find_map closure parameter")
        try:
            v = J.ev(clo.node["body"], env2)
        except _Return as r:
            v = r.v
        return J.open_option(v)
    outs = sub.explore(run)
    somes = [o for o in outs if isinstance(o["value"], Variant) and o["value"].name == "Some"]
    if not somes or len(somes) == len(outs) or any(o["exit"] != "fall" for o in outs) or any("$e" not in k for o in outs for k in o["decisions"]):
        raise Cannot("find_map closure is not `condition on the element => Some(value)`")
    if len({show(o["value"].args[0]) for o in somes}) != 1:
        raise Cannot("find_map yields different values on different paths")
    pred = "{%s}" % " | ".join(sorted(" & ".join("%s%s" % ("" if v is True else "!" if v is False else str(v) + ":", k) for k, v in o["decisions"].items()) for o in somes))
    found = I.open_option(Sym("find(%s, %s)" % (show(a[0]), pred)))
    if found.name != "Some":
        return Variant("None")
    # evaluate the closure once more on the found element, with the predicate's atoms implied
    elem = found.args[0]
    if len(somes) == 1:
        for k, v in somes[0]["decisions"].items():
            k2, v2 = _subst_key(k, v, "$e", elem.term)
            I.implied.setdefault(k2, v2)
    return I.open_option(I.apply(clo, [elem]))


def _bool_then(I, a, n, env):
    if I.truth(a[0]):
        return Variant("Some", [I.apply(a[1], []) if n["name"] == "then" else a[1]])
    return Variant("None")


def _iter_any(I, a, n, env):
    return Sym("any(%s, %s)" % (show(a[0]), canon_pred(I, a[1])), "bool")


def _iter_all(I, a, n, env):
    return Sym("all(%s, %s)" % (show(a[0]), canon_pred(I, a[1])), "bool")


def _to_string(I, a, n, env):
    if isinstance(a[0], StrCat):
        return StrCat(a[0].parts)
    return StrCat([a[0]])


def _string_new(I, a, n, env):
    return StrCat([])


def _str_push(I, a, n, env):
    cur = a[0]
    parts = cur.parts if isinstance(cur, StrCat) else [cur]
    add = a[1].parts if isinstance(a[1], StrCat) else [a[1]]
    new = StrCat(parts + add)
    place = T.peel_ref(n["recv"])
    if place["k"] == "path" and place["res"]["r"] == "local":
        env[place["res"]["id"]] = new
    else:
        I.effects.append(("call", T.short_path(T.cname(n)), a, n))
    return UNIT


def _map_get(I, a, n, env):
    return Sym("get(%s, %s)" % (show(a[0]), show(a[1])), n.get("ty"))


def _set_contains(I, a, n, env):
    return Sym("contains(%s, %s)" % (show(a[0]), show(a[1])), "bool")


def _range_contains(I, a, n, env):
    r, x = a[0], a[1]
    if isinstance(r, Struct) and set(r.fields) == {"start", "end"}:
        lo = I.compare("<=", r.fields["start"], x, "usize")
        if not I.truth(lo):
            return Lit(False)
        return I.compare("<", x, r.fields["end"], "usize")
    return Sym("%s.contains(%s)" % (show(r), show(x)), "bool")


def _ord_min(I, a, n, env):
    if isinstance(a[0], Lit) and isinstance(a[1], Lit):
        return Lit(min(a[0].v, a[1].v))
    return a[0] if I.truth(I.compare("<=", a[0], a[1], "usize")) else a[1]


def _ord_max(I, a, n, env):
    if isinstance(a[0], Lit) and isinstance(a[1], Lit):
        return Lit(max(a[0].v, a[1].v))
    return a[1] if I.truth(I.compare("<=", a[0], a[1], "usize")) else a[0]


def _clone(I, a, n, env):
    v = a[0]
    if isinstance(v, Struct):
        return Struct(v.name, list(v.fields.items()))
    return v


def _vec_new(I, a, n, env):
    return VecV([])


def _vec_last(I, a, n, env):
    v = a[0]
    if isinstance(v, VecV):
        if v.items:
            return Variant("Some", [v.items[-1]])
        if v.base is None:
            return Variant("None")
        return Sym("%s.last()" % show(v.base), n.get("ty"))
    return Sym("%s.last()" % show(v), n.get("ty"))


def _vec_is_empty(I, a, n, env):
    v = a[0]
    if isinstance(v, VecV):
        if v.items:
            return Lit(False)
        if v.base is None:
            return Lit(True)
        return Sym("is_empty(%s)" % show(v.base), "bool")
    return Sym("%s.is_empty()" % show(v), "bool")


def _vec_push(I, a, n, env):
    v = a[0]
    I.effects.append(("push", show_place(n["recv"]), a[1], n))
    if isinstance(v, VecV):
        v.items.append(a[1])
    return UNIT


def _vec_extend(I, a, n, env):
    v = a[0]
    I.effects.append(("extend", show_place(n["recv"]), a[1], n))
    if isinstance(v, VecV):
        if isinstance(a[1], VecV) and a[1].base is None:
            v.items.extend(a[1].items)
        else:
            v.items.append(Variant("..spread", [a[1]]))
    return UNIT


def _vec_append(I, a, n, env):
    """v.append(&mut w): all items of w move to the end of v (w is left empty)."""
    v, w = a[0], a[1]
    I.effects.append(("extend", show_place(n["recv"]), w if not isinstance(w, VecV) else VecV(list(w.items), base=w.base), n))
    if isinstance(v, VecV):
        if isinstance(w, VecV) and w.base is None:
            v.items.extend(w.items)
        else:
            v.items.append(Variant("..spread", [w if not isinstance(w, VecV) else VecV(list(w.items), base=w.base)]))
    if isinstance(w, VecV):
        del w.items[:]
        w.base = None
    return UNIT


def show_place(n):
    return T.render(T.peel_ref(n))


def _into_vec(I, a, n, env):
    # vec![a, b] expands to <[_]>::into_vec(box [a, b])
    return a[0]


MODELS = {
    "std::option::Option::map": _opt_map,
    "std::option::Option::and_then": _opt_and_then,
    "std::option::Option::map_or": _opt_map_or,
    "std::option::Option::map_or_else": _opt_map_or_else,
    "std::option::Option::unwrap_or_else": _opt_unwrap_or_else,
    "std::option::Option::is_some": _opt_is_some,
    "std::option::Option::is_none": _opt_is_none,
    "std::option::Option::unwrap": _opt_unwrap,
    "std::option::Option::expect": _opt_unwrap,
    "std::option::Option::unwrap_or": _opt_unwrap_or,
    "std::option::Option::filter": _opt_filter,
    "std::option::Option::is_some_and": _opt_is_some_and,
    "std::option::Option::is_none_or": _opt_is_none_or,
    "std::result::Result::is_ok_and": _res_is_ok_and,
    "std::option::Option::unwrap_or_default": _opt_unwrap_or_default,
    "alloc::fmt::format": _format,
    "std::io::_print": _print,
    "core::slice::split_first": _slice_split_first, "std::slice::split_first": _slice_split_first,
    "std::iter::IntoIterator::into_iter": _list_into_iter, "std::iter::Iterator::next": _list_iter_next,
    "std::slice::join": _slice_join, "core::slice::join": _slice_join, "alloc::slice::join": _slice_join,
    "std::ops::Try::branch": _try_branch,
    "core::ops::Try::branch": _try_branch,
    "std::ops::FromResidual::from_residual": lambda I, a, n, env: a[0],
    "core::ops::FromResidual::from_residual": lambda I, a, n, env: a[0],
    "std::hint::must_use": lambda I, a, n, env: a[0],
    "core::hint::must_use": lambda I, a, n, env: a[0],
    "std::fmt::format": _format,
    "std::result::Result::is_ok": _res_is_ok,
    "std::result::Result::is_err": _res_is_err,
    "std::result::Result::unwrap": _res_unwrap,
    "std::result::Result::expect": _res_unwrap,
    "std::result::Result::ok": _res_ok,
    "std::result::Result::map_err": _res_map_err,
    "std::result::Result::or": _res_or,
    "std::primitive::bool::then": _bool_then, "core::bool::then": _bool_then, "bool::then": _bool_then,
    "std::primitive::bool::then_some": _bool_then, "core::bool::then_some": _bool_then, "bool::then_some": _bool_then,
    "std::convert::From::from": _from_bool,
    "std::iter::Iterator::position": _iter_position,
    "std::iter::Iterator::zip": _iter_zip,
    "std::collections::HashMap::get": _map_get,
    "std::collections::HashSet::contains": _set_contains,
    "std::vec::Vec::append": _vec_append,
    "std::vec::Vec::new": _vec_new,
    "std::vec::Vec::with_capacity": _vec_new,          # the capacity hint is never observable
    "std::ops::Range::contains": _range_contains,
    "core::ops::Range::contains": _range_contains,
    "std::cmp::Ord::min": _ord_min,
    "std::cmp::Ord::max": _ord_max,
    "std::cmp::min": _ord_min,
    "std::cmp::max": _ord_max,
    "std::string::String::new": _string_new,
    "std::string::String::with_capacity": _string_new,
    "std::string::String::push": _str_push,
    "std::string::String::push_str": _str_push,
    "std::string::String::as_str": _transparent,
    "std::string::ToString::to_string": _to_string,
    "std::borrow::ToOwned::to_owned": _transparent,
    "core::slice::iter": lambda I, a, n, env: Sym("%s.iter()" % show(a[0]), n.get("ty")),
    "std::vec::Vec::iter": lambda I, a, n, env: Sym("%s.iter()" % show(a[0]), n.get("ty")),
    "std::vec::Vec::push": _vec_push,
    "core::slice::last_mut": _vec_last,
    "core::slice::last": _vec_last,
    "std::vec::Vec::is_empty": _vec_is_empty,
    "core::slice::is_empty": _vec_is_empty,
    "std::slice::into_vec": _into_vec,
    "std::boxed::Box::new": _transparent,
    "std::boxed::box_new": _transparent,
    "std::boxed::box_assume_init_into_vec_unsafe": _transparent,
    "alloc::intrinsics::write_box_via_move": lambda I, a, n, env: a[1],
    "std::boxed::Box::new_uninit": lambda I, a, n, env: Sym("uninit"),
    "std::rc::Rc::new": _transparent,
}

SUFFIX_MODELS = [
    ("::Iterator::find", _iter_find),
    ("::Iterator::find_map", _iter_find_map),
    ("::Iterator::any", _iter_any),
    ("::Iterator::all", _iter_all),
    ("::Extend::extend", _vec_extend),
    ("::Clone::clone", _clone),
    ("::Deref::deref", _transparent),
    ("::AsRef::as_ref", _transparent),
    ("::Borrow::borrow", _transparent),
    ("::Into::into", _transparent),
    ("::From::from", _transparent),
]
