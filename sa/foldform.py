"""A fold written as a loop is read as the fold.

The analysed code accumulates with `iter.fold(seed, |acc, item| ..)` in many places; the most common idiom change is the
statement spelling

    let mut a = seed_a; let mut b = seed_b;
    for item in iter { body }            // body assigns / mutates a, b; no break / continue / return of its own
    .. a .. b ..

which is rewritten into `let (mut a, mut b) = iter.into_iter().fold((seed_a, seed_b), |(mut a, mut b), item| { body; (a, b) })`
(one accumulator: no tuple).  So that the transformation is the identity on the reference tree, a loop is rewritten only when
the *reference* description of the function (spec/binders.json) has a two-parameter closure whose accumulator and item
binder types are those of the loop, and the function has fewer such closures now than the reference had - i.e. a fold
vanished and this loop appeared.  Afterwards `let x = e; x` at the end of a block is read as `e`."""
import copy
import re

from . import tree as T
from .alpha import _ty, binders
from .inline import _max_id, _pats_of
from .unroll import _own_jumps


def _runs(bs):
    """[(acc types, item types, acc names)] of the two-parameter closures in a binder list ([kind, ty, name])."""
    out = []
    i = 0
    while i < len(bs):
        if bs[i][0] == "clo0":
            j = i
            while j < len(bs) and bs[j][0] == "clo0":
                j += 1
            k = j
            while k < len(bs) and bs[k][0] == "clo1":
                k += 1
            if k > j:
                out.append(([b[1] for b in bs[i:j]], [b[1] for b in bs[j:k]], [b[2] for b in bs[i:j]]))
            i = max(k, i + 1)
        else:
            i += 1
    return out


def _root_local(place):
    p = T.peel(place)
    while p.get("k") in ("field", "index", "unary") or (p.get("k") == "mcall" and p["name"] in ("deref_mut", "as_mut")):
        p = T.peel(p.get("base") or p.get("e") or p.get("recv"))
    return T.local_of(p)


def _mutated_outer(body, pat):
    bound = set()
    for x in T.pat_nodes(pat):
        if x.get("p") == "bind":
            bound.add(x["id"])
    for n in T.nodes(body):
        for q in _pats_of(n):
            for x in T.pat_nodes(q):
                if x.get("p") == "bind":
                    bound.add(x["id"])
    muts = []

    def add(lid):
        if lid is not None and lid not in bound and lid not in muts:
            muts.append(lid)
    for n in T.nodes(body):
        k = n.get("k")
        if k in ("assign", "assign_op"):
            add(_root_local(n["l"]))
        elif k == "mcall" and "ref_mut" in (n["recv"].get("adj") or []):
            add(_root_local(n["recv"]))
        elif k == "addr_of" and n.get("mut"):
            add(_root_local(n["e"]))
    return muts


def _has_exit(body):
    """`return` (incl. `?`), `break` or `continue` of the loop itself: not rewritten (a `continue` would be an early return of
    the accumulator from the closure; the rules that follow loops with `continue` do so in the loop form)."""
    def walk(n):
        if n.get("k") == "closure":
            return False
        if n.get("k") == "ret":
            return True
        return any(walk(c) for c in T.children(n))
    return walk(body) or bool(_own_jumps(body))


def _mentions(n, lid):
    return any(x.get("k") == "path" and T.local_of(x) == lid for x in T.nodes(n))


def _iter_expr(it):
    """The receiver of the fold: `xs` -> xs.into_iter(); `&xs` -> xs.iter(); an iterator expression stays."""
    e = T.peel(it)
    ty = e.get("aty") or e.get("ty") or ""
    if e.get("k") == "addr_of" and not e.get("mut"):
        return {"k": "mcall", "id": e.get("id"), "ty": "std::slice::Iter<'_, _>", "sp": e.get("sp"), "name": "iter", "path": "core::slice::<impl [T]>::iter",
                "generics": [], "resolved": "core::slice::<impl [T]>::iter", "recv": e["e"], "args": []}
    if ty.startswith("&") and not ty.startswith("&mut"):
        return {"k": "mcall", "id": e.get("id"), "ty": "std::slice::Iter<'_, _>", "sp": e.get("sp"), "name": "iter", "path": "core::slice::<impl [T]>::iter",
                "generics": [], "resolved": "core::slice::<impl [T]>::iter", "recv": e, "args": []}
    if e.get("k") == "mcall" or "Iter" in ty or "iter::" in ty or "CharIndices" in ty or "Chars" in ty or "Lines" in ty:
        return e
    return {"k": "mcall", "id": e.get("id"), "ty": "std::vec::IntoIter<_>", "sp": e.get("sp"), "name": "into_iter", "path": "std::iter::IntoIterator::into_iter",
            "generics": [], "resolved": "std::iter::IntoIterator::into_iter", "trait": "std::iter::IntoIterator", "recv": e, "args": []}


def _convert_block(body, blk, want, nid):
    """Try to rewrite one `for` statement of `blk`; `want` = list of (acc types, item types, names) still missing."""
    stmts = blk.get("stmts", [])
    seq = list(enumerate(stmts)) + ([("tail", {"k": "expr", "e": blk["tail"]})] if blk.get("tail") is not None else [])
    for pos, st in seq:
        e = T.peel(st["e"]) if st.get("k") == "expr" else None
        if e is None or e.get("k") != "for" or _has_exit(e["body"]):
            continue
        item_tys = [_ty(x.get("ty")) for x in T.pat_nodes(e["pat"]) if x.get("p") == "bind"]
        muts = _mutated_outer(e["body"], e["pat"])
        if not muts:
            continue
        upto = len(stmts) if pos == "tail" else pos
        decl = {}
        for j in range(upto):
            s_ = stmts[j]
            if s_.get("k") == "let" and s_["pat"].get("p") == "bind" and s_["pat"]["id"] in muts and s_.get("init") is not None and s_.get("els") is None:
                decl[s_["pat"]["id"]] = j
        if set(decl) != set(muts):
            continue
        order = sorted(muts, key=lambda m: decl[m])
        if any(_mentions(stmts[j], m) for m in order for j in range(decl[m] + 1, upto)):
            continue
        acc_tys = [_ty(stmts[decl[m]]["pat"].get("ty")) for m in order]
        match = None
        for w in want:
            if w[1] == item_tys and sorted(w[0]) == sorted(acc_tys):
                match = w
                break
        if match is None:
            continue
        if match[0] != acc_tys:
            # same types in another order: follow the reference order when the names say which is which
            names = [stmts[decl[m]]["pat"]["name"] for m in order]
            if sorted(names) == sorted(match[2]):
                order = [order[names.index(nm)] for nm in match[2]]
            else:
                continue
        want.remove(match)
        # fresh closure parameters, body redirected to them
        fresh = {}
        params = []
        for m in order:
            nid += 1
            fresh[m] = nid
            op = stmts[decl[m]]["pat"]
            params.append({"p": "bind", "ty": op.get("ty"), "id": nid, "name": op["name"], "mode": "BindingMode(No, Mut)"})
        cb = copy.deepcopy(e["body"])
        for x in T.nodes(cb):
            r = x.get("res")
            if x.get("k") == "path" and isinstance(r, dict) and r.get("r") == "local" and r.get("id") in fresh:
                r["id"] = fresh[r["id"]]

        def path(q):
            return {"k": "path", "id": 0, "ty": q["ty"], "sp": e.get("sp"), "res": {"r": "local", "id": q["id"], "name": q["name"]}}
        if len(order) == 1:
            acc_pat, acc_ty = params[0], params[0]["ty"]
            seed = stmts[decl[order[0]]]["init"]
            result = path(params[0])
            outer_pat = dict(stmts[decl[order[0]]]["pat"])
        else:
            acc_ty = "(%s)" % ", ".join(q["ty"] for q in params)
            acc_pat = {"p": "tuple", "ty": acc_ty, "pats": params}
            seed = {"k": "tuple", "id": 0, "ty": acc_ty, "sp": e.get("sp"), "es": [stmts[decl[m]]["init"] for m in order]}
            result = {"k": "tuple", "id": 0, "ty": acc_ty, "sp": e.get("sp"), "es": [path(q) for q in params]}
            outer_pat = {"p": "tuple", "ty": acc_ty, "pats": [dict(stmts[decl[m]]["pat"]) for m in order]}
        for j in _own_jumps(cb):
            if j.get("k") == "continue":
                keep = {k: j[k] for k in ("id", "sp") if k in j}
                j.clear()
                j.update(keep)
                j.update({"k": "ret", "ty": "!", "e": copy.deepcopy(result), "was_continue": True})
        inner = T.peel(cb)
        if inner.get("k") == "blockexpr" and not inner.get("label") and not inner.get("inlined"):
            cblk = inner["block"]
            if cblk.get("tail") is not None:
                cblk["stmts"] = cblk.get("stmts", []) + [{"k": "expr", "sp": e.get("sp"), "e": cblk["tail"]}]
            cblk["tail"] = result
            clo_body = inner
        else:
            clo_body = {"k": "blockexpr", "id": 0, "ty": acc_ty, "sp": e.get("sp"),
                        "block": {"k": "block", "sp": e.get("sp"), "stmts": [{"k": "expr", "sp": e.get("sp"), "e": cb}], "tail": result}}
        clo_body["ty"] = acc_ty
        clo = {"k": "closure", "id": 0, "ty": "{closure}", "sp": e.get("sp"), "captures": [], "from_loop": True,
               "params": [{"pat": acc_pat, "ty": acc_ty}, {"pat": e["pat"], "ty": e.get("pat_ty") or e["pat"].get("ty")}], "body": clo_body}
        fold = {"k": "mcall", "id": e.get("id"), "ty": acc_ty, "sp": e.get("sp"), "name": "fold", "path": "std::iter::Iterator::fold", "generics": [],
                "resolved": "std::iter::Iterator::fold", "trait": "std::iter::Iterator", "recv": _iter_expr(e["iter"]), "args": [seed, clo], "from_loop": True}
        new_let = {"k": "let", "sp": e.get("sp"), "pat": outer_pat, "pty": acc_ty, "init": fold, "has_ty": False, "from_loop": True}
        drop = set(decl.values())
        out = []
        for j, s_ in enumerate(stmts):
            if j in drop:
                continue
            if j == pos:
                out.append(new_let)
                continue
            out.append(s_)
        if pos == "tail":
            out.append(new_let)
            blk["tail"] = None
        blk["stmts"] = out
        return nid, True
    return nid, False


def _tail_copy(body):
    """`{ ..; let x = e; x }` -> `{ ..; e }` for a let produced from a loop."""
    for blk in T.nodes(body["tree"], "block"):
        st = blk.get("stmts") or []
        t = T.peel(blk["tail"]) if blk.get("tail") is not None else None
        if st and t is not None and t.get("k") == "path" and not t.get("adj") and st[-1].get("k") == "let" and st[-1].get("from_loop") \
                and st[-1]["pat"].get("p") == "bind" and st[-1]["pat"]["id"] == T.local_of(t):
            blk["tail"] = st[-1]["init"]
            blk["stmts"] = st[:-1]


def fold_body(body, ref_binders):
    ref_runs = _runs(ref_binders)
    if not ref_runs:
        return 0
    cur_runs = _runs([[x["kind"], x["ty"], x["name"]] for x in binders(body)])
    want = list(ref_runs)
    for c in cur_runs:
        for w in want:
            if w[0] == c[0] and w[1] == c[1]:
                want.remove(w)
                break
    if not want or not any(True for _ in T.nodes(body["tree"], "for")):
        return 0
    nid = _max_id(body["tree"])
    for p in body.get("params", []):
        for x in T.pat_nodes(p["pat"]):
            if isinstance(x.get("id"), int):
                nid = max(nid, x["id"])
    done = 0
    changed = True
    while changed and want:
        changed = False
        for blk in list(T.nodes(body["tree"], "block")):
            nid, ok = _convert_block(body, blk, want, nid)
            if ok:
                done += 1
                changed = True
                break
    if done:
        _tail_copy(body)
    return done


def fold_program(program, ref_binders):
    out = {}
    for b in program.user_bodies():
        if b.get("exp") or "folded" in b:
            continue
        r = (ref_binders or {}).get(b["def_path"])
        k = fold_body(b, r) if r else 0
        b["folded"] = k
        if k:
            out[T.short_path(b["def_path"])] = k
    return out
