"""A value given a name: new pure locals are read through.

`let last_pos = end - 1;` / `let color_overhead = start_color.len() + reset_color.len();` - introducing a named local for a
(repeated) sub-expression is the most ordinary readability commit.  A local is *read through* when

  * its name is not among the reference names of the function (spec/binders.json) - so this is the identity on the reference
    tree - and it was not paired with a vanished reference name by the spelling normalisation;
  * it is an immutable `let` with a plain binding pattern;
  * its initialiser is pure: literals, immutable locals and parameters, field projections, arithmetic / comparison /
    boolean operators, and calls of a few observation methods (`len`, `is_empty`, `as_bytes`, `as_str`, ..);
  * every local it mentions is itself immutable (so the value cannot change between the definition and a use).

Every use is replaced by a copy of the initialiser.  The `let` itself stays where it is, so whatever its evaluation may do
there (an arithmetic overflow is a panic) is still seen at that point by the obligation walker."""
import copy

from . import tree as T
from .alpha import binders
from .inline import _pats_of

PURE_METHODS = {"len", "is_empty", "as_bytes", "as_str", "as_ref", "as_slice", "clone", "start", "end", "min", "max",
                "saturating_sub", "is_some", "is_none", "is_ok", "is_err", "contains"}


def _mutables(body):
    muts = set()
    for x in binders(body):
        if "Mut" in (x["pat"].get("mode") or ""):
            muts.add(x["pat"]["id"])
    for n in T.nodes(body["tree"]):
        if n.get("k") in ("assign", "assign_op"):
            r = _root(n["l"])            # through fields, indices and derefs: `*total += ..` assigns what `total` points to
            if r is not None:
                muts.add(r)
        elif n.get("k") == "mcall" and "ref_mut" in (n["recv"].get("adj") or []):
            r = _root(n["recv"])
            if r is not None:
                muts.add(r)
        elif n.get("k") == "addr_of" and n.get("mut"):
            r = _root(n["e"])
            if r is not None:
                muts.add(r)
    return muts


def _pure(e, muts, depth=0):
    e = T.peel(e)
    k = e.get("k")
    if depth > 14:
        return False
    if k == "lit":
        return True
    if k == "path":
        r = e.get("res") or {}
        if r.get("r") == "local":
            return r.get("id") not in muts
        return r.get("dk") in ("Const", "AssocConst", "Static", "Ctor", "Variant") or str(r.get("dk", "")).startswith(("Ctor", "Const", "Static", "AssocConst"))
    if k == "field":
        return _pure(e["base"], muts, depth + 1)
    if k in ("binary",) and not e.get("overloaded"):
        return _pure(e["l"], muts, depth + 1) and _pure(e["r"], muts, depth + 1)
    if k == "unary" and not e.get("overloaded"):
        return _pure(e["e"], muts, depth + 1)
    if k == "addr_of" and not e.get("mut"):
        return _pure(e["e"], muts, depth + 1)
    if k == "cast":
        return _pure(e["e"], muts, depth + 1)
    if k == "mcall" and e["name"] in PURE_METHODS and "ref_mut" not in (e["recv"].get("adj") or []):
        return _pure(e["recv"], muts, depth + 1) and all(_pure(a, muts, depth + 1) for a in e.get("args", []))
    if k == "tuple":
        return all(_pure(x, muts, depth + 1) for x in e.get("es", []))
    if k == "index" and not e.get("overloaded_user"):
        # a place expression: reading `xs[i]` / `&xs[a..b]` again gives the same value while nothing it mentions is assigned
        return _pure(e["base"], muts, depth + 1) and _pure(e["idx"], muts, depth + 1)
    if k == "struct" and "ops::Range" in ((e.get("res") or {}).get("path") or ""):
        return all(_pure(f["e"], muts, depth + 1) for f in e.get("fields", []))
    if k == "mcall" and e["name"] in ("map_or", "map", "unwrap_or", "map_or_else") and _is_option(e["recv"]):
        # Option combinators with pure arguments and pure closure bodies (the closure's own parameter is a fresh immutable local)
        if not _pure(e["recv"], muts, depth + 1):
            return False
        for a in e.get("args", []):
            a_ = T.peel(a)
            if a_.get("k") == "closure":
                if not _pure(a_["body"], muts, depth + 1):
                    return False
            elif not _pure(a, muts, depth + 1):
                return False
        return True
    if k == "blockexpr" and not e["block"].get("stmts") and e["block"].get("tail") is not None:
        return _pure(e["block"]["tail"], muts, depth + 1)
    return False


def _is_option(e):
    t = (T.peel(e).get("aty") or T.peel(e).get("ty") or "").lstrip("&")
    return t.startswith("std::option::Option<")


def split_option_arguments(body):
    """`v.insert(opt.map_or(d, |c| f(c)), x);` as a statement is `match opt { Some(c) => v.insert(f(c), x), None =>
    v.insert(d, x) }`: the partial operation is judged per case, as in the spelling with an explicit match."""
    done = 0
    for blk in T.nodes(body["tree"], "block"):
        for st in blk.get("stmts", []):
            if st.get("k") != "expr":
                continue
            call = T.peel(st["e"])
            if call.get("k") != "mcall" or call["name"] not in ("insert", "push", "replace_range", "truncate", "drain", "remove", "split_at", "swap"):
                continue
            idx = [i for i, a in enumerate(call["args"]) if T.peel(a).get("k") == "mcall" and T.peel(a)["name"] == "map_or" and len(T.peel(a)["args"]) == 2
                   and T.peel(T.peel(a)["args"][1]).get("k") == "closure" and T.local_of(T.peel(a)["recv"]) is not None and _is_option(T.peel(a)["recv"])]
            if len(idx) != 1:
                continue
            a = T.peel(call["args"][idx[0]])
            clo = T.peel(a["args"][1])
            if len(clo["params"]) != 1 or clo["params"][0]["pat"].get("p") != "bind":
                continue
            some_call = copy.deepcopy(call)
            some_call["args"][idx[0]] = clo["body"]
            none_call = copy.deepcopy(call)
            none_call["args"][idx[0]] = a["args"][0]
            opt_ty = T.peel(a["recv"]).get("ty") or "std::option::Option<_>"
            inner_ty = clo["params"][0]["pat"].get("ty")
            m = {"k": "match", "id": call.get("id"), "ty": call.get("ty"), "sp": call.get("sp"), "scrut": a["recv"], "split_from_map_or": True,
                 "arms": [{"pat": {"p": "tuple_struct", "ty": opt_ty, "res": {"r": "def", "dk": "Ctor(Variant, Fn)", "path": "std::option::Option::Some"},
                                   "pats": [clo["params"][0]["pat"]]}, "guard": None, "body": some_call},
                          {"pat": {"p": "path", "ty": opt_ty, "res": {"r": "def", "dk": "Ctor(Variant, Const)", "path": "std::option::Option::None"}},
                           "guard": None, "body": none_call}]}
            st["e"] = m
            done += 1
    return done


def _root(place):
    p = T.peel(place)
    while p.get("k") in ("field", "index", "unary", "addr_of"):
        p = T.peel(p.get("base") or p.get("e"))
    return T.local_of(p)


def forward_body(body, ref_names):
    muts = _mutables(body)
    done = {}
    for blk in T.nodes(body["tree"], "block"):
        for st in blk.get("stmts", []):
            if st.get("k") != "let" or st.get("init") is None or st.get("els") is not None or st.get("forwarded"):
                continue
            p = st["pat"]
            if p.get("p") != "bind" or p.get("sub") is not None or p["id"] in muts or "Ref" in (p.get("mode") or "").split(",")[0]:
                continue
            # the parameter of a re-inlined helper (`let <param> = <argument>`) is new whatever it is called
            if (p["name"] in ref_names and not st.get("inlined_param")) or p["name"].startswith("_"):
                continue
            init = T.peel(st["init"])
            if init.get("k") in ("lit",) and not st.get("inlined_param"):
                continue
            uses = [n for n in T.nodes(body["tree"]) if n.get("k") == "path" and T.local_of(n) == p["id"]]
            if not uses:
                continue
            if not _pure(init, muts):
                # operands that are assigned somewhere: still the same value when every use sits in a later statement of the
                # same block and nothing from the definition up to and including that statement assigns an operand
                if not _pure(init, set()):
                    continue
                ops = {T.local_of(x) for x in T.nodes(init) if x.get("k") == "path" and T.local_of(x) in muts}
                stmts = blk.get("stmts", []) + ([{"k": "expr", "e": blk["tail"]}] if blk.get("tail") is not None else [])
                di = next(i for i, s_ in enumerate(stmts) if s_ is st)
                ok = True
                seen = 0
                for j in range(di + 1, len(stmts)):
                    here = [u for u in uses if any(x is u for x in T.nodes(stmts[j]))]
                    touched = any(y.get("k") in ("assign", "assign_op") and _root(y["l"]) in ops for y in T.nodes(stmts[j])) or \
                        any(y.get("k") == "mcall" and "ref_mut" in (y["recv"].get("adj") or []) and _root(y["recv"]) in ops for y in T.nodes(stmts[j]))
                    if here and touched:
                        ok = False
                        break
                    seen += len(here)
                    if touched:
                        break
                if not ok or seen != len(uses):
                    continue
            for u in uses:
                keep = {k: u[k] for k in ("adj", "aty") if k in u}
                rep = copy.deepcopy(init)
                u.clear()
                u.update(rep)
                # the use site's own adjustments (auto-ref / deref) apply to the substituted value
                if keep.get("adj") and not u.get("adj"):
                    u.update(keep)
            st["forwarded"] = True
            done[p["name"]] = T.render(init)[:80]
    return done


def _is_range_lit(e):
    e = T.peel(e)
    if e.get("k") != "struct" or not ((e.get("res") or {}).get("path") or "").endswith("ops::Range"):
        return None
    f = {x["name"]: x["e"] for x in e.get("fields", [])}
    return (f["start"], f["end"]) if set(f) == {"start", "end"} else None


def _bin(op, l, r, ty, like):
    return {"k": "binary", "id": like.get("id"), "ty": ty, "sp": like.get("sp"), "op": op, "l": l, "r": r}


def range_ops(body, muts):
    """Observations of a range literal with pure ends are the ends themselves: `(a..b).start` is `a`, `(a..b).clone()` is `a..b`,
    `(a..b).contains(p)` is `a <= *p && *p < b`, and `(a..b).len()` is `b - a` where an enclosing branch has established
    `a <= b` (otherwise it is left alone: the length of an empty range is 0, not a wrapped difference)."""
    done = 0
    changed = True
    while changed:
        changed = False
        for n, parents in T.walk(body["tree"]):
            k = n.get("k")
            if k == "field" and n.get("name") in ("start", "end"):
                r = _is_range_lit(n["base"])
                if r and all(_pure(x, muts) for x in r):
                    rep = copy.deepcopy(r[0] if n["name"] == "start" else r[1])
                    n.clear()
                    n.update(rep)
                    changed = True
                    done += 1
                    break
            if k != "mcall" or "ref_mut" in (n["recv"].get("adj") or []):
                continue
            r = _is_range_lit(n["recv"])
            if not r or not all(_pure(x, muts) for x in r):
                continue
            a, b = r
            if n["name"] == "clone" and not n["args"]:
                rep = copy.deepcopy(T.peel(n["recv"]))
            elif n["name"] == "contains" and len(n["args"]) == 1:
                arg = T.peel(n["args"][0])
                if arg.get("k") == "addr_of" and not arg.get("mut"):
                    x = arg["e"]
                elif (arg.get("ty") or "").startswith("&") and _pure(arg, muts):
                    x = {"k": "unary", "id": arg.get("id"), "ty": (arg.get("ty") or "&usize")[1:], "sp": arg.get("sp"), "op": "*", "e": arg}
                else:
                    continue
                if not _pure(x, muts):
                    continue
                ety = T.peel(a).get("ty") or "usize"
                rep = _bin("&&", _bin("<=", copy.deepcopy(a), copy.deepcopy(x), "bool", n), _bin("<", copy.deepcopy(x), copy.deepcopy(b), "bool", n), "bool", n)
            elif n["name"] == "len" and not n["args"] and _ordered_here(a, b, n, parents):
                rep = _bin("-", copy.deepcopy(b), copy.deepcopy(a), n.get("ty") or "usize", n)
                rep["range_len"] = True      # cannot underflow: a <= b was established by the enclosing branch
            else:
                continue
            n.clear()
            n.update(rep)
            changed = True
            done += 1
            break
    return done


def _ordered_here(a, b, node, parents):
    """An enclosing `if` has decided `a <= b` for the branch that `node` sits in (a, b immutable locals)."""
    if T.local_of(a) is None or T.local_of(b) is None:
        return False
    ra, rb = T.render(a), T.render(b)
    yes = {"(%s <= %s)" % (ra, rb), "(%s >= %s)" % (rb, ra)}
    no = {"(%s > %s)" % (ra, rb), "(%s < %s)" % (rb, ra)}
    chain = list(parents) + [node]
    for i, p in enumerate(chain[:-1]):
        if p.get("k") != "if":
            continue
        nxt = chain[i + 1]
        cond = T.peel(p["cond"])
        in_then = nxt is p["then"] or any(x is nxt for x in T.nodes(p["then"]))
        in_else = p.get("els") is not None and (nxt is p["els"] or any(x is nxt for x in T.nodes(p["els"])))
        if in_then and any(T.render(c) in yes for c in _juncts(cond, "&&")):
            return True
        if in_else and any(T.render(c) in no for c in _juncts(cond, "||")):
            return True
    return False


def _juncts(c, op):
    c = T.peel(c)
    if c.get("k") == "binary" and c.get("op") == op:
        return _juncts(c["l"], op) + _juncts(c["r"], op)
    return [c]


PLACE_METHODS = {"last_mut", "first_mut", "get_mut", "unwrap", "expect", "as_mut"}


def _replayable_place(e, muts):
    """`pairs.last_mut().unwrap()`: a path to a place - evaluating it later instead of now changes nothing but the moment
    a failing `unwrap` is noticed (the exclusive borrow it holds keeps everybody else away in between)."""
    e = T.peel(e)
    if e.get("k") == "mcall" and e["name"] in PLACE_METHODS:
        return _replayable_place(e["recv"], muts) and all(_pure(a, muts) for a in e.get("args", []))
    if e.get("k") in ("field", "index"):
        return _replayable_place(e["base"], muts) and (e.get("k") == "field" or _pure(e["idx"], muts))
    return T.local_of(e) is not None


def project_mut_tuple_lets(body, ref_names, muts):
    """`let (_, value) = pairs.last_mut().unwrap(); *value = v;` is `pairs.last_mut().unwrap().1 = v;` - a new name for one
    component of a tuple behind `&mut`, used once, in the next statement, through `*name`."""
    done = 0
    for blk in T.nodes(body["tree"], "block"):
        stmts = blk.get("stmts", [])
        i = 0
        while i + 1 < len(stmts) or (i + 1 == len(stmts) and blk.get("tail") is not None):
            st = stmts[i]
            nxt = stmts[i + 1] if i + 1 < len(stmts) else blk["tail"]
            i += 1
            if st.get("k") != "let" or st.get("init") is None or st.get("els") is not None or st["pat"].get("p") != "tuple":
                continue
            init = T.peel(st["init"])
            if not (init.get("ty") or "").startswith("&mut (") or not _replayable_place(init, muts):
                continue
            pats = st["pat"]["pats"]
            if not all(q.get("p") in ("wild", "bind") and q.get("sub") is None for q in pats):
                continue
            binds = {q["id"]: k for k, q in enumerate(pats) if q.get("p") == "bind"}
            if not binds:
                continue
            uses = [(n, ps) for n, ps in T.walk(body["tree"]) if n.get("k") == "path" and T.local_of(n) in binds]
            here = [n for n in T.nodes(nxt) if n.get("k") == "path" and T.local_of(n) in binds]
            if len(uses) != 1 or len(here) != 1 or uses[0][0] is not here[0]:
                continue
            u, ps = uses[0]
            par = ps[-1] if ps else None
            if par is None or par.get("k") != "unary" or par.get("op") != "*" or par.get("overloaded"):
                continue
            base = copy.deepcopy(init)
            base["adj"] = ["deref"]
            base["aty"] = (init.get("ty") or "")[len("&mut "):]
            keep = {k: par[k] for k in ("id", "ty", "sp") if k in par}
            par.clear()
            par.update(keep)
            par.update({"k": "field", "name": str(binds[T.local_of(u)]), "base": base})
            stmts.remove(st)
            i -= 1
            done += 1
    return done


def split_tuple_lets(body, ref_names):
    """`let (color, text, reset) = (a, b, c);` is `let color = a; let text = b; let reset = c;` (same order of evaluation)."""
    done = 0
    for blk in T.nodes(body["tree"], "block"):
        out = []
        for st in blk.get("stmts", []):
            init = T.peel(st["init"]) if st.get("k") == "let" and st.get("init") is not None else None
            if init is not None and st.get("els") is None and st["pat"].get("p") == "tuple" and init.get("k") == "tuple" \
                    and len(init.get("es", [])) == len(st["pat"].get("pats", [])) \
                    and all(q.get("p") in ("bind", "wild") and q.get("sub") is None and "Ref" not in (q.get("mode") or "").split(",")[0] for q in st["pat"]["pats"]) \
                    and any(q.get("p") == "bind" and q["name"] not in ref_names for q in st["pat"]["pats"]):
                for q, e in zip(st["pat"]["pats"], init["es"]):
                    out.append({"k": "let", "sp": st.get("sp"), "pat": q, "pty": q.get("ty"), "init": e, "has_ty": False, "els": None,
                                "inlined_param": st.get("inlined_param"), "split_from_tuple": True})
                done += 1
            else:
                out.append(st)
        blk["stmts"] = out
    return done


def forward_program(program, ref_binders):
    out = {}
    for b in program.user_bodies():
        if b.get("exp") or "forwarded" in b:
            continue
        r = (ref_binders or {}).get(b["def_path"])
        if r is None:
            b["forwarded"] = {}
            continue
        names = {x[2] for x in r}
        d = forward_body(b, names)
        if d and split_tuple_lets(b, names):
            d = dict(d, **forward_body(b, names))
            d["<tuple pattern over a tuple>"] = "component lets"
        if project_mut_tuple_lets(b, names, _mutables(b)):
            d = dict(d, **{"<component of a tuple behind &mut>": "place read directly"})
        if split_option_arguments(b):
            d = dict(d, **{"<map_or argument>": "case split"})
        if d and range_ops(b, _mutables(b)):
            d = dict(d, **{"<range literal>": "ends read directly"})
        b["forwarded"] = d
        if d:
            out[T.short_path(b["def_path"])] = d
    return out
