"""Verdicts, findings, known-findings handling and evidence files."""
import hashlib
import json
import os
import time

VERIF = os.path.dirname(os.path.dirname(os.path.abspath(__file__)))
# runs against a deliberately modified tree (seed evaluation) write their evidence elsewhere so that the committed
# evidence always describes a run on the unchanged tree
EVIDENCE_DIR = os.environ.get("VERIF_EVIDENCE_DIR") or os.path.join(VERIF, "evidence")
VIOL_DIR = os.path.join(EVIDENCE_DIR, "violations")
KNOWN = os.path.join(VERIF, "known_findings.json")


class Finding:
    """A rule instance that does not hold.  `key` never contains a line number."""

    def __init__(self, rule, fn, site, message, loc="?", cannot_analyse=False, detail=None):
        self.rule = rule            # e.g. C05.R1
        self.fn = fn                # short def path of the function (or "-")
        self.site = site            # normalised site signature
        self.message = message
        self.loc = loc              # file:line (diagnostic only)
        self.cannot_analyse = cannot_analyse
        self.detail = detail

    @property
    def key(self):
        return "%s|%s|%s" % (self.rule, self.fn, self.site)

    def to_json(self):
        return {"rule": self.rule, "function": self.fn, "site": self.site, "key": self.key, "loc": self.loc,
                "message": self.message, "cannot_analyse": self.cannot_analyse, "detail": self.detail}


class Result:
    """What one property check covered and found."""

    def __init__(self, prop, level):
        self.prop = prop
        self.level = level
        self.findings = []
        self.instances = []       # rule instances evaluated: (rule, key, verdict)
        self.floors = []          # (rule, what, measured, floor)
        self.info = []            # informational notes (not violations)
        self.trusted = []
        self.assumptions = []
        self.samples = []
        self.extra = {}
        self.obligations = 0
        self.discharged = 0
        self.explanation = ""

    def add(self, finding):
        self.findings.append(finding)
        self.instances.append((finding.rule, finding.key, "VIOLATION" if not finding.cannot_analyse else "CANNOT-ANALYSE"))

    def holds(self, rule, fn, site, note=None):
        self.instances.append((rule, "%s|%s|%s" % (rule, fn, site), "HOLDS"))
        if note and len(self.samples) < 12:
            self.samples.append({"rule": rule, "function": fn, "site": site, "verdict": "HOLDS", "note": note})

    def floor(self, rule, what, measured, floor):
        """Fail closed if a rule matched fewer instances than were confirmed by hand."""
        self.floors.append({"rule": rule, "what": what, "measured": measured, "floor": floor, "met": measured >= floor})
        if measured < floor:
            self.add(Finding(rule, "-", "floor:" + what,
                             "rule matched %d instance(s) of `%s`, fewer than the %d confirmed on the pinned tree: the anchor "
                             "moved or the rule no longer recognises the code (fail closed)" % (measured, what, floor),
                             cannot_analyse=True))

    def cannot(self, rule, fn, site, why, loc="?"):
        self.add(Finding(rule, fn, site, "CANNOT-ANALYSE (the analyser, not the code, gave up): " + why, loc=loc, cannot_analyse=True))


def load_known():
    if not os.path.exists(KNOWN):
        return {"findings": [], "fixed": []}
    with open(KNOWN) as f:
        return json.load(f)


def finish(result, tier, seed, t0, checker_cmd):
    """Print the verdict lines, write evidence, return the exit code."""
    known = load_known()
    known_keys = {}
    for k in known.get("findings", []):
        if k["property"] == result.prop:
            known_keys[k["key"]] = k
        else:
            # the same finding seen as a necessary condition of this property (`<P>.D:<rule>|fn|site`): it is the listed
            # defect of the other property, identified by exactly the same rule, function and site
            known_keys["%s.D:%s" % (result.prop, k["key"])] = k
    os.makedirs(VIOL_DIR, exist_ok=True)
    new, listed = [], []
    for f in result.findings:
        if f.key in known_keys:
            listed.append(f)
        else:
            new.append(f)
    for f in listed:
        print("KNOWN-FINDING: property=%s %s [%s]" % (result.prop, known_keys[f.key]["what_fails"], f.key))
    # stale known entries are only informational
    rc = 0
    for f in new:
        rc = 1
        h = hashlib.sha256(f.key.encode()).hexdigest()[:12]
        path = os.path.join(VIOL_DIR, "%s-%s.json" % (result.prop, h))
        with open(path, "w") as fh:
            json.dump({"property": result.prop, **f.to_json()}, fh, indent=1)
        print("%s: [%s] %s: %s" % (f.loc, f.rule, f.fn, f.message))
        print("    site: %s" % f.site)
        print("VIOLATION property=%s replay=%s" % (result.prop, path))

    verdict_counts = {}
    for _, _, v in result.instances:
        verdict_counts[v] = verdict_counts.get(v, 0) + 1
    distinct = len({k for _, k, _ in result.instances})
    cov = {
        "explanation": result.explanation,
        "rule_instances": len(result.instances),
        "distinct_instances": distinct,
        "verdicts": verdict_counts,
        "floors": result.floors,
        "samples": (result.samples or [{"rule": r, "key": k, "verdict": v} for r, k, v in result.instances[:8]]) or ["(no instance)"],
        "instance_keys": [k for _, k, _ in result.instances][:400],
        "trusted_base": result.trusted,
        "checker_cmd": checker_cmd,
        "information": result.info[:60],
        "known_findings_reported": [f.key for f in listed],
        "new_violations": [f.to_json() for f in new],
        "evaluations": max(1, len(result.instances)),
        "distinct_nontrivial": distinct,
        "rule": "one evaluation per rule instance (rule, function, site signature); an instance is non-trivial when it "
                "corresponds to a construct found in /repo's current source (vacuous matches are excluded by floors)",
    }
    if result.level == "proof":
        cov["obligations"] = result.obligations or len(result.instances)
        cov["discharged"] = result.discharged if result.obligations else verdict_counts.get("HOLDS", 0)
    cov.update(result.extra)
    ev = {
        "property_id": result.prop,
        "tier": tier,
        "seed": seed,
        "level": result.level,
        "coverage": cov,
        "assumptions": result.assumptions,
        "wall_s": round(time.time() - t0, 3),
        "violations": len(new),
    }
    os.makedirs(EVIDENCE_DIR, exist_ok=True)
    with open(os.path.join(EVIDENCE_DIR, result.prop + ".json"), "w") as fh:
        json.dump(ev, fh, indent=1)
    if rc == 0:
        print("OK property=%s tier=%s instances=%d holds=%d known_findings=%d wall=%.2fs" % (
            result.prop, tier, len(result.instances), verdict_counts.get("HOLDS", 0), len(listed), time.time() - t0))
    return rc
