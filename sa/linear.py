"""Linear forms over opaque terms: {term: coefficient, "1": constant}.  Used for index arithmetic."""
from . import tree as T


def linear_form(n):
    """Linear form of an expression node built from +, -, literals and opaque atoms (rendered)."""
    n = T.peel(n)
    k = n.get("k")
    if k == "lit" and isinstance(n["v"][0], int) and not isinstance(n["v"][0], bool):
        return {"1": n["v"][0]} if n["v"][0] else {}
    if k == "binary" and n["op"] in ("+", "-") and not n.get("overloaded"):
        a, b = linear_form(n["l"]), linear_form(n["r"])
        if a is None or b is None:
            return None
        return combine(a, b, 1 if n["op"] == "+" else -1)
    if k == "unary" and n["op"] == "*":
        return linear_form(n["e"])
    if k == "mcall" and n["name"] == "max" and T.lit_value(n["args"][0]) == 0:
        return linear_form(n["recv"])      # usize.max(0) is the identity
    if k == "mcall" and n["name"] == "len" and not n["args"]:
        # the length of a slice `xs[a..b]` is b - a
        r = T.peel_ref(n["recv"])
        if r.get("k") == "index" and T.peel(r["idx"]).get("k") == "struct" and "ops::Range" in ((T.peel(r["idx"]).get("res") or {}).get("path") or ""):
            f = {x["name"]: x["e"] for x in T.peel(r["idx"])["fields"]}
            if set(f) == {"start", "end"} and "Inclusive" not in (T.peel(r["idx"])["res"].get("path") or ""):
                a, b = linear_form(f["end"]), linear_form(f["start"])
                if a is not None and b is not None:
                    return combine(a, b, -1)
    return {T.render(n): 1}


def combine(a, b, sign):
    out = dict(a)
    for k, v in b.items():
        out[k] = out.get(k, 0) + sign * v
        if out[k] == 0:
            del out[k]
    return out


def show(lin):
    parts = []
    for k in sorted(lin):
        c = lin[k]
        if k == "1":
            parts.append("%+d" % c)
        else:
            parts.append(("%+d*" % c if c not in (1, -1) else ("+" if c == 1 else "-")) + k)
    return " ".join(parts) or "0"


def linear_of_term(term):
    """Parse a rendered term like `(((a - b) + c) + 1)`."""
    pos = [0]
    s = term

    def atom():
        # read until a top-level ' + ' / ' - ' or ')'
        depth = 0
        start = pos[0]
        while pos[0] < len(s):
            ch = s[pos[0]]
            if ch in "([{":
                depth += 1
            elif ch in ")]}":
                if depth == 0:
                    break
                depth -= 1
            elif depth == 0 and s.startswith(" + ", pos[0]) or depth == 0 and s.startswith(" - ", pos[0]):
                break
            pos[0] += 1
        t = s[start:pos[0]].strip()
        if t.lstrip("-").isdigit():
            return {"1": int(t)} if int(t) else {}
        return {t: 1}

    def expr():
        if pos[0] < len(s) and s[pos[0]] == "(":
            # could be a parenthesised binary expression
            save = pos[0]
            pos[0] += 1
            left = expr()
            if left is not None and pos[0] < len(s) and (s.startswith(" + ", pos[0]) or s.startswith(" - ", pos[0])):
                sign = 1 if s[pos[0] + 1] == "+" else -1
                pos[0] += 3
                right = expr()
                if right is not None and pos[0] < len(s) and s[pos[0]] == ")":
                    pos[0] += 1
                    return combine(left, right, sign)
            pos[0] = save
            return atom_paren()
        return atom()

    def atom_paren():
        # an opaque parenthesised term: consume balanced
        depth = 0
        start = pos[0]
        while pos[0] < len(s):
            ch = s[pos[0]]
            if ch == "(":
                depth += 1
            elif ch == ")":
                depth -= 1
                if depth == 0:
                    pos[0] += 1
                    break
            pos[0] += 1
        return {s[start:pos[0]]: 1}
    r = expr()
    if pos[0] != len(s):
        return None
    return r
