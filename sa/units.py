"""FL(units): boundary typestate for byte offsets / character counts (flow-insensitive per local).

Units: BB  byte offset known to be a char boundary        ZERO literal 0 (both a boundary and a count)
       BR  raw byte offset (may be inside a character)     CH   character count
       N   plain number (length, width, literal)          TOP  unknown
The analysis alarms only on *definite* BR -> boundary sink or CH <-> byte mixing."""
from . import tree as T

BB, BR, CH, ZERO, N, TOP, BOT = "BB", "BR", "CH", "ZERO", "N", "TOP", "BOT"


def join(a, b):
    if a == BOT:
        return b
    if b == BOT:
        return a
    if a == b:
        return a
    if a == ZERO:
        return b if b in (BB, CH, BR, N) else TOP
    if b == ZERO:
        return join(b, a)
    s = {a, b}
    if s == {BB, BR}:
        return BR
    if s == {BB, CH} or s == {BR, CH}:
        return "MIX"
    if "MIX" in s:
        return "MIX"
    return TOP


class Units:
    def __init__(self, P, body, spec):
        self.P = P
        self.body = body
        self.spec = spec          # {"fields": {(type suffix, field): unit}, "fns": {fn suffix: {"ret": unit | "opt:unit", "params": [...]}}}
        self.env = {}
        self.ascii_guarded = set()   # ids of `+ 1` nodes that sit under an ASCII guard
        self.notes = []
        self._bind_params()
        self._find_ascii_guards()
        self._find_newline_return_guards()
        for _ in range(8):
            before = dict(self.env)
            self._pass(body["tree"])
            if before == self.env:
                break

    # -- environment ---------------------------------------------------------------------------
    def set(self, lid, u):
        if self.env.get(("counter", lid)):
            return
        self.env[lid] = join(self.env.get(lid, BOT), u)

    def _bind_params(self):
        ann = self._fn_ann(self.body["def_path"])
        for i, p in enumerate(self.body["params"]):
            if p["pat"]["p"] == "bind":
                u = TOP
                if ann and i < len(ann.get("params", [])) and ann["params"][i]:
                    u = ann["params"][i]
                elif p["ty"] not in ("usize",):
                    u = TOP
                self.set(p["pat"]["id"], u)

    def _fn_ann(self, path):
        sp = T.short_path(path)
        for k, v in self.spec.get("fns", {}).items():
            if sp == k or sp.endswith("::" + k):
                return v
        return None

    def bind_pat(self, pat, u):
        """Bind a pattern to a unit or to a tuple of units (list)."""
        k = pat["p"]
        if k == "bind":
            if isinstance(u, list):
                self.set(pat["id"], TOP)
            else:
                self.set(pat["id"], u)
            if pat.get("sub"):
                self.bind_pat(pat["sub"], u)
        elif k == "tuple":
            for i, sp in enumerate(pat["pats"]):
                self.bind_pat(sp, u[i] if isinstance(u, list) and i < len(u) else TOP)
        elif k == "ref":
            self.bind_pat(pat["pat"], u)
        elif k == "tuple_struct":
            # Some(x) of an Option-returning annotated function keeps the payload unit
            for sp in pat["pats"]:
                self.bind_pat(sp, u if not isinstance(u, list) or len(pat["pats"]) > 1 else u)
        elif k in ("wild", "lit", "path"):
            pass
        elif k == "or":
            for sp in pat["pats"]:
                self.bind_pat(sp, u)
        else:
            pass

    # -- ASCII guards ----------------------------------------------------------------------------
    def _find_ascii_guards(self):
        """`pos + 1` is a boundary when an enclosing match arm / dominating test fixes the character at `pos`
        (the paired item of the same char_indices element) to an ASCII literal."""
        for n, parents in T.walk(self.body["tree"]):
            if n.get("k") != "binary" or n["op"] != "+" or T.lit_value(n["r"]) != 1:
                continue
            lid = T.local_of(n["l"])
            if lid is None:
                continue
            # find the closure whose item pattern is (lid, ch)
            ch_id = None
            for p in parents:
                if p.get("k") == "for":
                    pt = p["pat"]
                    src = T.peel_ref(p["iter"])
                    if pt["p"] == "tuple" and len(pt["pats"]) == 2 and pt["pats"][0].get("id") == lid and pt["pats"][1]["p"] == "bind" \
                            and src.get("k") == "mcall" and src["name"] == "char_indices":
                        ch_id = pt["pats"][1]["id"]
                if p.get("k") == "closure":
                    for prm in p["params"]:
                        pt = prm["pat"]
                        if pt["p"] == "tuple" and len(pt["pats"]) == 2 and pt["pats"][0].get("id") == lid and pt["pats"][1]["p"] == "bind":
                            ch_id = pt["pats"][1]["id"]
            if ch_id is None:
                continue
            # an enclosing match on ch with a literal ASCII arm containing n
            for i, p in enumerate(parents):
                if p.get("k") == "match" and T.local_of(p["scrut"]) == ch_id:
                    for arm in p["arms"]:
                        if any(x is n for x in T.nodes(arm["body"])):
                            if self._pat_ascii(arm["pat"]):
                                self.ascii_guarded.add(id(n))
                if p.get("k") == "if":
                    c = T.peel(p["cond"])
                    if c.get("k") == "binary" and c["op"] == "==" and any(x is n for x in T.nodes(p["then"])):
                        for a, b in ((c["l"], c["r"]), (c["r"], c["l"])):
                            if T.local_of(a) == ch_id and isinstance(T.lit_value(b), str) and len(T.lit_value(b)) == 1 and ord(T.lit_value(b)) < 128:
                                self.ascii_guarded.add(id(n))

    def _find_newline_return_guards(self):
        """`p + 1` is a boundary after `if bytes.get(p) != Some(&b'\\n') { return .. }` (or bytes[p] != b'\\n')."""
        for blk in T.nodes(self.body["tree"], "block"):
            guarded = set()
            for st in blk["stmts"]:
                e = T.peel(st["e"]) if st["k"] == "expr" else None
                if e is not None and e.get("k") == "if" and e.get("els") is None and any(x.get("k") == "ret" for x in T.nodes(e["then"])):
                    pos = _newline_test_pos(e["cond"])
                    if pos is not None and pos[1] is False:
                        guarded.add(pos[0])
                        continue
                if guarded:
                    for n in T.nodes(st):
                        if n.get("k") == "binary" and n["op"] == "+" and T.lit_value(n["r"]) == 1 and T.render(T.peel_ref(n["l"])) in guarded:
                            self.ascii_guarded.add(id(n))
            if guarded and blk.get("tail") is not None:
                for n in T.nodes(blk["tail"]):
                    if n.get("k") == "binary" and n["op"] == "+" and T.lit_value(n["r"]) == 1 and T.render(T.peel_ref(n["l"])) in guarded:
                        self.ascii_guarded.add(id(n))

    def _pat_ascii(self, pat):
        if pat["p"] == "lit" and pat.get("lk") == "char":
            return ord(pat["v"][0]) < 128
        if pat["p"] == "or":
            return all(self._pat_ascii(x) for x in pat["pats"])
        return False

    # -- transfer --------------------------------------------------------------------------------
    def unit(self, n):
        n = T.peel_ref(n)
        k = n.get("k")
        if k == "lit":
            if n.get("lk") == "int":
                return ZERO if n["v"][0] == 0 else N
            return TOP
        if k == "path":
            lid = T.local_of(n)
            if lid is not None:
                return self.env.get(lid, BOT)
            if n["res"].get("r") == "def" and n["res"].get("dk", "").startswith("Const") and (n.get("ty") or "") in ("usize", "u32", "u64", "i32", "i64", "isize"):
                return N          # a numeric constant is a plain number, never a position obtained from a string
            return TOP
        if k == "cast":
            return self.unit(n["e"])
        if k == "field":
            bty = T.strip_generics((n["base"].get("aty") or n["base"].get("ty") or "").replace("&mut ", "").replace("&", ""))
            for (tsuf, f), u in self.spec.get("fields", {}).items():
                if n["name"] == f and bty.endswith(tsuf):
                    return u
            return TOP
        if k == "mcall":
            cn = T.cname(n) or ""
            if n["name"] == "len" and (cn.startswith("core::str::") or cn.startswith("std::string::String::")):
                return BB
            if n["name"] == "len_utf8":
                return "W"
            if n["name"] in ("min", "max") and len(n["args"]) == 1:
                if n["name"] == "min":
                    for a_, x_ in ((n["recv"], n["args"][0]), (n["args"][0], n["recv"])):
                        if self._clamp_bb(a_, x_):
                            return BB
                a, b = self.unit(n["recv"]), self.unit(n["args"][0])
                return join(a, b) if {a, b} <= {BB, ZERO} or a == b else join(a, b)
            if n["name"] in ("unwrap", "expect", "unwrap_or", "clone"):
                u = self.unit(n["recv"])
                if n["name"] == "unwrap_or" and n["args"]:
                    return join(u, self.unit(n["args"][0]))
                return u
            if n["name"] == "map" and n["args"]:
                # Option<unit>.map(|v| expr)
                u = self.unit(n["recv"])
                clo = T.peel(n["args"][0])
                if clo.get("k") == "closure" and len(clo["params"]) == 1:
                    self.bind_pat(clo["params"][0]["pat"], u)
                    return self.unit(clo["body"])
                return TOP
            if n["name"] == "and_then" and n["args"]:
                u = self.unit(n["recv"])
                clo = T.peel(n["args"][0])
                if clo.get("k") == "closure" and len(clo["params"]) == 1:
                    self.bind_pat(clo["params"][0]["pat"], u)
                    return self.unit(clo["body"])
                return TOP
            if n["name"] in ("saturating_sub",):
                return N
            c = T.callee(n)
            ann = self._fn_ann(c) if c else None
            if ann:
                return ann.get("ret", TOP)
            return TOP
        if k == "call":
            c = T.callee(n)
            cn = T.cname(n) or ""
            if cn.endswith("cmp::min") or cn.endswith("cmp::max"):
                if cn.endswith("cmp::min"):
                    for a_, x_ in ((n["args"][0], n["args"][1]), (n["args"][1], n["args"][0])):
                        if self._clamp_bb(a_, x_):
                            return BB
                a, b = self.unit(n["args"][0]), self.unit(n["args"][1])
                return join(a, b)
            ann = self._fn_ann(c) if c else None
            if ann:
                return ann.get("ret", TOP)
            if cn.endswith("::Some") and n["args"]:
                return self.unit(n["args"][0])
            return TOP
        if k == "binary":
            op = n["op"]
            a, b = self.unit(n["l"]), self.unit(n["r"])
            if op == "+":
                one = T.lit_value(n["r"]) == 1
                if a in (BB,) and one:
                    if id(n) in self.ascii_guarded or self._lhs_is_newline_pos(n["l"]):
                        return BB
                    return BR
                if a == BB and b == "W":
                    return BB
                if a == CH and (one or b in (N, CH)):
                    return CH
                if a == ZERO and one:
                    return N
                if a == BR or b == BR:
                    return BR
                if a == BB and b in (N, BB, TOP):
                    return BR if b == N else TOP
                if a == N and b == N:
                    return N
                return TOP
            if op == "-":
                if a in (BB, BR, ZERO) and b in (BB, BR, ZERO):
                    return N
                if a == CH and b in (CH, ZERO, N):
                    return N if b == CH else CH
                if a == BB and b == N:
                    return BR
                if a == N:
                    return N
                return TOP
            if op == "*":
                return N
            return TOP
        if k in ("blockexpr", "block"):
            b = n["block"] if k == "blockexpr" else n
            if b.get("tail") is not None:
                return self.unit(b["tail"])
            return TOP
        if k == "if":
            u = self.unit(n["then"])
            if n.get("els"):
                u = join(u, self.unit(n["els"]))
            return u
        if k == "match":
            u = BOT
            for a in n["arms"]:
                u = join(u, self.unit(a["body"]))
            return u
        return TOP

    def _lhs_is_newline_pos(self, n):
        """Positions returned by the line-break scanners sit on '\\n' (ASCII): +1 stays a boundary."""
        lid = T.local_of(n)
        return lid is not None and self.env.get(("nl", lid))

    def tuple_units(self, n):
        n = T.peel(n)
        if n.get("k") == "tuple":
            return [self.unit(e) for e in n["es"]]
        if n.get("k") in ("blockexpr", "block"):
            b = n["block"] if n["k"] == "blockexpr" else n
            if b.get("tail") is not None:
                return self.tuple_units(b["tail"])
        if n.get("k") == "mcall" and n["name"] == "fold":
            return self.fold_units(n)
        return None

    def fold_units(self, n):
        seed = T.peel(n["args"][0])
        clo = T.peel(n["args"][1])
        if clo.get("k") != "closure" or len(clo["params"]) != 2:
            return None
        accp = clo["params"][0]["pat"]
        itemp = clo["params"][1]["pat"]
        src = T.peel_ref(n["recv"])
        item_units = TOP
        if src.get("k") == "mcall" and src["name"] == "char_indices":
            item_units = [BB, TOP]
        self.bind_pat(itemp, item_units)
        if seed.get("k") != "tuple" or accp["p"] != "tuple":
            return None
        seeds = [self.unit(e) for e in seed["es"]]
        # returned tuple of the closure
        ret = self._closure_ret(clo)
        units = []
        for i, sp in enumerate(accp["pats"]):
            u = seeds[i] if i < len(seeds) else TOP
            if sp["p"] == "bind":
                # counter idiom: returned component is `acc_i + 1` -> character count when folding over characters
                if ret is not None and i < len(ret["es"]):
                    r = T.peel(ret["es"][i])
                    if r.get("k") == "binary" and r["op"] == "+" and T.local_of(r["l"]) == sp["id"] and T.lit_value(r["r"]) == 1 and seeds[i] == ZERO \
                            and src.get("k") == "mcall" and src["name"] in ("char_indices", "chars"):
                        u = CH
                    elif r.get("k") == "path" and T.local_of(r) == sp["id"] and seeds[i] == ZERO and src.get("k") == "mcall" \
                            and src["name"] in ("char_indices", "chars") and self._stepped_once_by_one(clo, sp["id"]):
                        u = CH        # the same counter updated in place: `acc_i += 1;` once, unconditionally, then handed on
                    else:
                        u = join(u, self.env.get(sp["id"], BOT))
                self.set(sp["id"], u)
                units.append(self.env[sp["id"]])
            else:
                units.append(TOP)
        return units

    def _stepped_once_by_one(self, clo, lid):
        b = T.peel(clo["body"])
        while b.get("k") == "blockexpr":
            b = b["block"]
        top = [T.peel(st["e"]) for st in b.get("stmts", []) if st.get("k") == "expr"]
        mods = [n for n in T.nodes(clo["body"]) if n.get("k") in ("assign", "assign_op") and T.local_of(n["l"]) == lid]
        return len(mods) == 1 and mods[0]["k"] == "assign_op" and mods[0]["op"].startswith("+") and T.lit_value(mods[0]["r"]) == 1 \
            and any(t is mods[0] for t in top)

    def _closure_ret(self, clo):
        b = T.peel(clo["body"])
        while b.get("k") in ("blockexpr", "block"):
            blk = b["block"] if b["k"] == "blockexpr" else b
            if blk.get("tail") is None:
                return None
            b = T.peel(blk["tail"])
        return b if b.get("k") == "tuple" else None

    def _pass(self, root):
        for n, parents in T.walk(root):
            k = n.get("k")
            if k == "let" and n.get("init") is not None:
                tu = self.tuple_units(n["init"])
                if tu is not None and n["pat"]["p"] == "tuple":
                    self.bind_pat(n["pat"], tu)
                else:
                    self._is_scanner_result(n["init"])       # marks closure parameters sitting on a line break first
                    self.bind_pat(n["pat"], self.unit(n["init"]))
                    if n["pat"]["p"] == "bind":
                        i_ = T.peel_ref(n["init"])
                        ma = T.min_args(i_)
                        if ma is not None:
                            for a_, x_ in ((ma[0], ma[1]), (ma[1], ma[0])):
                                if self._clamp_bb(a_, x_):
                                    self.env[("clamp", n["pat"]["id"])] = T.local_of(x_)
                        if self._is_scanner_result(n["init"]):
                            self.env[("nlopt", n["pat"]["id"])] = True
                        cf = self._char_finder_start(n["init"])
                        if cf:
                            self.env[("cfopt", n["pat"]["id"])] = cf
                    else:
                        self._mark_newline(n["pat"], n["init"])
            elif k == "assign":
                lid = T.local_of(n["l"])
                if lid is not None:
                    self.set(lid, self.unit(n["r"]))
            elif k == "assign_op":
                lid = T.local_of(n["l"])
                if lid is not None:
                    cur = self.env.get(lid, BOT)
                    one = T.lit_value(n["r"]) == 1
                    if cur == BB and n["op"] in ("+", "+=", "-", "-="):
                        # byte cursors stepped one byte at a time: boundary-ness is established by the scanners' byte tables
                        # (C02.R4), not by provenance -> unknown, not *definitely* raw
                        self.env[lid] = TOP
                    elif cur == CH and one:
                        pass
            elif k == "mcall" and n["name"] == "fold":
                self.fold_units(n)
            elif k == "for":
                src = T.peel_ref(n["iter"])
                if src.get("k") == "mcall" and src["name"] == "char_indices":
                    self.bind_pat(n["pat"], [BB, TOP])
                else:
                    self.bind_pat(n["pat"], TOP)
                if src.get("k") == "mcall" and src["name"] in ("char_indices", "chars"):
                    # counter idiom: `let mut x = 0; for .. in s.char_indices() { ..; x += 1; }` with `x += 1` a top-level statement
                    # of the loop body and no other modification of x anywhere -> character count
                    body = n["body"]
                    blk = body["block"] if body.get("k") == "blockexpr" else body
                    top = [T.peel(st["e"]) for st in blk.get("stmts", []) if st["k"] == "expr"]
                    for t_ in top:
                        if t_.get("k") == "assign_op" and t_["op"].startswith("+") and T.lit_value(t_["r"]) == 1:
                            lid = T.local_of(t_["l"])
                            if lid is None:
                                continue
                            mods = [x for x in T.nodes(self.body["tree"]) if x.get("k") in ("assign", "assign_op") and T.local_of(x["l"]) == lid]
                            inits = [s_ for s_ in T.nodes(self.body["tree"], "let") if s_["pat"]["p"] == "bind" and s_["pat"]["id"] == lid]
                            if len(mods) == 1 and len(inits) == 1 and inits[0].get("init") is not None and T.lit_value(inits[0]["init"]) == 0:
                                self.env[lid] = CH
                                self.env[("counter", lid)] = True
            elif k == "match":
                su = self.item_units(n["scrut"]) or self.unit(n["scrut"])
                for a in n["arms"]:
                    self.bind_pat(a["pat"], su)
                    self._mark_newline_pat(a["pat"], n["scrut"])
            elif k == "if":
                c = T.peel(n["cond"])
                if c.get("k") == "let_cond":
                    self.bind_pat(c["pat"], self.item_units(c["e"]) or self.unit(c["e"]))
                    self._mark_newline_pat(c["pat"], c["e"])
            elif k == "closure":
                # closures passed to map/and_then are bound in unit(); others: params unknown
                for prm in n["params"]:
                    for x in _pat_binds(prm["pat"]):
                        if x["id"] not in self.env:
                            self.env[x["id"]] = self.env.get(x["id"], BOT)

    def item_units(self, e, depth=0):
        """Option<(usize, char)> produced by `x.char_indices().last()/next()/..`: the position is a boundary."""
        e = T.peel_ref(e)
        if e.get("k") == "mcall" and e["name"] in ("last", "next", "next_back", "nth", "min", "max", "peek"):
            r = T.peel_ref(e["recv"])
            if r.get("k") == "mcall" and r["name"] == "char_indices":
                return [BB, TOP]
        if e.get("k") == "path" and depth < 3:
            lid = T.local_of(e)
            for s in T.nodes(self.body["tree"], "let"):
                if s["pat"]["p"] == "bind" and s["pat"]["id"] == lid and s.get("init") is not None:
                    return self.item_units(s["init"], depth + 1)
        return None

    def _mark_newline(self, pat, init):
        self._mark_newline_pat(pat, init)

    def _mark_newline_pat(self, pat, e):
        """x bound (possibly through Some(x)) to the result of a line-break scanner sits on a '\\n'."""
        if self._is_scanner_result(e):
            for x in _pat_binds(pat):
                self.env[("nl", x["id"])] = True
        cf = self._char_finder_start(e)
        if cf:
            for x in _pat_binds(pat):
                self.env[("cf", x["id"])] = cf

    def _char_finder_start(self, e):
        """render of L when e is find_next_char_pos(.., .., L) (or a local bound to it)."""
        e = T.peel_ref(e)
        if e.get("k") == "call" and T.short_path(T.callee(e) or "").endswith("find_next_char_pos") and len(e["args"]) == 3:
            return T.render(e["args"][2])
        if e.get("k") == "path":
            lid = T.local_of(e)
            return self.env.get(("cfopt", lid)) if lid is not None else None
        return None

    def _clamp_bb(self, a, x):
        """Whitespace-run lemma: min(L + n, F) is a boundary when F = first non-blank at or after L, because [L, F)
        holds only one-byte blanks.  Also min(S + n, F) when S is itself such a clamp with the same F."""
        xid = T.local_of(x)
        L = self.env.get(("cf", xid)) if xid is not None else None
        if L is None:
            return False
        a = T.peel_ref(a)
        if a.get("k") == "binary" and a["op"] == "+":
            base = T.peel_ref(a["l"])
            if T.render(base) == L:
                return True
            bid = T.local_of(base)
            if bid is not None and self.env.get(("clamp", bid)) == xid:
                return True
        if T.render(a) == L:
            return True
        return False

    def _is_scanner_result(self, e):
        e = T.peel_ref(e)
        if e.get("k") == "call":
            c = T.short_path(T.callee(e) or "")
            return c.endswith("find_next_line_break_pos") or c.endswith("find_prev_line_break_pos")
        if e.get("k") == "mcall" and e["name"] in ("unwrap_or", "unwrap", "expect", "unwrap_or_default", "unwrap_or_else", "ok_or"):
            self._is_scanner_result(e["recv"])      # marks closure parameters on the way; the value itself is not a scan result any more
            return False
        if e.get("k") == "mcall" and e["name"] in ("and_then", "map") and e["args"]:
            clo = T.peel(e["args"][0])
            if e["name"] == "and_then" and clo.get("k") == "closure":
                if self._is_scanner_result(e["recv"]):
                    for prm in clo["params"]:
                        for x in _pat_binds(prm["pat"]):
                            self.env[("nl", x["id"])] = True
                return self._is_scanner_result(clo["body"])
            if e["name"] == "map" and clo.get("k") == "closure" and self._is_scanner_result(e["recv"]):
                for prm in clo["params"]:
                    for x in _pat_binds(prm["pat"]):
                        self.env[("nl", x["id"])] = True
            return False
        if e.get("k") == "path":
            lid = T.local_of(e)
            return bool(lid is not None and self.env.get(("nlopt", lid)))
        return False


def _pat_binds(p):
    out = []
    if p["p"] == "bind":
        out.append(p)
        if p.get("sub"):
            out += _pat_binds(p["sub"])
    for x in p.get("pats", []) or []:
        out += _pat_binds(x)
    if p.get("pat"):
        out += _pat_binds(p["pat"])
    for f in p.get("fields", []) or []:
        if isinstance(f, dict) and f.get("pat"):
            out += _pat_binds(f["pat"])
    return out


def _newline_test_pos(cond):
    """(position render, polarity) if cond tests the byte at a position against '\\n'."""
    c = T.peel(cond)
    if c.get("k") == "unary" and c.get("op") == "!":
        r = _newline_test_pos(c["e"])
        return None if r is None else (r[0], not r[1])
    if c.get("k") != "binary" or c["op"] not in ("==", "!="):
        return None
    for a, b_ in ((c["l"], c["r"]), (c["r"], c["l"])):
        a, b_ = T.peel(a), T.peel(b_)
        if a.get("k") == "mcall" and a["name"] == "get" and "[u8]" in (a["recv"].get("aty") or a["recv"].get("ty") or ""):
            if b_.get("k") == "call" and T.render(b_["f"]).endswith("Some") and T.lit_value(T.peel_ref(b_["args"][0])) == 10:
                return (T.render(T.peel_ref(a["args"][0])), c["op"] == "==")
        if a.get("k") == "index" and "u8" in (a.get("ty") or "") and T.lit_value(T.peel_ref(b_)) == 10:
            return (T.render(T.peel_ref(a["idx"])), c["op"] == "==")
    return None
