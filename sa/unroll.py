"""Constant-trip loops are written out.

`for k in [0, 1] { body }` and `for _ in 0..2 { body }` (literal bounds, at most MAX_TRIPS iterations, no `break` /
`continue` that belongs to the loop) execute the body a fixed number of times; the path-enumerating engines do not follow
loops in general, so these are replaced by the sequence of their iterations

    { { let k = 0; body }  { let k = 1; body } }

with the locals bound inside each copy renumbered.  `return` inside the body stays a return.  The reference tree has no
such loop, so this is the identity there."""
import copy

from . import tree as T
from .inline import _max_id, _pats_of

MAX_TRIPS = 4


def _trip_values(it, body=None, muts=None):
    from .forward import _pure
    it = T.peel(it)
    if it.get("k") == "mcall" and it["name"] in ("into_iter", "iter") and not it["args"]:
        it = T.peel_ref(it["recv"])
    if body is not None and T.local_of(it) is not None and T.local_of(it) not in muts:
        # `let parts = [a, b, c]; for part in parts { .. }`: an immutable array local that only the loop reads
        lid = T.local_of(it)
        lets = [s_ for s_ in T.nodes(body["tree"], "let") if s_["pat"].get("p") == "bind" and s_["pat"]["id"] == lid and s_.get("init") is not None]
        uses = [n for n in T.nodes(body["tree"], "path") if T.local_of(n) == lid]
        if len(lets) == 1 and len(uses) == 1 and T.peel(lets[0]["init"]).get("k") == "array":
            it = T.peel(lets[0]["init"])
            if 0 < len(it.get("es", [])) <= MAX_TRIPS and all(T.peel(v).get("k") == "lit" or _pure(T.peel(v), muts) for v in it["es"]):
                lets[0]["dead_after_unroll"] = True     # pure elements, no reader left once the loop is written out
    if it.get("k") == "array":
        vals = [T.peel(e) for e in it.get("es", [])]
        if 0 < len(vals) <= MAX_TRIPS and all(v.get("k") == "lit" or (muts is not None and _pure(v, muts)) for v in vals):
            return vals
        return None
    if it.get("k") == "struct" and (it.get("res") or {}).get("path") == "std::ops::Range":
        f = {x["name"]: T.peel(x["e"]) for x in it["fields"]}
        a, b = f.get("start"), f.get("end")
        if a is None or b is None or a.get("k") != "lit" or b.get("k") != "lit" or a.get("lk") != "int" or b.get("lk") != "int":
            return None
        lo, hi = a["v"][0], b["v"][0]
        if not (isinstance(lo, int) and isinstance(hi, int)) or not (0 < hi - lo <= MAX_TRIPS):
            return None
        return [dict(a, v=[k]) for k in range(lo, hi)]
    return None


def _own_jumps(body):
    """break / continue nodes of `body` that belong to the loop whose body this is (not to a loop nested inside)."""
    out = []

    def walk(n, depth):
        k = n.get("k")
        if k in ("break", "continue") and (depth == 0 or n.get("label")):
            out.append(n)
        d2 = depth + (1 if k in ("for", "loop") else 0)
        if k == "closure":
            return
        for c in T.children(n):
            walk(c, d2)
    walk(body, 0)
    return out


def _fresh_copy(body, pat, next_id):
    b = copy.deepcopy(body)
    p = copy.deepcopy(pat)
    bound = {}
    for x in T.pat_nodes(p):
        if x.get("p") == "bind":
            bound[x["id"]] = None
    for n in T.nodes(b):
        for q in _pats_of(n):
            for x in T.pat_nodes(q):
                if x.get("p") == "bind":
                    bound[x["id"]] = None
        if n.get("k") == "closure":
            for pp in n.get("params", []):
                for x in T.pat_nodes(pp["pat"]):
                    if x.get("p") == "bind":
                        bound[x["id"]] = None
    for i in bound:
        next_id += 1
        bound[i] = next_id

    def fix_pat(q):
        for x in T.pat_nodes(q):
            if x.get("p") == "bind" and x["id"] in bound:
                x["id"] = bound[x["id"]]
    fix_pat(p)
    for n in T.nodes(b):
        for q in _pats_of(n):
            fix_pat(q)
        if n.get("k") == "closure":
            for pp in n.get("params", []):
                fix_pat(pp["pat"])
        r = n.get("res")
        if n.get("k") == "path" and isinstance(r, dict) and r.get("r") == "local" and r.get("id") in bound:
            r["id"] = bound[r["id"]]
    return b, p, next_id


def unroll_body(body):
    from .forward import _mutables
    done = 0
    changed = True
    while changed:
        changed = False
        for n in list(T.nodes(body["tree"], "for")):
            vals = _trip_values(n["iter"], body, _mutables(body))
            if vals is None or _own_jumps(n["body"]):
                for s_ in T.nodes(body["tree"], "let"):
                    s_.pop("dead_after_unroll", None)
                continue
            nid = _max_id(body["tree"])
            for p in body.get("params", []):
                for x in T.pat_nodes(p["pat"]):
                    if isinstance(x.get("id"), int):
                        nid = max(nid, x["id"])
            stmts = []
            for v in vals:
                b, p, nid = _fresh_copy(n["body"], n["pat"], nid)
                inner = {"k": "block", "sp": n.get("sp"), "stmts": [
                    {"k": "let", "sp": n.get("sp"), "pat": p, "pty": p.get("ty"), "init": copy.deepcopy(v), "has_ty": False, "unrolled": True},
                    {"k": "expr", "sp": n.get("sp"), "e": b}], "tail": None}
                stmts.append({"k": "expr", "sp": n.get("sp"), "e": {"k": "blockexpr", "id": 0, "ty": "()", "sp": n.get("sp"), "block": inner}})
            keep = {k: n[k] for k in ("id", "sp") if k in n}
            n.clear()
            n.update(keep)
            n.update({"k": "blockexpr", "ty": "()", "unrolled": len(vals),
                      "block": {"k": "block", "sp": keep.get("sp"), "stmts": stmts, "tail": None}})
            done += 1
            changed = True
            for blk in T.nodes(body["tree"], "block"):
                blk["stmts"] = [s_ for s_ in blk.get("stmts", []) if not (s_.get("k") == "let" and s_.get("dead_after_unroll"))]
            break
    return done


def unroll_program(program):
    out = {}
    for b in program.user_bodies():
        if b.get("exp") or "unrolled" in b:
            continue
        k = unroll_body(b)
        b["unrolled"] = k
        if k:
            out[T.short_path(b["def_path"])] = k
    return out
