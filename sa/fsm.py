"""FSM engine: extract the character transducer of element_parser::parse (a fold over char_indices that
branches only on the state variant and on the current character) and decide trace equivalence with the
reference grammar transducer on all well-formed tags of every length (finite product exploration)."""
import re
from collections import deque

from . import absint as A
from . import tree as T


class FsmError(Exception):
    pass


SPAN = re.compile(r"^.*\[([^\[\]]+?)\.\.([^\[\]]*)\]$")


def _span(term):
    m = SPAN.match(term)
    if not m:
        return None
    return m.group(1), (m.group(2) or "end")


def extract(P, body, spec):
    """Returns dict(fold, seed_state, classes, variants, trans, end) for the parser body."""
    folds = [n for n in T.nodes(body["tree"], "mcall") if n["name"] == "fold" and T.render(n["recv"]).endswith(".char_indices()")]
    loops = [n for n in T.nodes(body["tree"], "for") if T.render(n["iter"]).endswith(".char_indices()")]
    form = None
    if len(folds) == 1 and not loops:
        form = "fold"
        fold = folds[0]
        src = T.render(T.peel_ref(fold["recv"]["recv"]))
        seed = T.peel(fold["args"][0])
        clo = T.peel(fold["args"][1])
        if seed.get("k") != "tuple" or len(seed["es"]) != 2 or T.render(seed["es"][0]) != "std::vec::Vec::new()":
            raise FsmError("fold seed is not (empty list, initial state): %s" % T.render(seed))
        if clo.get("k") != "closure" or len(clo["params"]) != 2:
            raise FsmError("fold closure shape")
        seed_node = T.peel(seed["es"][1])
        step_body = clo["body"]
        anchor = fold
        loop_info = None
    elif len(loops) == 1 and not folds:
        # the same machine written as `let mut pairs = vec![]; let mut state = S0; for (pos, ch) in target.char_indices() { .. }`
        form = "for"
        loop = loops[0]
        src = T.render(T.peel_ref(T.peel_ref(loop["iter"])["recv"]))
        lets = [s_ for s_ in T.nodes(body["tree"], "let") if s_["pat"]["p"] == "bind" and s_.get("init") is not None and "Mut" in s_["pat"].get("mode", "")]
        st_let = [s_ for s_ in lets if T.peel(s_["init"]).get("k") == "path" and T.peel(s_["init"])["res"].get("dk", "").startswith("Ctor")]
        pr_let = [s_ for s_ in lets if T.render(s_["init"]) == "std::vec::Vec::new()"]
        if len(st_let) != 1 or len(pr_let) != 1:
            raise FsmError("loop form: cannot identify the state variable / the pair list")
        seed_node = T.peel(st_let[0]["init"])
        step_body = loop["body"]
        anchor = loop
        loop_info = {"state_id": st_let[0]["pat"]["id"], "pairs_id": pr_let[0]["pat"]["id"], "pairs_name": pr_let[0]["pat"]["name"], "pat": loop["pat"]}
        clo = None
    else:
        raise FsmError("expected one fold (or one `for`) over char_indices(), found %d fold(s) and %d loop(s)" % (len(folds), len(loops)))
    seed_state = A.sname(seed_node["res"]["path"])
    # state enum
    enum_path = seed_node["res"]["path"].rsplit("::", 1)[0]
    adt = P.adts.get(enum_path)
    if not adt or adt["kind"] != "enum":
        raise FsmError("state enum %s not found" % enum_path)
    variants = {A.sname(v["path"]): len(v["fields"]) for v in adt["variants"]}
    if any(n > 1 for n in variants.values()):
        raise FsmError("state variants with more than one payload are not modelled")
    # alphabet partition: literal chars used anywhere in the closure + the spec's classes
    lits = set()
    for n in T.nodes(step_body):
        if n.get("k") == "lit" and n.get("lk") == "char":
            lits.add(n["v"][0])
        if n.get("k") == "match":
            for a in n["arms"]:
                _pat_chars(a["pat"], lits)
    spec_lits = {v for v in spec["classes"].values() if v is not None}
    extra = lits - spec_lits
    classes = dict(spec["classes"])
    for i, ch in enumerate(sorted(extra)):
        classes["X%d" % i] = ch      # a literal the grammar does not distinguish: must behave like OT
    all_lits = lits | spec_lits
    trans = {}
    for vn, ar in variants.items():
        for cname, ch in classes.items():
            cc = A.CharClass(ch) if ch is not None else A.CharClass(None, excluded=all_lits)
            I = A.Interp(P)
            I.lazy_locals = True

            def run(J, vn=vn, ar=ar, cc=cc):
                env = {}
                pairs = A.VecV([], base=A.Sym("PAIRS"))
                st = A.Variant(vn, [A.Sym("start")] if ar else [])
                if form == "fold":
                    if not J.match_pat(clo["params"][0]["pat"], A.Tuple([pairs, st]), env):
                        raise A.Cannot("accumulator pattern")
                    if not J.match_pat(clo["params"][1]["pat"], A.Tuple([A.Sym("pos"), cc]), env):
                        raise A.Cannot("item pattern")
                    return J.ev(clo["body"], env)
                env[loop_info["state_id"]] = st
                env[loop_info["pairs_id"]] = pairs
                if not J.match_pat(loop_info["pat"], A.Tuple([A.Sym("pos"), cc]), env):
                    raise A.Cannot("item pattern")
                try:
                    J.ev(step_body, env)
                except A._Continue:
                    pass
                return A.Tuple([pairs, env[loop_info["state_id"]]])
            outs = I.explore(run)
            res = []
            for o in outs:
                cond = None
                for k, v in o["decisions"].items():
                    if k == "is_some(PAIRS.last())":
                        cond = v
                    else:
                        raise FsmError("transition (%s, %s) depends on `%s`: not a function of state and character" % (vn, cname, k))
                if o["exit"] == "panic":
                    res.append({"nonempty": cond, "panic": A.show(o["value"])})
                    continue
                v = o["value"]
                if o["exit"] != "fall" or not isinstance(v, A.Tuple) or len(v.items) != 2 or not isinstance(v.items[1], A.Variant):
                    raise FsmError("transition (%s, %s) returns %s" % (vn, cname, A.show(v)))
                nxt = v.items[1]
                payload = A.show(nxt.args[0]) if nxt.args else None
                events = []
                for e in o["effects"]:
                    if e[0] == "push" and e[1] in ("pairs", (loop_info or {}).get("pairs_name")):
                        val = e[2]
                        if not (isinstance(val, A.Tuple) and len(val.items) == 2 and isinstance(val.items[1], A.Variant) and val.items[1].name == "None"):
                            raise FsmError("push of %s is not a (word, None) pair" % A.show(val))
                        sp = _span(A.show(val.items[0]))
                        if sp is None:
                            raise FsmError("pushed word %s is not a slice of the tag body" % A.show(val.items[0]))
                        events.append(("push",) + sp)
                    elif e[0] == "assign_field" and e[1] == "PAIRS.last().some.1":
                        val = e[2]
                        if not (isinstance(val, A.Variant) and val.name == "Some"):
                            raise FsmError("value assignment %s" % A.show(val))
                        sp = _span(A.show(val.args[0]))
                        if sp is None:
                            raise FsmError("assigned value %s is not a slice of the tag body" % A.show(val.args[0]))
                        events.append(("setvalue",) + sp)
                    elif e[0] in ("push", "assign_field", "extend"):
                        raise FsmError("unrecognised effect %s %s in transition (%s, %s)" % (e[0], e[1], vn, cname))
                res.append({"nonempty": cond, "next": nxt.name, "payload": payload, "events": events})
            trans[(vn, cname)] = res
    return {"fold": anchor, "closure": clo, "seed_state": seed_state, "classes": classes, "variants": variants, "trans": trans, "source": src,
            "form": form, "loop_info": loop_info}


def _pat_chars(p, out):
    if p.get("p") == "lit" and p.get("lk") == "char":
        out.add(p["v"][0])
    for x in p.get("pats", []) or []:
        _pat_chars(x, out)
    if p.get("pat"):
        _pat_chars(p["pat"], out)


def extract_end(P, body, fsm):
    """End-of-input behaviour per final state: events + accept/reject, by exploring the code after the fold."""
    fold = fsm["fold"]
    end = {}
    for vn, ar in fsm["variants"].items():
        def fold_model(I, a, n, env, vn=vn, ar=ar):
            if n is fold:
                return A.Tuple([A.VecV([], base=A.Sym("PAIRS")), A.Variant(vn, [A.Sym("start")] if ar else [])])
            raise A.Cannot("unexpected fold")
        I = A.Interp(P, models={"std::iter::Iterator::fold": fold_model})
        I.lazy_locals = True
        if fsm.get("form") == "for":
            li = fsm["loop_info"]

            def ev_for(n, env, vn=vn, ar=ar, li=li):
                if n is fold:
                    env[li["state_id"]] = A.Variant(vn, [A.Sym("start")] if ar else [])
                    env[li["pairs_id"]] = A.VecV([], base=A.Sym("PAIRS"))
                    return A.UNIT
                raise A.Cannot("unexpected loop")
            I.ev_for = ev_for
        tok = body["params"][0]["pat"]

        def run(J):
            env = {tok["id"]: A.Sym("token")}
            return J.ev(body["tree"], env)
        outs = I.explore(run)
        cases = []
        for o in outs:
            d = dict(o["decisions"])
            if d.pop("variant(token.kind)", "TokenKind::Element") != "TokenKind::Element":
                continue
            empty = d.pop("is_empty(PAIRS)", None)
            # how the delimiters were stripped does not concern the end-of-input behaviour (checked to agree below)
            for k in [k for k in d if ".strip_prefix(" in k or ".strip_suffix(" in k]:
                d.pop(k)
            if d:
                raise FsmError("end-of-input behaviour in state %s depends on %s" % (vn, list(d)))
            events = []
            for e in o["effects"]:
                if e[0] == "push" and e[1] in ("pairs", (fsm.get("loop_info") or {}).get("pairs_name")):
                    sp = _span(A.show(e[2].items[0])) if isinstance(e[2], A.Tuple) else None
                    if sp is None:
                        raise FsmError("end-of-input push %s" % A.show(e[2]))
                    events.append(("push",) + sp)
            v = o["value"]
            if o["exit"] == "panic":
                cases.append({"empty": empty, "events": events, "result": "panic", "value": A.show(v)})
            elif isinstance(v, A.Variant) and v.name == "None":
                cases.append({"empty": empty, "events": events, "result": "reject"})
            elif isinstance(v, A.Variant) and v.name == "Some" and isinstance(v.args[0], A.Struct):
                cases.append({"empty": empty, "events": events, "result": "accept", "value": v.args[0]})
            else:
                raise FsmError("end-of-input result %s" % A.show(v))
        uniq = {}
        for c in cases:
            vs = A.show(c.get("value")) if c.get("value") is not None else None
            if vs:
                vs = re.sub(r"token\.value(\.strip_(prefix|suffix)\([^()]*\)\.some)*", "target", vs)
            sig = (c["empty"], tuple(c["events"]), c["result"], vs)
            uniq.setdefault(c["empty"], set()).add(sig[1:])
            c["_sig"] = sig
        for e_, sigs in uniq.items():
            if len(sigs) > 1:
                raise FsmError("end-of-input behaviour in state %s is not a function of the state: %s" % (vn, sorted(sigs, key=repr)[:2]))
        dedup = {}
        for c in cases:
            dedup.setdefault(c["_sig"], c)
        end[vn] = list(dedup.values())
    return end


def dead_states(fsm, end):
    """Greatest set of states from which every continuation stays inside the set and end of input never accepts."""
    states = {k[0] for k in fsm["trans"]}
    dead = {st for st in states if all(c["result"] != "accept" for c in end.get(st, [])) and end.get(st) is not None}
    changed = True
    while changed:
        changed = False
        for st in list(dead):
            for (vn, cname), outs in fsm["trans"].items():
                if vn == st and any(("panic" in o) or o.get("next") not in dead for o in outs):
                    dead.discard(st)
                    changed = True
                    break
    return dead


def product(fsm, end, spec):
    """BFS over the product of the extracted machine and the reference transducer.
    Returns (states, transitions, mismatches[list of dict(witness, what)])."""
    classes = fsm["classes"]
    spec_cls = {}
    for cname, ch in classes.items():
        # an extra literal of the implementation is an ordinary word character for the grammar
        spec_cls[cname] = cname if cname in spec["classes"] else "OT"
    init = (fsm["seed_state"], spec["initial"], "na", True)
    seen = {init: ()}
    q = deque([init])
    mism = []
    ntrans = 0
    reported = set()

    def report(kind, w, what):
        key = (kind, what)
        if key in reported:
            return
        reported.add(key)
        mism.append({"kind": kind, "witness": "·".join(w) if w else "(empty)", "what": what})
    while q:
        st = q.popleft()
        iv, sv, rel, empty = st
        w = seen[st]
        sdef = spec["states"][sv]
        # end of input
        if sdef["end"] is not None:
            cases = [c for c in end.get(iv, []) if c["empty"] in (None, empty and not any(e[0] == "push" for e in c["events"]))]
            # choose the case consistent with emptiness *after* the end events
            ok_case = None
            for c in end.get(iv, []):
                after_empty = empty and not any(e[0] == "push" for e in c["events"])
                if c["empty"] is None or c["empty"] == after_empty:
                    ok_case = c
                    break
            if ok_case is None:
                report("end", w, "no end-of-input behaviour extracted for state %s" % iv)
            else:
                ev_i = [e[0] for e in ok_case["events"]]
                if ev_i != list(sdef["end"]):
                    report("end", w, "at end of input in state %s the parser emits %s, the grammar %s" % (iv, ev_i, sdef["end"]))
                else:
                    for e in ok_case["events"]:
                        if e[1] != "start" or e[2] != "end" or rel != "eq":
                            report("end", w, "final word spans %s..%s (start positions agree: %s); the grammar spans start..end" % (e[1], e[2], rel))
                    if ok_case["result"] != "accept":
                        report("end", w, "well-formed tag is rejected / panics at end of input in state %s (%s)" % (iv, ok_case["result"]))
        for cname in classes:
            sc = spec_cls[cname]
            t = sdef["on"].get(sc)
            if t is None:
                if sc in sdef.get("reject", []):
                    # documented malformed input: the parser must move to its absorbing error state
                    outs_r = fsm["trans"].get((iv, cname), [])
                    cand_r = [o for o in outs_r if o["nonempty"] is None or o["nonempty"] == (not empty)]
                    if len(cand_r) != 1 or "panic" in cand_r[0] or cand_r[0].get("next") not in dead_states(fsm, end):
                        report("reject", w + (cname,), "in state %s the character class %s (a quote or '=' where a name must begin) does not make the tag malformed: "
                               "the parser goes on in state %s" % (iv, cname, cand_r[0].get("next") if len(cand_r) == 1 else "?"))
                continue            # outside the grammar
            ntrans += 1
            s2, set2, ev2 = t
            outs = fsm["trans"].get((iv, cname), [])
            cand = [o for o in outs if o["nonempty"] is None or o["nonempty"] == (not empty)]
            w2 = w + (cname,)
            if len(cand) != 1:
                report("trans", w2, "no unique transition for (%s, %s)" % (iv, cname))
                continue
            o = cand[0]
            if "panic" in o:
                report("trans", w2, "parser panics in state %s on %s with no attribute pair yet: %s" % (iv, cname, o["panic"]))
                continue
            # events
            ev_i = o["events"]
            if [e[0] for e in ev_i] != list(ev2):
                report("trans", w2, "in state %s on %s the parser emits %s, the grammar %s" % (iv, cname, [e[0] for e in ev_i] or "nothing", ev2 or "nothing"))
                continue
            bad = False
            for e in ev_i:
                if e[2] != "pos":
                    report("trans", w2, "emitted span ends at `%s`, the grammar's ends at the current position" % e[2])
                    bad = True
                if e[1] != "start":
                    report("trans", w2, "emitted span starts at `%s`, not at the recorded start" % e[1])
                    bad = True
                elif rel != "eq":
                    report("trans", w2, "emitted span starts at a position recorded at a different step than the grammar's word start")
                    bad = True
            if bad:
                continue
            # next relation between recorded starts
            iv2, pay = o["next"], o["payload"]
            spec_has = spec["states"][s2]["has_start"]
            if pay is None or not spec_has:
                rel2 = "na"
                if (pay is None) != (not spec_has):
                    # one machine tracks a start the other does not: harmless until an event uses it (then rel != eq)
                    rel2 = "ne" if pay is not None and spec_has else "na"
            else:
                iset = {"pos": "pos", "(pos + 1)": "pos+1"}.get(pay)
                if pay == "start":
                    rel2 = rel if set2 is None else "ne"
                elif iset is None:
                    report("trans", w2, "recorded start `%s` is neither pos, pos + 1 nor the kept start" % pay)
                    continue
                else:
                    rel2 = "eq" if set2 == iset else "ne"
                if iset == "pos+1" and classes[cname] is None:
                    report("trans", w2, "pos + 1 recorded for a character that need not be one byte wide")
            empty2 = empty and not any(e[0] == "push" for e in ev_i)
            st2 = (iv2, s2, rel2, empty2)
            if st2 not in seen:
                seen[st2] = w2
                q.append(st2)
    return seen, ntrans, mism
