"""Checker self-validation: seeded mutants must be reported (naming the seeded instance), benign
variants must leave every rule silent.  Variants are applied to a scratch copy of /repo outside /repo
and /verif; the copy is analysed statically like the real tree and removed afterwards.

usage: python3 -m sa.selftest [--only <id-substring>] [--property C05] [--kind mutant|benign]"""
import argparse
import importlib
import json
import os
import shutil
import sys
import tempfile
import time

from . import absint, facts, report
from .rules import Ctx

VERIF = os.path.dirname(os.path.dirname(os.path.abspath(__file__)))
CORPUS = os.path.join(VERIF, "selftest", "mutants.json")


def load_corpus():
    with open(CORPUS) as f:
        return json.load(f)


def make_scratch(repo="/repo"):
    d = tempfile.mkdtemp(prefix="chiritori-scratch-")
    dst = os.path.join(d, "repo")
    shutil.copytree(repo, dst, ignore=shutil.ignore_patterns("target", ".git", "images", "node_modules"))
    return d, dst


def apply_patch(root, patch):
    """Apply a unified diff (path relative to /verif) to the scratch copy; returns the files it touches with their original text."""
    import re
    import subprocess
    pp = os.path.join(VERIF, patch)
    with open(pp) as f:
        files = re.findall(r"^\+\+\+ b/(\S+)", f.read(), re.M)
    undo = []
    for rel in files:
        q = os.path.join(root, rel)
        if os.path.exists(q):
            with open(q) as f:
                undo.append((q, f.read()))
    r = subprocess.run(["git", "apply", "-p1", pp], cwd=root, stdout=subprocess.PIPE, stderr=subprocess.STDOUT, text=True)
    if r.returncode != 0:
        revert(undo)
        raise ValueError("patch %s does not apply: %s" % (patch, r.stdout.strip()[:120]))
    return undo


def apply_edits(root, edits):
    """edits: list of {file, find, replace, count?}.  Returns list of (path, original text) for undo."""
    undo = []
    for e in edits:
        p = os.path.join(root, e["file"])
        with open(p) as f:
            s = f.read()
        n = s.count(e["find"])
        want = e.get("count", 1)
        if n != want:
            for q, orig in undo:
                with open(q, "w") as f:
                    f.write(orig)
            raise ValueError("edit does not apply: %r occurs %d times in %s (expected %d)" % (e["find"][:60], n, e["file"], want))
        undo.append((p, s))
        with open(p, "w") as f:
            f.write(s.replace(e["find"], e["replace"]))
    return undo


def revert(undo):
    for p, orig in reversed(undo):
        with open(p, "w") as f:
            f.write(orig)


def run_property(prop, repo):
    mod = importlib.import_module("sa.rules." + prop.lower())
    res = report.Result(prop, mod.LEVEL)
    f = facts.extract(repo=repo)
    ctx = Ctx(f, "quick", repo)
    try:
        mod.run(ctx, res)
    except absint.Cannot as e:
        res.cannot(prop + ".engine", "-", "cannot-interpret:" + str(e)[:100], str(e))
    except Exception as e:  # same fail-closed behaviour as ./check
        res.cannot(prop + ".internal", "-", "internal:" + type(e).__name__, repr(e))
    try:
        from . import rules as _rules
        _rules.run_dependencies(ctx, res, prop)
    except Exception as e:
        res.cannot(prop + ".internal", "-", "internal:deps:" + type(e).__name__, repr(e))
    known = {k["key"] if k["property"] == prop else "%s.D:%s" % (prop, k["key"]) for k in report.load_known().get("findings", [])}
    return [f_ for f_ in res.findings if f_.key not in known]


def claimed_properties():
    with open(os.path.join(VERIF, "MANIFEST.json")) as f:
        m = json.load(f)
    return [c["property_id"] for c in m["checks"]]


def run_variants(variants, repo="/repo", verbose=True, benign_props=None):
    """Returns list of result dicts {id, kind, ok, why}."""
    d, scratch = make_scratch(repo)
    results = []
    try:
        for v in variants:
            t0 = time.time()
            r = {"id": v["id"], "kind": v.get("kind", "mutant"), "property": v.get("property"), "ok": False, "why": ""}
            try:
                undo = apply_patch(scratch, v["patch"]) if v.get("patch") else []
                try:
                    undo = undo + apply_edits(scratch, v.get("edits", []))
                except ValueError:
                    revert(undo)
                    raise
            except ValueError as e:
                r["why"] = "STALE: " + str(e)
                results.append(r)
                if verbose:
                    print("  %-44s %-7s %s" % (v["id"], "STALE", r["why"][:150]))
                continue
            try:
                if r["kind"] == "mutant":
                    try:
                        fs = run_property(v["property"], scratch)
                    except facts.ExtractionError as e:
                        r["why"] = "variant does not compile: " + str(e)[-300:]
                        fs = None
                    if fs is not None:
                        hits = [f for f in fs if v["expect"] in f.key]
                        if hits:
                            r["ok"] = True
                            r["why"] = hits[0].key[:160]
                        else:
                            r["why"] = "MISSED (findings: %s)" % [f.key[:80] for f in fs][:4]
                else:
                    props = v.get("properties") or benign_props or claimed_properties()
                    noisy = []
                    try:
                        for p in props:
                            for f in run_property(p, scratch):
                                noisy.append(f.key)
                    except facts.ExtractionError as e:
                        noisy.append("does not compile: " + str(e)[-300:])
                    r["ok"] = not noisy
                    r["why"] = "silent on %d properties" % len(props) if not noisy else "FALSE ALARM: %s" % noisy[:4]
            finally:
                revert(undo)
            r["wall_s"] = round(time.time() - t0, 2)
            results.append(r)
            if verbose:
                print("  %-44s %-7s %s" % (v["id"], "ok" if r["ok"] else "FAIL", r["why"][:170]))
    finally:
        shutil.rmtree(d, ignore_errors=True)
    return results


def for_property(prop, res):
    """Thorough-tier hook: run the variants owned by `prop`; record the outcome in the evidence."""
    corpus = load_corpus()
    mine = [v for v in corpus if v.get("property") == prop and v.get("kind", "mutant") == "mutant"]
    benign_all = [dict(v, properties=[prop]) for v in corpus if v.get("kind") == "benign"]
    # every benign variant against every property is `python3 -m sa.selftest` (about seven minutes); the thorough tier of one
    # property takes every fourth benign variant, offset by the property's number, so that the 19 thorough runs together
    # cover each benign variant about five times
    k = int("".join(ch for ch in prop if ch.isdigit()) or 0) % 4
    benign = [v for i, v in enumerate(benign_all) if i % 4 == k]
    out = run_variants(mine + benign, verbose=False)
    failed = [r for r in out if not r["ok"]]
    res.extra["selftest"] = {
        "mutants": len(mine), "benign": len(benign), "benign_in_corpus": len(benign_all), "failed": [dict(id=r["id"], why=r["why"][:200]) for r in failed],
        "detected": [r["id"] for r in out if r["ok"] and r["kind"] == "mutant"],
    }
    for r in failed:
        print("SELFTEST-FAIL: %s %s: %s" % (prop, r["id"], r["why"][:200]))
    return out


def _own_cache():
    """A worker of a parallel run keeps its own fact cache and target directory (no waiting for the others)."""
    import tempfile
    facts.CACHE = tempfile.mkdtemp(prefix="chiritori-selfcache-")


def main():
    ap = argparse.ArgumentParser()
    ap.add_argument("--only")
    ap.add_argument("--property")
    ap.add_argument("--kind")
    ap.add_argument("--jobs", type=int, default=1, help="evaluation only: split the corpus over this many processes")
    a = ap.parse_args()
    corpus = load_corpus()
    sel = [v for v in corpus
           if (not a.only or a.only in v["id"]) and (not a.property or v.get("property") == a.property or v.get("kind") == "benign")
           and (not a.kind or v.get("kind", "mutant") == a.kind)]
    if a.jobs > 1 and len(sel) > a.jobs:
        import glob
        import multiprocessing
        with multiprocessing.Pool(a.jobs, initializer=_own_cache) as pool:
            out = [r for rs in pool.map(run_variants, [sel[i::a.jobs] for i in range(a.jobs)]) for r in rs]
        for d in glob.glob("/tmp/chiritori-selfcache-*"):
            shutil.rmtree(d, ignore_errors=True)
    else:
        out = run_variants(sel)
    bad = [r for r in out if not r["ok"]]
    print("%d variants, %d failed" % (len(out), len(bad)))
    sys.exit(1 if bad else 0)


if __name__ == "__main__":
    main()
