"""Tree-level inlining of functions that the reference tree does not have.

Extracting a private helper from an analysed function preserves behaviour; every engine (structural queries, the DT
interpreter, the obligation walker, the unit typestate) should see the same code as before the extraction.  So every call
of a *new* function (Program.new_fns: not in spec/binders.json after alignment of renames) is replaced, in the caller's
tree, by a labelled block

    'inl: { let <param> = <argument>; ...; <callee body> }        with `return e` in the callee body -> `break 'inl e`

with all local / node ids of the copied body renumbered so that they cannot clash with the caller's.  Recursive new functions
and functions whose body is not available are left as calls.  Functions that were inlined at every call site are listed in
Program.inlined_away and are not analysed on their own."""
import copy

from . import tree as T

MAX_ROUNDS = 4


def _max_id(tree):
    m = 0
    for n in T.nodes(tree):
        for key in ("id", "target"):
            v = n.get(key)
            if isinstance(v, int) and v > m:
                m = v
        r = n.get("res")
        if isinstance(r, dict) and isinstance(r.get("id"), int) and r["id"] > m:
            m = r["id"]
        for p in _pats_of(n):
            for x in T.pat_nodes(p):
                if isinstance(x.get("id"), int) and x["id"] > m:
                    m = x["id"]
    return m


def _pats_of(n):
    k = n.get("k")
    out = []
    if k in ("let", "let_cond", "for"):
        out.append(n.get("pat"))
    if k == "closure":
        out += [p["pat"] for p in n.get("params", [])]
    if k == "match":
        out += [a.get("pat") for a in n.get("arms", [])]
    return [p for p in out if isinstance(p, dict)]


def _renumber(tree, params, off):
    def bump(d, key):
        if isinstance(d.get(key), int):
            d[key] += off
    for n in T.nodes(tree):
        bump(n, "id")
        bump(n, "target")
        r = n.get("res")
        if isinstance(r, dict) and r.get("r") == "local":
            bump(r, "id")
        for p in _pats_of(n):
            for x in T.pat_nodes(p):
                bump(x, "id")
    for p in params:
        for x in T.pat_nodes(p["pat"]):
            bump(x, "id")


def _returns(tree):
    """`ret` nodes of a body that belong to the function itself (not to a closure inside it)."""
    out = []

    def walk(n):
        if n.get("k") == "closure":
            return
        if n.get("k") == "ret":
            out.append(n)
        for c in T.children(n):
            walk(c)
    walk(tree)
    return out


def _calls_to(tree, targets):
    out = []
    for n in T.nodes(tree):
        if n.get("k") in ("call", "mcall") and not n.get("inlined"):
            c = T.callee(n)
            if c in targets:
                out.append((n, c))
    return out


def _simple(e):
    e = T.peel_ref(e)
    return e.get("k") == "lit" or (e.get("k") == "path" and (e.get("res") or {}).get("r") == "local")


def _copy_propagate(tree, fresh_from):
    """`let x = y;` with x an immutable binding and y a local of inlined code (id >= fresh_from) that is the hoisted result of
    a helper: x is y.  Uses of x are redirected to y and the let is dropped."""
    assigned = set()
    for n in T.nodes(tree):
        if n.get("k") in ("assign", "assign_op"):
            assigned.add(T.local_of(T.peel_ref(n["l"])))
    for blk in T.nodes(tree, "block"):
        keep = []
        for st in blk.get("stmts", []):
            if st.get("k") == "let" and st.get("init") is not None and st["pat"].get("p") == "bind" and "Mut" not in st["pat"].get("mode", "") \
                    and st.get("els") is None and not st.get("inlined_param"):
                i_ = T.peel(st["init"])
                if i_.get("k") == "path" and (i_.get("res") or {}).get("r") == "local" and i_["res"]["id"] >= fresh_from and st["pat"]["id"] not in assigned:
                    xid = st["pat"]["id"]
                    for x in T.nodes(tree):
                        if x.get("k") == "path" and (x.get("res") or {}).get("r") == "local" and x["res"].get("id") == xid:
                            x["res"] = dict(i_["res"], name=st["pat"]["name"])
                    # the binder keeps its name: rename y's binder to x's name so that name-keyed rules still find it
                    for y in T.nodes(tree):
                        for p in _pats_of(y):
                            for q in T.pat_nodes(p):
                                if q.get("p") == "bind" and q.get("id") == i_["res"]["id"]:
                                    q["name"] = st["pat"]["name"]
                    for x in T.nodes(tree):
                        if x.get("k") == "path" and (x.get("res") or {}).get("r") == "local" and x["res"].get("id") == i_["res"]["id"]:
                            x["res"]["name"] = st["pat"]["name"]
                    continue
            keep.append(st)
        blk["stmts"] = keep


def _splice(tree):
    """`let x = { s1; s2; e }` / `{ s1; s2; e };` / tail `{ s1; s2; e }` with the inner block an inlined helper without early
    return: its statements are hoisted into the enclosing block (fresh ids make this capture-free)."""
    changed = True
    while changed:
        changed = False
        for blk in list(T.nodes(tree, "block")):
            out = []
            for st in blk.get("stmts", []):
                inner = None
                if st.get("k") == "let" and st.get("init") is not None and st["init"].get("inlined_plain") and st.get("els") is None:
                    inner = st["init"]
                elif st.get("k") == "expr" and st["e"].get("inlined_plain"):
                    inner = st["e"]
                if inner is not None and inner["block"].get("stmts"):
                    out.extend(inner["block"]["stmts"])
                    inner["block"]["stmts"] = []
                    if inner["block"].get("tail") is None:
                        inner["block"]["tail"] = {"k": "tuple", "id": 0, "ty": "()", "sp": inner.get("sp"), "es": []}
                    changed = True
                out.append(st)
            t = blk.get("tail")
            if t is not None and t.get("inlined_plain") and t["block"].get("stmts"):
                out.extend(t["block"]["stmts"])
                t["block"]["stmts"] = []
                changed = True
            blk["stmts"] = out


def _extend_option_as_push(tree):
    """`v.extend({ s1; s2; if c { Some(x) } else { None } })` (an inlined helper that yields at most one item) is
    `{ s1; s2; if c { v.push(x) } }`."""
    def none(e):
        e = T.peel(e) if e is not None else None
        while e is not None and e.get("k") == "blockexpr" and not e["block"].get("stmts") and e["block"].get("tail") is not None:
            e = T.peel(e["block"]["tail"])
        return e is not None and e.get("k") == "path" and ((e.get("res") or {}).get("path") or "").endswith("None")

    def some_arg(e):
        e = T.peel(e)
        while e.get("k") == "blockexpr" and not e["block"].get("stmts") and e["block"].get("tail") is not None:
            e = T.peel(e["block"]["tail"])
        if e.get("k") == "call" and len(e.get("args", [])) == 1 and (T.callee(e) or "").endswith("Some"):
            return e["args"][0]
        return None
    for blk in T.nodes(tree, "block"):
        for st in blk.get("stmts", []):
            if st.get("k") != "expr":
                continue
            m = T.peel(st["e"])
            if not (m.get("k") == "mcall" and m["name"] == "extend" and len(m["args"]) == 1):
                continue
            a = T.peel(m["args"][0])
            pre = []
            if a.get("k") == "blockexpr" and (a.get("inlined") or a.get("inlined_plain")) and not a.get("label") and a["block"].get("tail") is not None:
                pre = a["block"].get("stmts", [])
                a = T.peel(a["block"]["tail"])
            if a.get("k") != "if" or a.get("els") is None or not none(a["els"]):
                continue
            x = some_arg(a["then"])
            if x is None:
                continue
            push = {"k": "mcall", "id": m.get("id"), "ty": "()", "sp": m.get("sp"), "name": "push", "path": "std::vec::Vec::<T, A>::push",
                    "generics": [], "resolved": "std::vec::Vec::<T, A>::push", "recv": m["recv"], "args": [x]}
            cond_push = {"k": "if", "id": a.get("id"), "ty": "()", "sp": a.get("sp"), "cond": a["cond"],
                         "then": {"k": "blockexpr", "id": 0, "ty": "()", "sp": a.get("sp"),
                                  "block": {"k": "block", "sp": a.get("sp"), "stmts": [{"k": "expr", "sp": a.get("sp"), "e": push}], "tail": None}},
                         "els": None}
            st["e"] = {"k": "blockexpr", "id": 0, "ty": "()", "sp": m.get("sp"), "inlined_plain": True,
                       "block": {"k": "block", "sp": m.get("sp"), "stmts": pre + [{"k": "expr", "sp": a.get("sp"), "e": cond_push}], "tail": None}}
    _splice(tree)


def inline_new_functions(program):
    new = set(getattr(program, "new_fns", ()) or ())
    program.inlined_away = set()
    if not new:
        return {}
    done = {}
    # functions that (transitively) call themselves stay calls
    recursive = set()
    for c in new:
        b = program.bodies.get(c)
        if b is None:
            recursive.add(c)
            continue
        seen, work = set(), [c]
        while work:
            x = work.pop()
            bx = program.bodies.get(x)
            if bx is None:
                continue
            for y, _ in program.callees(bx):
                if y == c:
                    recursive.add(c)
                if y in new and y not in seen:
                    seen.add(y)
                    work.append(y)
    targets = new - recursive
    remaining_calls = {c: 0 for c in targets}
    for b in program.facts["bodies"]:
        if b.get("exp") or "tree" not in b:
            continue
        fresh0 = None
        for _round in range(MAX_ROUNDS):
            calls = _calls_to(b["tree"], targets)
            calls = [(n, c) for n, c in calls if c != b["def_path"]]
            if not calls:
                break
            off = _max_id(b["tree"]) + 1
            if fresh0 is None:
                fresh0 = off
            for n, c in calls:
                cb = program.bodies[c]
                args = ([n["recv"]] if n["k"] == "mcall" else []) + list(n["args"])
                if len(args) != len(cb["params"]):
                    continue
                body = copy.deepcopy(cb["tree"])
                params = copy.deepcopy(cb["params"])
                _renumber(body, params, off)
                span = _max_id(body) + 1
                block_id = span
                off = span + 1
                for r in _returns(body):
                    e = r.get("e")
                    r.clear()
                    r.update({"k": "break", "id": 0, "ty": "!", "sp": n.get("sp"), "target": block_id, "from_return": True})
                    if e is not None:
                        r["e"] = e
                # a parameter that is only read and whose argument is a plain local is replaced by that local throughout the
                # copied body (no `let`): the inlined code then reads exactly like the code before the extraction
                mutated = set()
                for x in T.nodes(body):
                    if x.get("k") in ("assign", "assign_op"):
                        mutated.add(T.local_of(T.peel_ref(x["l"])))
                    if x.get("k") == "addr_of" and x.get("mut"):
                        mutated.add(T.local_of(T.peel_ref(x["e"])))
                lets = []
                for p, a in zip(params, args):
                    pp = p["pat"]
                    ap = T.peel_ref(a)
                    if pp.get("p") == "bind" and "Mut" not in pp.get("mode", "") and pp["id"] not in mutated \
                            and ap.get("k") == "path" and (ap.get("res") or {}).get("r") == "local":
                        for x in T.nodes(body):
                            if x.get("k") == "path" and (x.get("res") or {}).get("r") == "local" and x["res"].get("id") == pp["id"]:
                                x["res"] = dict(ap["res"])
                        continue
                    # a struct / range literal of plain locals that the callee only takes apart (`kept.start`, `kept.end`):
                    # the projections are replaced by the field expressions
                    if pp.get("p") == "bind" and "Mut" not in pp.get("mode", "") and pp["id"] not in mutated and ap.get("k") == "struct" \
                            and ap.get("base") is None and all(_simple(f["e"]) for f in ap["fields"]):
                        fmap = {f["name"]: f["e"] for f in ap["fields"]}
                        uses = [x for x in T.nodes(body) if x.get("k") == "path" and (x.get("res") or {}).get("r") == "local" and x["res"].get("id") == pp["id"]]
                        projs = [x for x in T.nodes(body) if x.get("k") == "field" and T.peel_ref(x["base"]).get("k") == "path"
                                 and (T.peel_ref(x["base"]).get("res") or {}).get("id") == pp["id"] and x.get("name") in fmap]
                        if uses and len(uses) == len(projs):
                            for x in projs:
                                rep = copy.deepcopy(T.peel_ref(fmap[x["name"]]))
                                x.clear()
                                x.update(rep)
                            continue
                    lets.append({"k": "let", "sp": n.get("sp"), "pat": pp, "pty": p.get("ty"), "init": a, "has_ty": True, "inlined_param": True})
                has_ret = any(x.get("from_return") and x.get("target") == block_id for x in T.nodes(body))
                if not has_ret and body.get("k") == "blockexpr":
                    # no early return: the callee's own block (parameter lets in front) stands for the call
                    inner = body["block"]
                    new_node = {"k": "blockexpr", "id": block_id, "ty": n.get("ty"), "sp": n.get("sp"), "inlined_plain": c,
                                "block": {"k": "block", "sp": inner.get("sp"), "stmts": lets + list(inner.get("stmts", [])), "tail": inner.get("tail")}}
                else:
                    new_node = {"k": "blockexpr", "id": block_id, "ty": n.get("ty"), "sp": n.get("sp"), "inlined": c, "label": "'inl",
                                "block": {"k": "block", "sp": n.get("sp"), "stmts": lets, "tail": body}}
                if n.get("adj"):
                    new_node["adj"] = n["adj"]
                    new_node["aty"] = n.get("aty")
                n.clear()
                n.update(new_node)
                done.setdefault(T.short_path(b["def_path"]), []).append(T.short_path(c))
        _splice(b["tree"])
        if fresh0 is not None:
            _copy_propagate(b["tree"], fresh0)
            _extend_option_as_push(b["tree"])
        for _, c in _calls_to(b["tree"], targets):
            if c != b["def_path"]:
                remaining_calls[c] += 1
    # function items used as values (passed to map etc.) are uses that were not inlined
    for b in program.facts["bodies"]:
        if "tree" not in b:
            continue
        callee_paths = {id(T.peel(n["f"])) for n in T.nodes(b["tree"], "call")}
        for n in T.nodes(b["tree"]):
            if n.get("k") == "path" and id(n) not in callee_paths and (n.get("res") or {}).get("dk") in ("Fn", "AssocFn"):
                c = n.get("resolved") or n["res"].get("path")
                if c in remaining_calls:
                    remaining_calls[c] += 1
    inlined = {c for cs in done.values() for c in cs}
    program.inlined_away = {c for c, k in remaining_calls.items() if k == 0 and T.short_path(c) in inlined}
    return done


def inline_new_literal_consts(prog, ref_fns):
    """`const CLOSING_PREFIX: &str = "/";` - a *new* named constant (not in the reference description) whose initialiser is a
    literal is that literal wherever it is used."""
    if ref_fns is None:
        return {}
    consts = {}
    for b in prog.facts["bodies"]:
        if (b.get("kind") or "").startswith(("Const", "AssocConst")) and b["def_path"] not in ref_fns and "::tests::" not in b["def_path"] \
                and T.peel(b["tree"]).get("k") == "lit":
            consts[b["def_path"]] = T.peel(b["tree"])
    done = {}
    if not consts:
        return done
    for b in prog.facts["bodies"]:
        if b.get("exp"):
            continue
        for n in T.nodes(b["tree"]):
            if n.get("k") == "path" and (n.get("res") or {}).get("r") == "def" and n["res"].get("path") in consts:
                keep = {k: n[k] for k in ("adj", "aty", "id", "sp") if k in n}
                name = n["res"]["path"]
                lit = copy.deepcopy(consts[name])
                n.clear()
                n.update(lit)
                n.update(keep)
                done[T.short_path(name)] = done.get(T.short_path(name), 0) + 1
    return done


def strip_debug_assertions(program):
    """The analysed configuration is the release build (debug_assertions off): `debug_assert!` / `debug_assert_eq!` /
    `debug_assert_ne!` are compiled out there.  Their expansion `if cfg!(debug_assertions) { .. panic .. }` is replaced by `()`."""
    n_ = 0
    for b in program.facts["bodies"]:
        if "tree" not in b:
            continue
        for n in T.nodes(b["tree"]):
            if n.get("k") == "if" and str(n.get("exp") or "").startswith("debug_assert") and n.get("els") is None and T.lit_value(n["cond"]) is True:
                sp = n.get("sp")
                n.clear()
                n.update({"k": "tuple", "id": 0, "ty": "()", "sp": sp, "es": [], "stripped": "debug_assert"})
                if sp:
                    b.setdefault("stripped_spans", []).append(sp)
                n_ += 1
    return n_
