"""std / alloc functions that can panic (a blacklist: callees outside the crate that are not listed are presumed
total; the price - a partial std function missing here - is stated in the evidence)."""

STD_PARTIAL = {}


def _add(kind, names, what=None):
    for n in names:
        STD_PARTIAL[n] = {"kind": kind, "what": what}


_add("unwrap-some", ["std::option::Option::unwrap", "std::option::Option::expect"])
_add("unwrap-ok", ["std::result::Result::unwrap", "std::result::Result::expect"])
_add("other", ["std::result::Result::unwrap_err", "std::result::Result::expect_err", "std::option::Option::unwrap_unchecked"], "unwrap_err/expect_err")
_add("index-le-len", ["std::vec::Vec::insert", "std::string::String::insert", "std::string::String::insert_str", "std::vec::Vec::split_off", "std::string::String::split_off", "core::slice::split_at", "core::str::split_at", "core::slice::split_at_mut"])
_add("index-lt-len", ["std::vec::Vec::remove", "std::string::String::remove", "std::vec::Vec::swap_remove"])
_add("range-str", ["std::string::String::replace_range", "std::string::String::drain", "std::vec::Vec::drain", "std::vec::Vec::splice", "core::slice::copy_within"])
_add("capacity", ["std::string::String::with_capacity", "std::vec::Vec::with_capacity", "core::str::repeat", "alloc::str::repeat", "std::slice::repeat", "std::vec::Vec::reserve", "std::string::String::reserve"])
_add("panic", ["core::panicking::panic", "core::panicking::panic_fmt", "std::rt::begin_panic", "core::panicking::panic_display", "core::panicking::panic_explicit",
               "core::panicking::unreachable_display", "core::panicking::assert_failed", "std::rt::panic_fmt", "core::panicking::panic_nounwind", "std::process::abort"])
_add("other", ["core::slice::copy_from_slice", "core::slice::clone_from_slice", "core::slice::swap", "core::slice::chunks", "core::slice::chunks_exact", "core::slice::windows",
               "core::slice::rchunks", "std::iter::Iterator::step_by", "std::cell::RefCell::borrow", "std::cell::RefCell::borrow_mut", "core::char::from_digit",
               "std::char::from_digit", "core::slice::rotate_left", "core::slice::rotate_right", "core::slice::select_nth_unstable", "std::time::Instant::duration_since",
               "core::num::<impl usize>::pow", "core::num::pow", "core::num::div_ceil", "core::num::next_power_of_two", "core::num::abs", "core::num::ilog2", "core::num::ilog10"],
     "partial std function")


# Calls into crates other than std / core / alloc and the workspace's own crates.  Unlike std (a blacklist), these are a
# *whitelist*: each entry was read in the dependency's source and returns normally for every argument (errors are values).
# Any other external call is an obligation of the C01 ledger ("unreviewed external call").
EXTERNAL_TOTAL = {
    "chrono::DateTime::parse_from_str": "returns ParseResult; out-of-range fields are Err",
    "chrono::Local::now": "reads the clock", "chrono::Utc::now": "reads the clock",
    "chrono::NaiveDateTime::parse_from_str": "returns ParseResult", "chrono::DateTime::parse_from_rfc3339": "returns ParseResult",
    "chrono::DateTime::with_timezone": "total conversion", "chrono::DateTime::naive_utc": "total projection",
    "chrono::DateTime::timestamp": "total projection",
    "atty::isnt": "isatty query", "atty::is": "isatty query",
    "clap::Parser::parse": "prints usage and exits with status 2 on bad arguments: an exit, not a panic",
    "serde_json::to_string": "returns Result",
}
OWN_CRATES = ("crate", "chiritori")
