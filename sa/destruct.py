"""A tuple given a name: new private structs are read as the tuples they replace.

A refactoring that turns `(ready, pending)` into `struct Collected { ready, pending }` preserves behaviour, but every
extractor that identifies an accumulator / result by its tuple positions sees a different shape.  For every *new* plain
struct (not in the reference tree after alignment of renames; crate-private; named fields; lifetime parameters only) the
trees are rewritten so that

    S { a: x, b: y }        ->  (x, y)                 (declaration order)
    v.a                     ->  v.0
    S { a: p, .. }  (pat)   ->  (p, _)
    <S as Default>::default ->  (Default::default(), Default::default())
    the type S              ->  (A, B)

and then a local of such a type whose every use is a projection `v.N` or a move of the whole value is split into one local
per field (scalar replacement), so that `let c = f(); g(c.0)` reads `let (a, b) = f(); g(a)`.  Finally the spelling
`v.N = e; ...; v` at the end of a block (update in place, then yield the whole value) is folded into the yielded tuple when
the assigned fields are not read in between.  Nothing here looks at names; a struct whose field order differs from the tuple
it replaced simply stays different (and is reported as before)."""
import copy
import re

from . import tree as T
from .inline import _max_id, _pats_of


def _dicts(o):
    """Every dict below o (nodes, patterns, params, arms, field inits)."""
    if isinstance(o, dict):
        yield o
        for v in o.values():
            if isinstance(v, (dict, list)):
                yield from _dicts(v)
    elif isinstance(o, list):
        for v in o:
            if isinstance(v, (dict, list)):
                yield from _dicts(v)


TYPE_KEYS = ("ty", "aty", "pty", "ret_ty")


def candidates(program, ref_adts):
    out = {}
    for a in program.facts["adts"]:
        p = a["def_path"]
        if ref_adts is None or p in ref_adts or a.get("kind") != "struct" or "::tests::" in p:
            continue
        if (a.get("vis") or "").startswith("Public"):
            continue
        vs = a.get("variants") or []
        if len(vs) != 1 or not vs[0]["fields"] or any(f["name"].isdigit() for f in vs[0]["fields"]):
            continue
        shown = p[len("crate::"):] if p.startswith("crate::") else p
        fields = [(f["name"], f["ty"]) for f in vs[0]["fields"]]
        # type parameters (other than lifetimes) would need substitution: not followed
        # a hand-written trait impl (Drop, Default, PartialEq, ...) gives the struct behaviour a tuple does not have
        rx = re.compile(r"(?<![\w:])%s(?:<[^<>]*>)?(?![\w:])" % re.escape(shown))
        if any(rx.search(i.get("self_ty") or "") and i.get("trait") and not i.get("derived") for i in program.facts.get("impls", [])):
            continue
        out[p] = {"shown": shown, "fields": fields,
                  "re": re.compile(r"(?<![\w:])%s(?:<(?:'\w+(?:, )?)*>)?(?![\w:])" % re.escape(shown))}
    return out


def _tuple_ty(c):
    if len(c["fields"]) == 1:
        return "(%s,)" % c["fields"][0][1]
    return "(%s)" % ", ".join(t for _, t in c["fields"])


def _is_s(ty, c):
    t = (ty or "")
    while t.startswith("&"):
        t = t[1:]
        if t.startswith("mut "):
            t = t[4:]
        t = re.sub(r"^'\w+ ", "", t)
    return bool(c["re"].fullmatch(t))


def _rewrite_struct_uses(body, cands):
    """Steps 1-4 of the module comment on one body; returns the number of rewritten nodes or None if a use cannot be followed."""
    n_done = 0
    for d in list(_dicts([body["tree"], body.get("params", [])])):
        # struct literal
        if d.get("k") == "struct" and (d.get("res") or {}).get("path") in cands:
            c = cands[d["res"]["path"]]
            if d.get("base") is not None:
                return None
            by = {f["name"]: f["e"] for f in d["fields"]}
            if set(by) != {n for n, _ in c["fields"]}:
                return None
            d["k"] = "tuple"
            d["es"] = [by[n] for n, _ in c["fields"]]
            d.pop("fields")
            d.pop("res")
            d["was_struct"] = c["shown"]
            n_done += 1
        # struct pattern
        elif d.get("p") == "struct" and (d.get("res") or {}).get("path") in cands:
            c = cands[d["res"]["path"]]
            by = {f["name"]: f["pat"] for f in d["fields"]}
            d["p"] = "tuple"
            d["pats"] = [by.get(n) or {"p": "wild", "ty": t} for n, t in c["fields"]]
            d.pop("fields")
            d.pop("res")
            n_done += 1
        # field projection
        elif d.get("k") == "field" and not d["name"].isdigit():
            bty = d["base"].get("aty") or d["base"].get("ty")
            for c in cands.values():
                names = [n for n, _ in c["fields"]]
                if d["name"] in names and (_is_s(bty, c) or _is_s(d["base"].get("ty"), c)):
                    d["was_field"] = d["name"]
                    d["name"] = str(names.index(d["name"]))
                    n_done += 1
                    break
        # Default::default() of the struct
        elif d.get("k") == "call" and not d.get("args") and (T.callee(d) or "").endswith("Default>::default"):
            for c in cands.values():
                if _is_s(d.get("ty"), c):
                    f = d["f"]
                    es = []
                    for n, t in c["fields"]:
                        t_ = re.sub(r"'\w+", "'_", t)
                        if t_ in ("usize", "u8", "u16", "u32", "u64", "u128", "isize", "i8", "i16", "i32", "i64", "i128"):
                            es.append({"k": "lit", "id": d.get("id"), "ty": t_, "sp": d.get("sp"), "lk": "int", "v": [0]})
                            continue
                        if t_ == "bool":
                            es.append({"k": "lit", "id": d.get("id"), "ty": t_, "sp": d.get("sp"), "lk": "bool", "v": [False]})
                            continue
                        f2 = copy.deepcopy(f)
                        f2["generics"] = [t_]
                        f2["resolved"] = "<%s as std::default::Default>::default" % t_
                        f2["ty"] = "fn() -> %s {<%s as std::default::Default>::default}" % (t_, t_)
                        es.append({"k": "call", "id": d.get("id"), "ty": t_, "sp": d.get("sp"), "f": f2, "args": []})
                    keep = {k: d[k] for k in ("id", "ty", "sp", "adj", "aty") if k in d}
                    d.clear()
                    d.update(keep)
                    d["k"] = "tuple"
                    d["es"] = es
                    d["was_struct"] = c["shown"]
                    n_done += 1
                    break
    return n_done


def _retype(body, cands):
    for d in _dicts(body):
        for k in TYPE_KEYS:
            v = d.get(k)
            if isinstance(v, str):
                for c in cands.values():
                    if c["re"].search(v):
                        v = c["re"].sub(lambda m, c=c: _tuple_ty(c), v)
                d[k] = v
        g = d.get("generics")
        if isinstance(g, list):
            for i, v in enumerate(g):
                if isinstance(v, str):
                    for c in cands.values():
                        if c["re"].search(v):
                            g[i] = c["re"].sub(lambda m, c=c: _tuple_ty(c), g[i])


def _binder_pats(body):
    """(holder dict, key) of every pattern position in the body, so that a `bind` pattern can be replaced in place."""
    for p in body.get("params", []):
        yield p["pat"]
    for n in T.nodes(body["tree"]):
        for p in _pats_of(n):
            yield p


def _split_locals(body, cands):
    """Scalar replacement of locals whose type is a destructured struct."""
    tys = {_tuple_ty(c): c for c in cands.values()}
    norm = lambda t: re.sub(r"'\w+", "'_", t or "")
    tys = {norm(k): c for k, c in tys.items()}
    binds = {}
    for p in _binder_pats(body):
        for x in T.pat_nodes(p):
            if x.get("p") == "bind" and norm(x.get("ty")) in tys and x.get("sub") is None and "Ref" not in x.get("mode", "").split(",")[0]:
                binds[x["id"]] = x
    if not binds:
        return 0
    uses = {i: [] for i in binds}
    ok = {i: True for i in binds}
    for n, parents in T.walk(body["tree"]):
        if n.get("k") == "path" and (n.get("res") or {}).get("r") == "local" and n["res"].get("id") in binds:
            i = n["res"]["id"]
            par = parents[-1] if parents else None
            if par is not None and par.get("k") == "field" and par.get("base") is n and par["name"].isdigit():
                uses[i].append(("proj", n, par))
            elif n.get("adj") or (par is not None and par.get("k") in ("addr_of", "assign", "assign_op") and (par.get("e") is n or par.get("l") is n)):
                ok[i] = False
            else:
                uses[i].append(("whole", n, par))
    nid = _max_id(body["tree"])
    for p in body.get("params", []):
        for x in T.pat_nodes(p["pat"]):
            if isinstance(x.get("id"), int):
                nid = max(nid, x["id"])
    taken = set()
    for p in _binder_pats(body):
        for x in T.pat_nodes(p):
            if x.get("p") == "bind":
                taken.add(x["name"])
    done = 0
    for i, b in binds.items():
        if not ok[i]:
            continue
        c = tys[norm(b["ty"])]
        parts = []
        for fname, fty in c["fields"]:
            nid += 1
            nm = fname if fname not in taken else "%s_%s" % (b["name"], fname)
            taken.add(nm)
            parts.append({"p": "bind", "ty": re.sub(r"'\w+", "'_", fty), "id": nid, "name": nm, "mode": b.get("mode", "BindingMode(No, Not)")})
        for kind, n, par in uses[i]:
            if kind == "proj":
                part = parts[int(par["name"])]
                keep = {k: par[k] for k in ("id", "ty", "sp", "adj", "aty", "exp") if k in par}
                par.clear()
                par.update(keep)
                par["k"] = "path"
                par["res"] = {"r": "local", "id": part["id"], "name": part["name"]}
            else:
                keep = {k: n[k] for k in ("id", "ty", "sp") if k in n}
                n.clear()
                n.update(keep)
                n["k"] = "tuple"
                n["es"] = [{"k": "path", "id": keep.get("id"), "ty": q["ty"], "sp": keep.get("sp"), "res": {"r": "local", "id": q["id"], "name": q["name"]}} for q in parts]
        ty = b.get("ty")
        b.clear()
        b.update({"p": "tuple", "ty": ty, "pats": parts})
        done += 1
    return done


def _fold_trailing_updates(body):
    """`x = e; y += d; (a, x, b, y)` at the end of a block  ->  `(a, e, b, y + d)` when x / y are not read by the later
    trailing statements (the functional spelling of an accumulator that is updated in place)."""
    done = 0
    for blk in T.nodes(body["tree"], "block"):
        tail = T.peel(blk["tail"]) if blk.get("tail") is not None else None
        if tail is None or tail.get("k") != "tuple" or not tail.get("es"):
            continue
        slot = {}
        for k, e in enumerate(tail["es"]):
            e_ = T.peel(e)
            if e_.get("k") == "path" and (e_.get("res") or {}).get("r") == "local" and not e_.get("adj"):
                slot.setdefault(e_["res"]["id"], []).append(k)
        stmts = blk.get("stmts", [])
        while stmts:
            st = stmts[-1]
            e = T.peel(st["e"]) if st.get("k") == "expr" else None
            if e is None or e.get("k") not in ("assign", "assign_op"):
                break
            lid = T.local_of(e["l"]) if T.peel(e["l"]).get("k") == "path" else None
            if lid is None or len(slot.get(lid, [])) != 1:
                break
            k = slot[lid][0]
            cur = T.peel(tail["es"][k])
            if not (cur.get("k") == "path" and T.local_of(cur) == lid):
                break
            # the assigned local must not be read by the value expressions already folded into the tuple
            if any(T.local_of(x) == lid for j, te in enumerate(tail["es"]) if j != k for x in T.nodes(te) if x.get("k") == "path"):
                break
            if e["k"] == "assign":
                tail["es"][k] = e["r"]
            else:
                op = e["op"].rstrip("=") if e["op"].endswith("=") and len(e["op"]) > 1 else e["op"]
                tail["es"][k] = {"k": "binary", "id": e.get("id"), "ty": cur.get("ty"), "sp": e.get("sp"), "op": op, "l": tail["es"][k], "r": e["r"]}
            stmts.pop()
            done += 1
    return done


def _forward_single_use_literals(body):
    """`let v = (lit-ish tuple); ... f(v)` with v immutable, used exactly once, in the same block's later statements / tail:
    the tuple is written where it is used (only for tuples that came from a struct literal of a destructured type and whose
    components are side-effect free)."""
    done = 0
    for blk in T.nodes(body["tree"], "block"):
        keep = []
        stmts = blk.get("stmts", [])
        for si, st in enumerate(stmts):
            if st.get("k") == "let" and st.get("init") is not None and st["pat"].get("p") == "bind" and "Mut" not in st["pat"].get("mode", "") \
                    and st.get("els") is None and T.peel(st["init"]).get("was_struct") and _pure(T.peel(st["init"])):
                lid = st["pat"]["id"]
                rest = stmts[si + 1:] + ([blk["tail"]] if blk.get("tail") is not None else [])
                us = [x for r in rest for x in T.nodes(r) if x.get("k") == "path" and T.local_of(x) == lid]
                if len(us) == 1 and not us[0].get("adj"):
                    init = T.peel(st["init"])
                    u = us[0]
                    u.clear()
                    u.update(init)
                    done += 1
                    continue
            keep.append(st)
        blk["stmts"] = keep
    return done


def _pure(e):
    for n in T.nodes(e):
        k = n.get("k")
        if k in ("lit", "tuple", "path", "struct", "unary", "binary", "cast", "addr_of", "field", "macro_vec"):
            continue
        if k == "call":
            c = T.callee(n) or ""
            if not n.get("args") and (c.endswith("Vec::<T>::new") or c.endswith("::new") and "Vec" in c or c.endswith("Default>::default") or c.endswith("String::new")):
                continue
            if (n["f"].get("res") or {}).get("dk") in ("Ctor", "Variant") or "Ctor" in str((n["f"].get("res") or {}).get("dk")):
                continue
            return False
        if k in ("blockexpr", "block", "expr"):
            continue
        return False
    return True


def destructure(program, ref_adts):
    """Rewrite every user body of the program; returns {struct path: count of rewritten bodies} for the evidence."""
    cands = candidates(program, ref_adts)
    if not cands:
        return {}
    # a struct is followed only if every one of its uses can be rewritten
    bodies = [b for b in program.facts["bodies"] if not b.get("exp")]
    shadow = [copy.deepcopy(b) for b in bodies]
    report = {}
    for nb in shadow:
        r = _rewrite_struct_uses(nb, cands)
        if r is None:
            return {}
        if r:
            report[nb["def_path"]] = r
    if not report:
        return {}
    # a new constant of such a type is its initialiser
    consts = {}
    for nb in shadow:
        if (nb.get("kind") or "").startswith(("Const", "AssocConst")) and nb["def_path"] in report:
            t = T.peel(nb["tree"])
            if t.get("was_struct") and _pure(t):
                consts[nb["def_path"]] = t
    if consts:
        for nb in shadow:
            for n in T.nodes(nb["tree"]):
                if n.get("k") == "path" and (n.get("res") or {}).get("r") == "def" and n["res"].get("path") in consts and not n.get("adj"):
                    init = copy.deepcopy(consts[n["res"]["path"]])
                    n.clear()
                    n.update(init)
                    report.setdefault(nb["def_path"], 0)
    for b, nb in zip(bodies, shadow):
        _retype(nb, cands)
        if nb["def_path"] in report:
            _forward_single_use_literals(nb)
            _split_locals(nb, cands)
            _fold_trailing_updates(nb)
        b.clear()
        b.update(nb)
    return {c["shown"]: sorted(T.short_path(d) for d in report) for c in cands.values()}
