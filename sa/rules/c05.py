"""C05 - expiry decision: complete decision table of TimeLimitedEvaluator::is_removal + wiring."""
import re

from .. import absint as A
from .. import dt
from .. import tree as T
from ..report import Finding
from . import fshort
from . import common

LEVEL = "proof"


def _one_call(term):
    """`f(..)` and nothing behind the closing parenthesis of that call"""
    i = term.find("(")
    depth = 0
    for j in range(i, len(term)):
        depth += term[j] == "("
        depth -= term[j] == ")"
        if depth == 0:
            return j == len(term) - 1
    return False


def expand_format(fmt):
    return fmt.replace("%F", "%Y-%m-%d").replace("%T", "%H:%M:%S")


def run(ctx, res):
    P = ctx.lib
    kw = ctx.spec("keywords.json")
    res.explanation = (
        "DT: the complete truth table of TimeLimitedEvaluator::is_removal over the atoms {`to` attribute found, value "
        "present, parse ok, ordering(current, expires) in <,=,>} is extracted by abstract interpretation of the body "
        "(every path, no sampling) and compared row by row with `ready <=> found & value & ok & ordering != '<'`; "
        "wiring rules pin the parsed string (value ++ ' ' ++ offset), the format, the parser and the compared operands; "
        "registry/CLI wiring connects the evaluator's fields to the configuration.")
    res.trusted += ["chrono: DateTime::<FixedOffset>::parse_from_str rejects malformed input; DateTime ordering is by instant",
                    "driver fact extraction and the abstract interpreter (DT subset; unsupported constructs fail closed)"]
    b = P.fn("TimeLimitedEvaluator::is_removal")
    fn = fshort(b)
    loc = T.loc(b["tree"])
    io = (b.get("impl_of") or {})
    if not (io.get("trait") or "").endswith("RemovalEvaluator"):
        res.cannot("C05.R1", fn, "impl-header", "is_removal is not the RemovalEvaluator impl", loc)
        return
    I = A.Interp(P)
    try:
        outs = I.explore(lambda J: A.Lit(J.truth(J.call_fn_body(b, [A.Sym("self"), A.Sym("el")]))))
    except A.Cannot as e:
        res.cannot("C05.R1", fn, "body", str(e), loc)
        return

    found_re = re.compile(r"^is_some\((find\(el\.attrs\.iter\(\), \{eq\(\$e\.name, '([^']*)'\)\}\))\)$")
    state = {"found_term": None, "kw": None, "parse_term": None}

    def classify(k, v):
        m = found_re.match(k)
        if m:
            state["found_term"] = m.group(1)
            state["kw"] = m.group(2)
            return ("found", v)
        ft = state["found_term"]
        if ft and k == "is_some(%s.some.value)" % ft:
            return ("value", v)
        m = re.match(r"^is_ok\((chrono::DateTime::parse_from_str\(.*\))\)$", k)
        if m and _one_call(m.group(1)):
            # (exactly one call of the parser: `parse_from_str(..).or_else(|_| another parse)` is another decision)
            state["parse_term"] = m.group(1)
            return ("ok", v)
        pt = state["parse_term"]
        if pt:
            # ord(a, b): value is the ordering of a relative to b; normalise to ordering of current vs expires
            if k == "ord(%s.ok, self.current_time)" % pt:
                return ("ord", {"<": ">", "=": "=", ">": "<"}[v])
            if k == "ord(self.current_time, %s.ok)" % pt:
                return ("ord", v)
        return None

    domains = {"found": [True, False], "value": [True, False], "ok": [True, False], "ord": ["<", "=", ">"]}

    def spec(row):
        return bool(row["found"] and row["value"] and row["ok"] and row["ord"] in ("=", ">"))

    rows, bad = dt.compare(res, "C05.R1", fn, outs, classify, domains, spec, dt.as_bool, loc=loc, what="ready")
    res.obligations += rows
    res.discharged += rows - bad
    res.extra["table_rows"] = rows
    res.extra["paths"] = len(outs)
    res.extra["exhaustive"] = True
    for o in outs[:6]:
        res.samples.append({"decisions": {k: str(v) for k, v in o["decisions"].items()}, "ready": dt.as_bool(o)})

    # monotonicity in the current time, read off the extracted table
    res.obligations += 1
    mono_ok = True
    for fo in (True, False):
        for va in (True, False):
            for ok in (True, False):
                seq = []
                for o_ in ("<", "=", ">"):
                    hits = [o for o in outs if _consistent(o, classify, {"found": fo, "value": va, "ok": ok, "ord": o_})]
                    seq.append(dt.as_bool(hits[0]) if hits else None)
                if seq != sorted(seq, key=lambda x: (x is True)):
                    mono_ok = False
    if mono_ok:
        res.discharged += 1
        res.holds("C05.R1m", fn, "monotone-in-current-time")
    else:
        res.add(Finding("C05.R1m", fn, "monotone-in-current-time", "readiness is not monotone in the current instant", loc=loc))

    # R3: attribute keyword
    res.obligations += 1
    if state["kw"] == kw["time_limited_attr"]:
        res.discharged += 1
        res.holds("C05.R3", fn, "attr-keyword", "lookup is find(|a| a.name == %r)" % state["kw"])
    else:
        res.add(Finding("C05.R3", fn, "attr-keyword", "the expiry attribute is looked up as %r, the documented keyword is %r"
                        % (state["kw"], kw["time_limited_attr"]), loc=loc))

    # R2: wiring of the parse call (taken from the path on which it is reached)
    calls = [e for o in outs for e in o["effects"] if e[0] == "call" and e[1].endswith("parse_from_str")]
    res.obligations += 4
    if not calls:
        res.cannot("C05.R2", fn, "parse-call", "no call to a parse_from_str found on any path", loc)
    else:
        e = calls[0]
        node = e[3]
        arg0, fmt = e[2][0], e[2][1]
        cl = T.loc(node)
        ft = state["found_term"]
        want = ["%s.some.value.some" % ft, "' '", "self.time_offset"]
        got = [A.show(p) for p in arg0.parts] if isinstance(arg0, A.StrCat) else [A.show(arg0)]
        if got == want:
            res.discharged += 1
            res.holds("C05.R2", fn, "parsed-string", "concat(value, ' ', self.time_offset)")
        else:
            res.add(Finding("C05.R2", fn, "parsed-string", "the parsed string is %s; the property requires the `to` value, one space, "
                            "then the configured offset string" % got, loc=cl))
        if isinstance(fmt, A.Lit) and expand_format(fmt.v) == kw["date_format"]:
            res.discharged += 1
            res.holds("C05.R2", fn, "format", fmt.v)
        else:
            res.add(Finding("C05.R2", fn, "format", "format string is %s, not (an equivalent of) %r" % (A.show(fmt), kw["date_format"]), loc=cl))
        cn = T.cname(node)
        if cn == "chrono::DateTime::parse_from_str" and "chrono::DateTime<chrono::FixedOffset>" in node.get("ty", ""):
            res.discharged += 1
            res.holds("C05.R2", fn, "parser", cn)
        else:
            res.add(Finding("C05.R2", fn, "parser", "the value is parsed with %s -> %s; an offset-aware instant "
                            "(chrono::DateTime::<FixedOffset>::parse_from_str) is required" % (cn, node.get("ty")), loc=cl))
        # compared operands: exactly self.current_time and the parsed instant (checked by the ord atom classification)
        ords = {k for o in outs for k in o["decisions"] if k.startswith("ord(")}
        if len(ords) == 1 and classify(next(iter(ords)), "<") is not None:
            res.discharged += 1
            res.holds("C05.R2", fn, "compared-operands", next(iter(ords)))
        else:
            res.add(Finding("C05.R2", fn, "compared-operands", "comparison is not between self.current_time and the parsed instant: %s" % sorted(ords), loc=loc))

        # R5: "unparseable" is what the parser rejects.  chrono's format-driven parser (read in its source, 0.4.38:
        # format/parse.rs) lets a blank of the format match any run of white space including none, and lets every numeric field
        # skip leading white space and take fewer digits than its width.  With the raw attribute text handed over unchecked,
        # `2024-01-01\t00:00:00`, `2024-01-0100:00:00` or `2024-1-1 0:0:0` are therefore read as instants although they are not
        # of the documented shape.  Reported unless the value (not the concatenation) is examined by anything but the parser.
        shape_atoms = [k for o in outs for k in o["decisions"] if "%s.some.value.some" % ft in k and "parse_from_str" not in k and not k.startswith("is_some(")]
        if got == want and not shape_atoms:
            res.add(Finding("C05.R5", fn, "shape-unchecked", "the `to` value reaches chrono's white-space-lenient parser without a check of its shape: values that "
                            "separate date and time by a tab, a line break, several blanks or nothing, or that shorten fields, are read as instants "
                            "and make the element ready", loc=cl))
        elif got == want:
            res.holds("C05.R5", fn, "shape-unchecked", "the value is examined before it is parsed: %s" % shape_atoms[:2])

    # R4: registry + CLI wiring (shared with C03.R5 / C20.R1)
    n0 = len(res.findings)
    k = common.registry_wiring(ctx, res, "C05.R4", only="time_limited")
    k += common.cli_config_wiring(ctx, res, "C05.R4", only=("time_offset", "current"))
    res.obligations += k
    res.discharged += k - (len(res.findings) - n0)


def _consistent(o, classify, row):
    for k, v in o["decisions"].items():
        c = classify(k, v)
        if c is None:
            return False
        if row[c[0]] != c[1]:
            return False
    return True
