"""C06 - marker and skip decision: decision tables, name-comparison discipline, CLI target default."""
import re

from .. import absint as A
from .. import dt
from .. import tree as T
from ..report import Finding
from . import fshort
from . import common

LEVEL = "proof"

BANNED = {"contains", "starts_with", "ends_with", "eq_ignore_ascii_case", "to_lowercase", "to_uppercase",
          "to_ascii_lowercase", "to_ascii_uppercase", "trim", "trim_start", "trim_end", "trim_matches",
          "trim_start_matches", "trim_end_matches", "strip_prefix", "strip_suffix", "find", "rfind", "matches",
          "split", "split_whitespace", "chars", "bytes", "get", "len", "is_empty", "cmp", "partial_cmp",
          "lt", "le", "gt", "ge", "as_bytes", "replace", "repeat"}
PASS_THROUGH = {"unwrap", "expect", "unwrap_or", "unwrap_or_default", "and_then", "map", "is_some", "is_none", "clone",
                "to_string", "to_owned", "as_ref", "as_deref", "copied", "cloned", "into", "borrow", "deref", "as_str"}


def name_uses(P, floor_fns=None):
    """Classify every use of Element.name / Attribute.name / Attribute.value in user code.
    Yields (body, node, class, detail)."""
    uni = P.entry_universe()
    for b in P.user_bodies():
        if b["kind"] not in ("Fn", "AssocFn"):
            continue
        if uni is not None and b["def_path"] not in uni:
            continue          # not reachable from clean / list / list_all
        locals_alias = {}
        for n, parents in T.walk(b["tree"]):
            if n.get("k") != "field" or n["name"] not in ("name", "value"):
                continue
            bty = (n["base"].get("aty") or n["base"].get("ty") or "").lstrip("&").replace("mut ", "")
            bty = T.strip_generics(bty)
            if not (bty.endswith("element_parser::Element") or bty.endswith("element_parser::Attribute")):
                continue
            for tup in _classify_use(b, n, parents, 0):
                yield tup + (n["name"],)


def _classify_use(b, n, parents, depth):
    # climb over wrappers
    i = len(parents) - 1
    cur = n
    while i >= 0:
        p = parents[i]
        k = p.get("k")
        if k in ("addr_of", "cast", "blockexpr", "block", "expr") or (k == "unary" and p.get("op") == "*"):
            cur = p
            i -= 1
            continue
        if k == "mcall" and p["recv"] is cur and p["name"] in PASS_THROUGH:
            cur = p
            i -= 1
            continue
        break
    if i < 0:
        yield (b, n, "pass", "returned")
        return
    p = parents[i]
    k = p.get("k")
    if k is None:
        # arm body / struct field initialiser: the value is passed through unchanged
        yield (b, n, "pass", "moved")
        return
    if k == "binary" and p["op"] in ("==", "!="):
        yield (b, n, "eq", T.render(p))
        return
    if k == "mcall":
        cn = T.cname(p) or ""
        if p["recv"] is cur:
            if p["name"] in BANNED:
                yield (b, n, "banned", T.render(p))
            else:
                yield (b, n, "other-method", T.render(p))
            return
        if cn.endswith("HashMap::get") or cn.endswith("HashSet::contains") or cn.endswith("HashMap::contains_key"):
            yield (b, n, "lookup", T.render(p))
            return
        yield (b, n, "arg", T.render(p))
        return
    if k == "call":
        yield (b, n, "arg", T.render(p))
        return
    if k == "let":
        pat = p["pat"]
        if pat["p"] == "bind" and depth < 3:
            # follow the alias
            lid = pat["id"]
            found = False
            for m, par2 in T.walk(b["tree"]):
                if m.get("k") == "path" and m["res"].get("r") == "local" and m["res"]["id"] == lid:
                    found = True
                    yield from _classify_use(b, m, par2, depth + 1)
            if not found:
                yield (b, n, "pass", "unused alias")
            return
        yield (b, n, "pass", "destructured")
        return
    if k in ("struct", "tuple", "ret", "closure", "match", "if", "assign", "array", "break"):
        yield (b, n, "pass", k)
        return
    yield (b, n, "other", k)


def run(ctx, res):
    P = ctx.lib
    kw = ctx.spec("keywords.json")
    res.explanation = (
        "DT: complete truth tables of MarkerEvaluator::is_removal (atoms: name attribute found, value present, member of the "
        "target HashSet<String>) and of is_skip (exists attribute named `skip`), and the skip/unregistered rows of the "
        "per-element ready/pending table of collect_removable_ranges; SQ: every use of a tag/attribute name or value is an "
        "exact comparison, a hash lookup or a pass-through (no substring / case-folding / trimming); the clap argument that "
        "feeds the target set has no default value.")
    res.trusted += ["HashSet<String>::contains is whole-string, case-sensitive membership", "clap derive: arg id = field name; an Append arg without default yields an empty Vec",
                    "driver fact extraction and the abstract interpreter (unsupported constructs fail closed)"]
    # ---- R1
    b = P.fn("MarkerEvaluator::is_removal")
    fn = fshort(b)
    loc = T.loc(b["tree"])
    I = A.Interp(P)
    try:
        outs = I.explore(lambda J: A.Lit(J.truth(J.call_fn_body(b, [A.Sym("self"), A.Sym("el")]))))
    except A.Cannot as e:
        res.cannot("C06.R1", fn, "body", str(e), loc)
        outs = []
    st = {}
    found_re = re.compile(r"^is_some\((find\(el\.attrs\.iter\(\), \{eq\(\$e\.name, '([^']*)'\)\}\))\)$")

    def classify(k, v):
        m = found_re.match(k)
        if m:
            st["ft"], st["kw"] = m.group(1), m.group(2)
            return ("found", v)
        ft = st.get("ft")
        if ft and k == "is_some(%s.some.value)" % ft:
            return ("value", v)
        if ft and k == "contains(self.marker_removal_names, %s.some.value.some)" % ft:
            return ("member", v)
        return None
    if outs:
        rows, bad = dt.compare(res, "C06.R1", fn, outs, classify, {"found": [True, False], "value": [True, False], "member": [True, False]},
                               lambda r: bool(r["found"] and r["value"] and r["member"]), dt.as_bool, loc=loc, what="ready")
        res.obligations += rows + 2
        res.discharged += rows - bad
        if st.get("kw") == kw["marker_attr"]:
            res.discharged += 1
            res.holds("C06.R1", fn, "attr-keyword", st.get("kw"))
        else:
            res.add(Finding("C06.R1", fn, "attr-keyword", "marker name is read from attribute %r, documented keyword is %r" % (st.get("kw"), kw["marker_attr"]), loc=loc))
        adt = [a for p_, a in P.adts.items() if p_.endswith("MarkerEvaluator")]
        fty = adt[0]["variants"][0]["fields"][0]["ty"] if adt else "?"
        if fty == "std::collections::HashSet<std::string::String>":
            res.discharged += 1
            res.holds("C06.R1", fn, "target-set-type", fty)
        else:
            res.add(Finding("C06.R1", fn, "target-set-type", "target names are held in %s; exact whole-string membership is only established for HashSet<String>" % fty, loc=loc))
        for o in outs[:4]:
            res.samples.append({"decisions": {k: str(v) for k, v in o["decisions"].items()}, "ready": dt.as_bool(o)})

    # ---- R2 is_skip
    info = common.element_table(ctx)
    sk = info.get("skip_fn")
    res.obligations += 1
    if sk is None:
        # the predicate was inlined into collect_removable_ranges: it is then one of the atoms of the element table, which
        # is only classified as `skip` if it reads `any(<element>.start_element.attrs.iter(), {eq($e.name, 'skip')})`
        skips = set()
        for o in info.get("outs", []):
            st_ = {}
            for k_, v_ in o["decisions"].items():
                c_ = common.classify_element_atom(k_, v_, st_)
                if c_ and c_[0] == "skip":
                    skips.add(k_)
        want_atom = "any(c.0.start_element.attrs.iter(), {eq($e.name, '%s')})" % kw["skip_attr"]
        if skips == {want_atom} and not info.get("cannot"):
            res.discharged += 1
            res.holds("C06.R2", "code::remover::Remover::collect_removable_ranges", "skip-predicate", want_atom + " (inline)")
        else:
            res.cannot("C06.R2", "remover::is_skip", "anchor", "function is_skip not found, and no inline skip test `%s` in collect_removable_ranges (found %s)" % (want_atom, sorted(skips)))
    else:
        I2 = A.Interp(P)
        o2 = I2.explore(lambda J: J.call_fn_body(sk, [A.Sym("el")]))
        got = A.show(o2[0]["value"]) if len(o2) == 1 else "<%d paths>" % len(o2)
        want = "any(el.attrs.iter(), {eq($e.name, '%s')})" % kw["skip_attr"]
        if got == want:
            res.discharged += 1
            res.holds("C06.R2", fshort(sk), "skip-predicate", got)
        else:
            res.add(Finding("C06.R2", fshort(sk), "skip-predicate", "is_skip computes `%s`; the property requires `%s` "
                            "(any attribute, anywhere, whose *name* is the keyword)" % (got, want), loc=T.loc(sk["tree"])))

    # ---- R3 skip wins / unregistered => neither
    rows, bad = common.element_rows(ctx, res, "C06.R3", lambda r: r["elem"] and (r["skip"] or not r["registered"]),
                                    "skip / unregistered elements must be neither ready nor pending and children are still visited")
    res.obligations += rows
    res.discharged += rows - bad
    # the lookup key is the tag name
    # (classification of the `registered` atom already requires get(self.removal_evaluators, c.0.start_element.name))

    # ---- R4 name discipline
    counts = {}
    for (b_, n, cls, detail, origin) in name_uses(P):
        fn_ = fshort(b_)
        counts[cls] = counts.get(cls, 0) + 1
        site = "%s:%s" % (n.get("name") or n["res"]["name"], detail)
        if cls == "banned":
            m = re.search(r"\.(\w+)\((.*)\)$", detail)
            reviewed = fn_.startswith("parser::") and m and m.group(1) in ("starts_with", "trim_start_matches", "strip_prefix") and m.group(2) == repr(kw["closing_prefix"])
            if fn_.endswith("TimeLimitedEvaluator::is_removal") and origin == "value":
                # how the `to` value is read is decided by the C05 table, not by the marker/skip property
                res.holds("C06.R4", fn_, site, "outside C06: the expiry value (C05)")
                continue
            if reviewed:
                counts["closing-prefix"] = counts.get("closing-prefix", 0) + 1
                res.holds("C06.R4", fn_, site, "reviewed: closing-tag prefix operation")
            else:
                res.add(Finding("C06.R4", fn_, site, "a tag/attribute name or value is used through `%s`, which is not an exact "
                                "whole-string, case-sensitive comparison" % detail, loc=T.loc(n)))
        elif cls in ("other", "other-method"):
            res.info.append("C06.R4 unclassified use in %s: %s" % (fn_, detail))
            res.holds("C06.R4", fn_, site, "unclassified (not a banned operation)")
        else:
            res.holds("C06.R4", fn_, site)
    res.floor("C06.R4", "exact comparisons / hash lookups of names", counts.get("eq", 0) + counts.get("lookup", 0), 4)
    res.extra["name_use_classes"] = counts
    res.obligations += sum(counts.values())
    res.discharged += sum(counts.values()) - len([f for f in res.findings if f.rule == "C06.R4"])

    # ---- R5 CLI: the option that feeds the target set has no default
    n0 = len(res.findings)
    k = cli_target_default(ctx, res, "C06.R5")
    res.obligations += k
    res.discharged += k - (len(res.findings) - n0)
    n0 = len(res.findings)
    k = common.registry_wiring(ctx, res, "C06.R6", only="removal_marker")
    res.obligations += k
    res.discharged += k - (len(res.findings) - n0)


def cli_target_default(ctx, res, rule):
    """Which CLI args flow into RemovalMarkerConfiguration.targets, and do any of them carry a default?"""
    b, outs = common.explore_main(ctx)
    fn = "cli::" + fshort(b)
    _, table = common.cli_arg_table(ctx)
    terms = set()
    srcs = set()
    opaque = []
    for o in outs:
        for e in common.entry_calls(o):
            cfg = e[2][2]
            if isinstance(cfg, A.Struct):
                rm = cfg.fields.get("removal_marker_configuration")
                if isinstance(rm, A.Struct):
                    terms.add(A.show(rm.fields.get("targets")))
                    sv = common.collection_sources(rm.fields.get("targets"))
                    if sv is None:
                        opaque.append(A.show(rm.fields.get("targets")))
                    else:
                        srcs |= sv
    if not terms:
        res.cannot(rule, fn, "targets", "cannot find the target set passed to the library")
        return 1
    feeding = set()
    for t in terms:
        feeding |= set(re.findall(r"args\.(\w+)", t))
    n = 0
    allowed = {common.FILE_LINES, "args.removal_marker_target_name"}
    n += 1
    extra = sorted(srcs - allowed) + opaque
    if extra:
        res.add(Finding(rule, fn, "target-set-sources", "the target set has a source other than the config-file lines and the repeated flag: `%s` (with no target option given "
                        "it must be empty)" % extra[0][:200], loc=T.loc(b["tree"])))
    else:
        res.holds(rule, fn, "target-set-sources", "file lines + flag values only")
    for arg in sorted(feeding):
        n += 1
        ent = table.get(arg)
        if ent is None:
            res.cannot(rule, fn, "arg:" + arg, "field args.%s feeds the target set but has no clap Arg" % arg)
            continue
        if arg == "removal_marker_target_config":
            # a file name, Option<String>; a default would name a file, not a target
            if ent["defaults"]:
                res.add(Finding(rule, "cli::Args", "default:" + arg, "--%s has a default %s: the target set would be read from a file nobody named"
                                % (ent["long"], ent["defaults"]), loc=ent["loc"]))
            else:
                res.holds(rule, "cli::Args", "default:" + arg)
            continue
        if ent["defaults"]:
            res.add(Finding(rule, "cli::Args", "default:" + arg,
                            "option --%s feeds the removal target set and has default %s: with no target option given, a marker "
                            "named %r is removed" % ((ent["long"] or ["?"])[0], ent["defaults"], ent["defaults"][0][1]), loc=ent["loc"]))
        else:
            res.holds(rule, "cli::Args", "default:" + arg, "no default")
    return n
