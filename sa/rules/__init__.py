"""One module per claimed property.  Each exposes LEVEL and run(ctx, res)."""
import json
import os

from .. import alpha
from .. import destruct
from .. import foldform
from .. import forward
from .. import inline
from .. import tree as T
from .. import unroll

VERIF = os.path.dirname(os.path.dirname(os.path.dirname(os.path.abspath(__file__))))


class Ctx:
    def __init__(self, facts, tier, repo):
        self.facts = facts
        self.tier = tier
        self.repo = repo
        # renamed private items and locals are mapped back to their reference names before any rule looks at the trees
        # (sa/alpha.py; reference = spec/binders.json)
        ref = alpha.load_reference()
        self.alpha = {}
        for crate in ("lib", "bin"):
            r = ref.get(crate, {})
            if r and not facts[crate].get("_aligned"):
                facts[crate], done = alpha.align_items(facts[crate], r)
                facts[crate]["_aligned"] = done
            for new, old in (facts[crate].get("_aligned") or {}).items():
                self.alpha[("cli::" if crate == "bin" else "") + new] = old
        # the CLI names the library's entry points by the path rustc prints for them; a `pub use` re-export in lib.rs makes that
        # `chiritori::clean` instead of `chiritori::chiritori::clean` - the same function
        if not facts["bin"].get("_entry_paths_done"):
            import json as _json
            import re as _re
            txt = _json.dumps(facts["bin"])
            txt2 = _re.sub(r"(?<![\w:])chiritori::(clean|list|list_all|ChiritoriConfiguration|TimeLimitedConfiguration|RemovalMarkerConfiguration|ListFormat)(?![\w])",
                           r"chiritori::chiritori::\1", txt)
            if txt2 != txt:
                done_ = facts["bin"].get("_aligned")
                facts["bin"] = _json.loads(txt2)
                facts["bin"]["_aligned"] = done_
            facts["bin"]["_entry_paths_done"] = True
        self.lib = T.Program(facts["lib"])
        self.bin = T.Program(facts["bin"])
        for crate, prog in (("lib", self.lib), ("bin", self.bin)):
            rf = ref.get(crate, {}).get("fns")
            prog.new_fns = set() if rf is None else {b["def_path"] for b in prog.user_bodies()
                                                      if b.get("kind") in ("Fn", "AssocFn") and b["def_path"] not in rf and "::tests::" not in b["def_path"]}
        self.inlined = {}
        for crate, prog in (("lib", self.lib), ("bin", self.bin)):
            if not facts[crate].get("_inlined_done"):
                facts[crate]["_consts_read_through"] = inline.inline_new_literal_consts(prog, ref.get(crate, {}).get("fns"))
                facts[crate]["_debug_asserts_stripped"] = inline.strip_debug_assertions(prog)
                facts[crate]["_inlined"] = inline.inline_new_functions(prog)
                facts[crate]["_inlined_away"] = sorted(prog.inlined_away)
                facts[crate]["_inlined_done"] = True
            prog.inlined_away = set(facts[crate].get("_inlined_away") or [])
            for fn, cs in (facts[crate].get("_inlined") or {}).items():
                self.inlined[("cli::" if crate == "bin" else "") + fn] = cs
        # constant-trip loops are written out (sa/unroll.py)
        self.unrolled = {}
        for crate, prog in (("lib", self.lib), ("bin", self.bin)):
            if not facts[crate].get("_unrolled_done"):
                facts[crate]["_unrolled"] = unroll.unroll_program(prog)
                facts[crate]["_unrolled_done"] = True
            self.unrolled.update(facts[crate].get("_unrolled") or {})
        # new private structs that merely name a tuple are read as that tuple (sa/destruct.py)
        self.destructured = {}
        for crate, prog in (("lib", self.lib), ("bin", self.bin)):
            if not facts[crate].get("_destructured_done"):
                facts[crate]["_destructured"] = destruct.destructure(prog, ref.get(crate, {}).get("adts"))
                facts[crate]["_destructured_done"] = True
            self.destructured.update(facts[crate].get("_destructured") or {})
        # a fold written as a loop is read as the fold the reference had (sa/foldform.py)
        self.folded = {}
        for crate, prog in (("lib", self.lib), ("bin", self.bin)):
            if not facts[crate].get("_folded_done"):
                facts[crate]["_folded"] = foldform.fold_program(prog, ref.get(crate, {}).get("binders", {}))
                facts[crate]["_folded_done"] = True
            self.folded.update(facts[crate].get("_folded") or {})
        for crate, prog in (("lib", self.lib), ("bin", self.bin)):
            for fn, m in alpha.normalise_program(prog, ref.get(crate, {}).get("binders", {})).items():
                self.alpha[("cli::" if crate == "bin" else "") + fn] = m
        # new pure locals (a named sub-expression) are read through (sa/forward.py)
        self.forwarded = {}
        for crate, prog in (("lib", self.lib), ("bin", self.bin)):
            if not facts[crate].get("_forwarded_done"):
                facts[crate]["_forwarded"] = forward.forward_program(prog, ref.get(crate, {}).get("binders", {}))
                facts[crate]["_forwarded_done"] = True
            self.forwarded.update(facts[crate].get("_forwarded") or {})

    def spec(self, name):
        with open(os.path.join(VERIF, "spec", name)) as f:
            return json.load(f)


def fshort(body):
    return T.short_path(body["def_path"])


# ------------------------------------------------------------------------------------------------ necessary conditions
# A property's check also evaluates the rules of other properties that are *necessary conditions* of it (a region can
# only be deleted correctly if its element is judged ready correctly, parsed by the tag grammar, tokenised and paired ...).
# They are reported under the depending property as `<P>.D:<rule>`; the reason is part of the message.

DEPENDS = {
    "C02": [("c05", ["C05.R1", "C05.R2", "C05.R3", "C05.R4"], "a region may be deleted only if its element is ready: the expiry decision and the offset it is given"),
            ("c06", ["C06.R1", "C06.R2", "C06.R3"], "a region may be deleted only if its element is ready: marker / skip decision"),
            ("c09", ["C09.R1", "C09.R3"], "readiness is read from attributes: the tag grammar"),
            ("c08", ["C08."], "deleted extents are token boundaries: tag recognition"),
            ("c10", ["C10."], "deleted extents are pairs of tags: pairing"),
            ("c11", ["C11.R1", "C11.R2", "C11.R4"], "the removable extent of an unwrapped element is its four wrapper lines, not more")],
    "C03": [("c05", ["C05.R1", "C05.R2", "C05.R3"], "a ready element must be recognised as ready: the expiry decision"),
            ("c06", ["C06.R1", "C06.R2", "C06.R3"], "a ready element must be recognised as ready: marker / skip decision"),
            ("c09", ["C09.R1", "C09.R3"], "readiness is read from attributes: the tag grammar"),
            ("c08", ["C08."], "a ready element must be tokenised as a tag"),
            ("c10", ["C10."], "a ready element must be paired with its closing tag"),
            ("c15", ["C15.R1"], "every marker that was built is deleted from the text"),
            ("c11", ["C11.R1", "C11.R2"], "a ready unwrap-block is removed: its wrapper lines are found and the pair is built whenever the four line breaks exist")],
    "C04": [("c05", ["C05.R1", "C05.R2", "C05.R3"], "nothing is ready => nothing changes: the expiry decision"),
            ("c06", ["C06.R1", "C06.R2", "C06.R3"], "nothing is ready => nothing changes: marker / skip decision"),
            ("c09", ["C09.R1", "C09.R3"], "malformed / quoted values and unregistered names must not become ready: the tag grammar"),
            ("c02", ["C02.R1"], "nothing but the deletion of ranges touches the text"),
            ("c08", ["C08."], "unterminated tags are text: tag recognition"),
            ("c10", ["C10."], "unclosed elements are not elements: pairing"),
            ("c11", ["C11.R2"], "an unwrap-block that cannot be unwrapped is left alone: the applicability table"),
            ("c20", ["C20.R4", "C20.R5", "C20.R6"], "at the command line: the result is written unmodified, and the input is read before the output is created")],
    "C06": [("c20", ["C20.R2"], "the target set given on the command line reaches the library as given"),
            ("c09", ["C09.R1"], "the `name` value the decision reads is the one the tag grammar delivers")],
    "C08": [("c07", ["C07.R4", "C07.R5"], "the tokens are those of the left-to-right scan")],
    "C09": [("c06", ["C06.R1"], "a quoted value is opaque to the removal decision: the marker name is compared as a whole"),
            ("c05", ["C05.R2"], "a quoted value is opaque to the removal decision: the `to` value is used as a whole"),
            ("c10", ["C10.R5"], "a well-formed tag is parsed whatever its quoted values contain (e.g. the start delimiter)"),
            ("c03", ["C03.R4"], "a quoted value is opaque to the removal decision: the strategy is chosen by attribute *names*")],
    "C11": [("c12", ["C12.R1"], "nothing else is removed: the dedent consumes only blanks in front of the first non-blank"),
            ("c13", ["C13.R7"], "the wrapper lines are found: a non-pausing scan passes everything but a line break and reports that one")],
    "C12": [("c13", ["C13.R7"], "the indentation is measured up to the first non-blank: the scanners pass blanks and report what follows them")],
    "C13": [("c02", ["C02.R4"], "whole lines are deleted and nothing else: the byte tables of the line scanners"),
            ("c02", ["C02.R8", "C02.R9"], "whole lines are deleted: an element's marker covers the element whatever children it absorbed (a marker that shrinks to a child leaves part of a tag line behind)"),
            ("c14", ["C14.R8"], "the seam formatters are asked about the seams: removed positions are shifted by what was removed before")],
    "C14": [("c02", ["C02.R2", "C02.R3", "C02.R8", "C02.R9"], "no retained character is deleted: the markers are disjoint (children absorbed, halves kept apart) and applied back to front"),
            ("c12", ["C12.R4", "C12.R5"], "whitespace changes stay at the borders: head/tail pair indices and sorted block ranges"),
            ("c04", ["C04.R2"], "whitespace changes stay at the borders: formatter ranges exist only at removed positions")],
    "C15": [("c17", ["C17.R1b"], "the Ready items are the same in the plain and in the full listing: the ready list does not depend on the pending flag"),
            ("c16", ["C16.R5"], "highlighted text equal to the text of the region: nothing rewrites or trims the listed text"),
            ("c16", ["C16.R1", "C16.R7", "C16.R9"], "same first and last line numbers: both list forms render the same line map, a line is what ends in '\\n', and the range of a region is (line of its first byte, line of its last byte)"),
            ("c02", ["C02.R8", "C02.R9"], "one Ready item per deleted region: child markers are absorbed into head and tail, the halves kept apart")],
    "C16": [("c20", ["C20.R3"], "at the command line --list-json selects the JSON form for --list and for --list-all")],
    "C17": [("c03", ["C03.R4", "C03.R6"], "pending regions are built by the same strategies as ready ones: first available strategy, extents")],
    "C18": [("c20", ["C20.R1"], "the delimiters given on the command line reach the library as given")],
}


def run_dependencies(ctx, res, prop):
    import importlib
    from .. import absint, report
    from ..report import Finding
    cache = ctx.__dict__.setdefault("_dep_cache", {})
    n = 0
    for modname, rules, why in DEPENDS.get(prop, []):
        if modname not in cache:
            mod = importlib.import_module("sa.rules." + modname)
            r = report.Result(modname.upper(), "other")
            r._no_deps = True
            try:
                mod.run(ctx, r)
            except absint.Cannot as e:
                r.cannot(modname.upper() + ".engine", "-", "cannot-interpret:" + str(e)[:100], str(e))
            except T.AnchorMissing as e:
                r.cannot(modname.upper() + ".anchor", "-", "anchor:" + str(e)[:100], str(e))
            except Exception as e:   # fail closed
                r.cannot(modname.upper() + ".internal", "-", "internal:" + type(e).__name__, repr(e))
            cache[modname] = r
        r = cache[modname]

        def wanted(rule):
            return any(rule == x or rule.startswith(x) for x in rules) or rule.endswith((".engine", ".anchor", ".internal"))
        for f in r.findings:
            if wanted(f.rule):
                res.add(Finding("%s.D:%s" % (prop, f.rule), f.fn, f.site, "[necessary condition - %s] %s" % (why, f.message), loc=f.loc,
                                cannot_analyse=f.cannot_analyse))
        for rule, key, verdict in r.instances:
            if verdict == "HOLDS" and wanted(rule):
                n += 1
        res.holds("%s.D" % prop, "-", "%s:%s" % (modname.upper(), ",".join(rules)), why)
    return n
