"""One module per claimed property.  Each exposes LEVEL and run(ctx, res)."""
import json
import os

from .. import tree as T

VERIF = os.path.dirname(os.path.dirname(os.path.dirname(os.path.abspath(__file__))))


class Ctx:
    def __init__(self, facts, tier, repo):
        self.facts = facts
        self.tier = tier
        self.repo = repo
        self.lib = T.Program(facts["lib"])
        self.bin = T.Program(facts["bin"])

    def spec(self, name):
        with open(os.path.join(VERIF, "spec", name)) as f:
            return json.load(f)


def fshort(body):
    return T.short_path(body["def_path"])
