"""One module per claimed property.  Each exposes LEVEL and run(ctx, res)."""
import json
import os

from .. import alpha
from .. import inline
from .. import tree as T

VERIF = os.path.dirname(os.path.dirname(os.path.dirname(os.path.abspath(__file__))))


class Ctx:
    def __init__(self, facts, tier, repo):
        self.facts = facts
        self.tier = tier
        self.repo = repo
        # renamed private items and locals are mapped back to their reference names before any rule looks at the trees
        # (sa/alpha.py; reference = spec/binders.json)
        ref = alpha.load_reference()
        self.alpha = {}
        for crate in ("lib", "bin"):
            r = ref.get(crate, {})
            if r and not facts[crate].get("_aligned"):
                facts[crate], done = alpha.align_items(facts[crate], r)
                facts[crate]["_aligned"] = done
            for new, old in (facts[crate].get("_aligned") or {}).items():
                self.alpha[("cli::" if crate == "bin" else "") + new] = old
        self.lib = T.Program(facts["lib"])
        self.bin = T.Program(facts["bin"])
        for crate, prog in (("lib", self.lib), ("bin", self.bin)):
            rf = ref.get(crate, {}).get("fns")
            prog.new_fns = set() if rf is None else {b["def_path"] for b in prog.user_bodies()
                                                      if b.get("kind") in ("Fn", "AssocFn") and b["def_path"] not in rf and "::tests::" not in b["def_path"]}
        self.inlined = {}
        for crate, prog in (("lib", self.lib), ("bin", self.bin)):
            if not facts[crate].get("_inlined_done"):
                facts[crate]["_inlined"] = inline.inline_new_functions(prog)
                facts[crate]["_inlined_away"] = sorted(prog.inlined_away)
                facts[crate]["_inlined_done"] = True
            prog.inlined_away = set(facts[crate].get("_inlined_away") or [])
            for fn, cs in (facts[crate].get("_inlined") or {}).items():
                self.inlined[("cli::" if crate == "bin" else "") + fn] = cs
        for crate, prog in (("lib", self.lib), ("bin", self.bin)):
            for fn, m in alpha.normalise_program(prog, ref.get(crate, {}).get("binders", {})).items():
                self.alpha[("cli::" if crate == "bin" else "") + fn] = m

    def spec(self, name):
        with open(os.path.join(VERIF, "spec", name)) as f:
            return json.load(f)


def fshort(body):
    return T.short_path(body["def_path"])
