"""C02 - no over-removal (deletion discipline).  C14 shares R4-R6."""
from . import common, deletion, intervals

LEVEL = "other"


def run(ctx, res):
    res.explanation = (
        "The behaviour `output = input minus ranges; outside ready extents only blanks vanish` is decided through structural "
        "clauses that are each necessary: R1 only replace_range(_, \"\") touches the cleaned text on its data path (clean -> "
        "Remover::remove -> formatter::format); R2 every deletion loop runs back to front; R3 the formatter's range list passes "
        "merge_ranges (sorted insertion of block ranges) and merge_overlapped_ranges before the reverse deletion; R4 composite "
        "byte-class tables of the three scanners and the inline indentation scan, extracted by abstract interpretation over "
        "{' ', '\\t', '\\n', other, out-of-range} x {char boundary} x {pause}: only blanks are skipped when pausing, only a "
        "boundary '\\n' is reported, the cursor moves one byte at a time; R5 every scanner call that feeds a deleted range "
        "passes pause_on_char = true (reviewed exceptions listed); R6 every endpoint returned by a seam formatter is the "
        "seam, a pausing-scanner result or such a position + 1 on a line break, and every dedent range is clamped by "
        "min(_, first non-blank of the line); R7 marker extents are exactly the tag token boundaries and the unwrap pair is "
        "built only under head.end <= tail.start.  R3b/R8 (ordering enumeration: complete tables over the weak orderings of four endpoints) one merge step of merge_overlapped_ranges never covers a position outside the two ranges it combines, sorted or not, and merge_child_markers absorbs every child that overlaps the head/tail and covers an absorbed child entirely.  R3c one step of merge_ranges' backward search stops exactly at an entry that starts before the new range (or at index 0) and the new range is inserted directly behind it: the list stays sorted by start.  Not decided: that merged child "
        "markers stay inside the parent, the exact surviving text.")
    res.trusted += ["String::replace_range(r, \"\") deletes exactly r", "driver fact extraction and the abstract interpreter"]
    deletion.sinks(ctx, res, "C02.R1", "C02.R2")
    deletion.merged_before_delete(ctx, res, "C02.R3")
    intervals.union_rule(ctx, res, "C02.R3b")
    intervals.insertion_rule(ctx, res, "C02.R3c")
    intervals.absorb_rule(ctx, res, "C02.R8")
    intervals.halves_disjoint(ctx, res, "C02.R9")
    deletion.scanner_tables(ctx, res, "C02.R4")
    deletion.pausing_sites(ctx, res, "C02.R5")
    deletion.seam_ranges(ctx, res, "C02.R6")
    deletion.block_ranges(ctx, res, "C02.R6b")
    common.marker_extents(ctx, res, "C02.R7", parts=("range", "unwrap"))
