"""C03 - no under-removal: collection of ready elements is total."""
from .. import tree as T
from . import common, intervals

LEVEL = "other"


def run(ctx, res):
    res.explanation = (
        "DT over the fold closure of collect_removable_ranges: for one symbolic content part every path is enumerated and the "
        "complete table {element?, skip, registered, verdict, collect_pending, strategy built, range empty} -> (items appended "
        "to the ready list, to the pending list, recursion executed, evaluator consulted) is compared with the spec: recursion "
        "into children on every element path, ready children kept (as node children or spliced), ready push <=> not skip & "
        "registered & verdict & built & non-empty.  SQ/DT: first-available strategy selection with a constantly available "
        "fallback; evaluator registry wiring; marker extents are exactly the tag token boundaries.  R7 (ordering enumeration) a child marker absorbed into an unwrap head/tail is covered entirely by the widened marker.  Decides the totality of "
        "collection, not the cursor arithmetic of merge_markers.")
    res.trusted += ["Iterator::find returns the first match; fold visits every element of contents.iter()",
                    "driver fact extraction and the abstract interpreter (unsupported constructs fail closed)"]
    rows, bad = common.element_rows(ctx, res, "C03.R1-3", lambda r: True,
                                    "collection table (recursion / ready children / ready push)")
    res.extra["table_rows"] = rows
    res.floor("C03.R1-3", "rows of the element table (2^7)", rows, 128)
    common.strategy_selection(ctx, res, "C03.R4")
    common.registry_wiring(ctx, res, "C03.R5")
    common.marker_extents(ctx, res, "C03.R6", parts=("range", "unwrap"))
    intervals.absorb_rule(ctx, res, "C03.R7")
    info = common.element_table(ctx)
    for o in info["outs"][:5]:
        res.samples.append({"decisions": {k: str(v) for k, v in o["decisions"].items()}, "observation": repr(common.observe_element(o))[:400]})
