"""C03 - no under-removal: collection of ready elements is total."""
from .. import tree as T
from . import common, intervals

LEVEL = "other"


def run(ctx, res):
    res.explanation = (
        "DT over the fold closure of collect_removable_ranges: for one symbolic content part every path is enumerated and the "
        "complete table {element?, skip, registered, verdict, collect_pending, strategy built, range empty} -> (items appended "
        "to the ready list, to the pending list, recursion executed, evaluator consulted) is compared with the spec: recursion "
        "into children on every element path, ready children kept (as node children or spliced), ready push <=> not skip & "
        "registered & verdict & built & non-empty.  SQ/DT: first-available strategy selection with a constantly available "
        "fallback; evaluator registry wiring; marker extents are exactly the tag token boundaries.  R7 (ordering enumeration) a child marker absorbed into an unwrap head/tail is covered entirely by the widened marker.  R8 (DT) on every path through the fold step of merge_markers the element's own marker reaches the marker list: "
        "once with status None for a plain element; for an unwrapped element either head and tail (with the kept child markers between them) "
        "or one range from the head's start to the tail's end.  Decides the totality of collection, not the cursor arithmetic of merge_markers.")
    res.trusted += ["Iterator::find returns the first match; fold visits every element of contents.iter()",
                    "driver fact extraction and the abstract interpreter (unsupported constructs fail closed)"]
    rows, bad = common.element_rows(ctx, res, "C03.R1-3", lambda r: True,
                                    "collection table (recursion / ready children / ready push)")
    res.extra["table_rows"] = rows
    res.floor("C03.R1-3", "rows of the element table (2^7)", rows, 128)
    common.strategy_selection(ctx, res, "C03.R4")
    common.registry_wiring(ctx, res, "C03.R5")
    common.marker_extents(ctx, res, "C03.R6", parts=("range", "unwrap"))
    intervals.absorb_rule(ctx, res, "C03.R7")
    every_marker_emitted(ctx, res, "C03.R8")
    info = common.element_table(ctx)
    for o in info["outs"][:5]:
        res.samples.append({"decisions": {k: str(v) for k, v in o["decisions"].items()}, "observation": repr(common.observe_element(o))[:400]})


def every_marker_emitted(ctx, res, rule):
    """merge_markers: whatever the child markers are, the element's own marker(s) are appended to the list on every path."""
    from .. import absint as A
    from ..report import Finding
    from . import fshort
    P = ctx.lib
    b = P.fn("Remover::merge_markers")
    fn = fshort(b)
    loc = T.loc(b["tree"])
    folds = [n for n in T.nodes(b["tree"], "mcall") if n["name"] == "fold" and len(n["args"]) == 2 and T.peel(n["args"][1]).get("k") == "closure"]
    fors = [n for n in T.nodes(b["tree"], "for")]
    if len(folds) == 1 and not fors:
        clo = T.peel(folds[0]["args"][1])
        body, accp, itemp = clo["body"], clo["params"][0]["pat"], clo["params"][1]["pat"]
        over = T.render(folds[0]["recv"])
    elif len(fors) == 1 and not folds:
        body, accp, itemp = fors[0]["body"], None, fors[0]["pat"]
        over = T.render(fors[0]["iter"])
    else:
        res.cannot(rule, fn, "traversal", "the traversal of the range trees (fold or for) was not found", loc)
        return
    pname = b["params"][0]["pat"].get("name") if b["params"] else None
    if over in ("%s.into_iter()" % pname, "%s.iter()" % pname, pname, "&%s" % pname) :
        res.holds(rule, fn, "all-trees-traversed", over)
    else:
        res.add(Finding(rule, fn, "all-trees-traversed", "the range trees are traversed through `%s`, not all of `%s` in order: an element's marker is never built" % (over[:80], pname), loc=loc))
    I = A.Interp(P)
    I.lazy_locals = True

    def run_(J):
        env = {}
        if accp is not None:
            J.match_pat(accp, A.Sym("acc"), env)
        J.match_pat(itemp, A.Sym("tree"), env)
        return J.ev(body, env)
    try:
        outs = I.explore(run_)
    except A.Cannot as e:
        res.cannot(rule, fn, "step", str(e), loc)
        return
    HEAD, TAIL = "tree.range.0", "tree.range.1.some"
    n_paths = 0
    bad = {}
    for o in outs:
        if o["exit"] == "panic":
            continue
        n_paths += 1
        paired = o["decisions"].get("is_some(tree.range.1)")
        ev = [(e[0], e[2]) for e in o["effects"] if e[0] in ("push", "extend", "insert", "append") and e[1] not in ("v",)]
        pushes = [(k, v) for k, v in ev if k == "push"]
        shown = [(k, A.show(v)) for k, v in ev]

        def first(v):
            return A.show(v.items[0]) if isinstance(v, A.Tuple) and len(v.items) == 2 else ""

        def second(v):
            return A.show(v.items[1]) if isinstance(v, A.Tuple) and len(v.items) == 2 else ""
        why = None
        if accp is not None and A.show(o["value"]) != "acc":
            why = "the step does not hand the marker list on"
        elif paired is False:
            if not (len(ev) == 1 and len(pushes) == 1 and HEAD in first(pushes[0][1]) and second(pushes[0][1]) == "None"):
                why = "a plain element's marker is not appended exactly once with no pair (appended: %s)" % [s_[:80] for _, s_ in shown]
        elif paired is True:
            f = [first(v) for _, v in pushes]
            fused = len(ev) == 1 and len(pushes) == 1 and ".." in f[0] and HEAD in f[0].split("..")[0] and f[0].split("..")[0].endswith(".start") \
                and TAIL in f[0].split("..")[-1] and f[0].endswith(".end") and second(pushes[0][1]) == "None"
            split = len(pushes) == 2 and len(ev) == 3 and ev[0][0] == "push" and ev[1][0] == "extend" and ev[2][0] == "push" \
                and HEAD in f[0] and TAIL not in f[0] and TAIL in f[1] and HEAD not in f[1] and "merge_markers(tree.children)" in shown[1][1]
            if not (fused or split):
                why = "an unwrapped element contributes neither (head, kept children, tail) nor one range from the head's start to the tail's end (appended: %s)" % [s_[:80] for _, s_ in shown]
        else:
            why = "the step does not distinguish plain and unwrapped elements by `tree.range.1`"
        if why:
            bad.setdefault(why, 0)
            bad[why] += 1
    res.floor(rule, "paths through the fold step of merge_markers", n_paths, 3)
    if bad:
        for why, k in bad.items():
            res.add(Finding(rule, fn, "marker-emitted", "a ready element's marker can be lost while child markers are merged (%d path(s)): %s" % (k, why), loc=loc))
    else:
        res.holds(rule, fn, "marker-emitted", "%d paths: own marker appended on each" % n_paths)
