"""C20 - the CLI is a faithful wrapper: wiring of chiritori-cli's main (which has no tests at all)."""
import re

from .. import absint as A
from .. import tree as T
from ..report import Finding
from . import common, fshort, purity
from . import c06

LEVEL = "other"


DOCUMENTED_ARGS = ("filename", "output", "delimiter_start", "delimiter_end", "time_limited_tag_name", "time_limited_time_offset",
                   "time_limited_current", "removal_marker_tag_name", "removal_marker_target_name", "removal_marker_target_config",
                   "list", "list_all", "list_json")


def _loader_loop_form(P, lb):
    """The explicit-loop spelling of `reader.lines().map_while(Result::ok).collect()`: one `for` over `<BufReader over the
    opened file>.lines()` whose body pushes the Ok payload unchanged onto the (initially empty) returned vector and leaves the
    loop on the first Err; nothing else touches the vector."""
    fors = list(T.nodes(lb["tree"], "for"))
    if len(fors) != 1 or any(n.get("k") == "loop" for n in T.nodes(lb["tree"])):
        return False
    loop = fors[0]
    it = T.peel(loop["iter"])
    if not (it.get("k") == "mcall" and it["name"] == "lines" and not it["args"]):
        return False
    lets = {s_["pat"]["id"]: s_ for s_ in T.nodes(lb["tree"], "let") if s_["pat"]["p"] == "bind" and s_.get("init") is not None}
    rd = lets.get(T.local_of(T.peel_ref(it["recv"])))
    rdi = T.peel(rd["init"]) if rd is not None else T.peel_ref(it["recv"])
    if not (rdi.get("k") == "call" and (T.cname(rdi) or "").endswith("BufReader::new")):
        return False
    blk = T.peel(lb["tree"])
    while blk.get("k") == "blockexpr":
        blk = blk["block"]
    out = T.local_of(T.peel(blk["tail"])) if blk.get("tail") is not None else None
    if out not in lets or T.render(lets[out]["init"]) != "std::vec::Vec::new()":
        return False
    touches = [n for n in T.nodes(lb["tree"], "mcall") if T.local_of(T.peel_ref(n["recv"])) == out]
    if any(not any(x is n for x in T.nodes(loop["body"])) for n in touches) or loop["pat"]["p"] != "bind":
        return False
    vecs = []
    I = A.Interp(P)

    def one_iteration(J):
        vecs.append(A.VecV([]))          # explore() calls this once per path
        return J.ev(loop["body"], {out: vecs[-1], loop["pat"]["id"]: A.Sym("line")})
    try:
        outs = I.explore(one_iteration)
    except A.Cannot:
        return False
    if len(vecs) != len(outs):
        return False
    seen = set()
    for o, vec in zip(outs, vecs):
        okv = o["decisions"].get("is_ok(line)")
        pushed = [A.show(x) for x in vec.items]
        if okv is True and o["exit"] in ("fall", "continue") and pushed == ["line.ok"]:
            seen.add("ok")
        elif okv is False and o["exit"] == "break" and not pushed:
            seen.add("err")
        else:
            return False
    return seen == {"ok", "err"}


def run(ctx, res):
    P = ctx.bin
    kw = ctx.spec("keywords.json")
    eff = ctx.spec("effects.json")
    res.explanation = (
        "FL/DT on chiritori-cli::main (every path of main is enumerated by abstract interpretation over the clap-expanded "
        "program; I/O results are taken on their Ok branch): R1 option -> configuration field table and delimiter order at all "
        "three call sites; R2 target set = collect(chain(lines of the config file, repeated flag values)) into a HashSet with an "
        "untransformed file reader, and no default on the target option; R3 mode dispatch table (list / list_all / clean, "
        "list_json -> JSON); R4 the result is written unmodified (write_all(output.as_bytes()) to File::create(--output) or "
        "print!(\"{}\", output)); R5 every read of the input precedes File::create on every path; R6 the content handed to the "
        "library is exactly what one read_to_string produced; R7 defaults table of the clap arguments; R8 effect whitelist, no "
        "environment reads, no zone-dependent use of the current time.  Not decided: clap's own behaviour, the OS, exit codes on "
        "I/O errors.")
    res.trusted += ["clap derive semantics (arg id = field name; flags; Append)", "std I/O functions do what they document", "driver fact extraction and the abstract interpreter"]
    b, outs = common.explore_main(ctx)
    fn = "cli::" + fshort(b)
    loc = T.loc(b["tree"])
    good = [o for o in outs if o["exit"] != "panic" and len(common.entry_calls(o)) == 1]
    res.extra["main_paths"] = len(outs)
    res.floor("C20", "paths of main that reach a library entry", len(good), 16)
    common.cli_config_wiring(ctx, res, "C20.R1")
    n_ok = {"delims": 0, "targets": 0, "dispatch": 0, "output": 0, "order": 0, "content": 0}
    bad = {}
    for o in good:
        d = o["decisions"]
        call = common.entry_calls(o)[0]
        entry = call[1].split("::")[-1]
        args = call[2]
        label = ",".join("%s=%s" % (k.replace("is_some(args.", "").replace("args.", "").rstrip(")"), int(v)) for k, v in d.items())
        # R1 delimiters
        if A.show(args[1]) == "(args.delimiter_start, args.delimiter_end)":
            n_ok["delims"] += 1
        else:
            bad.setdefault("C20.R1|delimiters:" + entry, "entry `%s` receives delimiters %s, expected (args.delimiter_start, args.delimiter_end)" % (entry, A.show(args[1])))
        # R2 target set
        cfg = args[2]
        tgv = cfg.fields["removal_marker_configuration"].fields.get("targets") if isinstance(cfg, A.Struct) and isinstance(cfg.fields.get("removal_marker_configuration"), A.Struct) else None
        tg = A.show(tgv) if tgv is not None else "?"
        from_file = next((v_ for k_, v_ in d.items() if re.match(r"^is_some\(args\.removal_marker_target_config(?:\.as_deref\(\)|\.as_ref\(\))*\)$", k_)), None)
        want_src = {"args.removal_marker_target_name"} | ({common.FILE_LINES} if from_file else set())
        got_src = common.collection_sources(tgv)
        if got_src == want_src:
            n_ok["targets"] += 1
        else:
            bad.setdefault("C20.R2|target-set:file=%s" % from_file, "the target set is `%s`; expected the file lines (when a config file is given) together with the repeated flag values" % tg)
        # R3 dispatch
        want_entry = "list" if d.get("args.list") else ("list_all" if d.get("args.list_all") else "clean")
        okd = entry == want_entry
        if entry != "clean":
            fmt = A.show(args[3])
            okd = okd and fmt == ("ListFormat::JSON" if d.get("args.list_json") else "ListFormat::PrettyString")
        if okd:
            n_ok["dispatch"] += 1
        else:
            bad.setdefault("C20.R3|dispatch:list=%s,list_all=%s,json=%s" % (d.get("args.list"), d.get("args.list_all"), d.get("args.list_json")),
                           "with list=%s list_all=%s list_json=%s main calls %s%s" % (d.get("args.list"), d.get("args.list_all"), d.get("args.list_json"), entry,
                                                                                      "" if entry == "clean" else " with " + A.show(args[3])))
        # R4 output routing
        result_term = "%s(%s)" % (call[1], ", ".join(A.show(a) for a in args))
        if entry != "clean":
            result_term += ".ok"
        eff_calls = [e for e in o["effects"] if e[0] == "call"]
        names = [e[1] for e in eff_calls]
        if d.get("is_some(args.output)"):
            wr = [e for e in eff_calls if e[1].endswith("Write::write_all")]
            cr = [e for e in eff_calls if e[1].endswith("File::create")]
            okw = (len(wr) == 1 and len(cr) == 1 and A.show(cr[0][2][0]) == "args.output.some" and A.show(wr[0][2][0]).startswith("std::fs::File::create(args.output.some)")
                   and A.show(wr[0][2][1]) == result_term + ".as_bytes()" and not any(nm.endswith("_print") for nm in names))
            if okw:
                n_ok["output"] += 1
            else:
                bad.setdefault("C20.R4|output:file", "with --output the result is not written unmodified by one write_all(output.as_bytes()) to File::create(--output): %s"
                               % [(e[1], [A.show(x)[:60] for x in e[2]]) for e in wr + cr][:3])
        else:
            pr = [e for e in eff_calls if e[1].endswith("_print")]
            printed = [A.show(x) for x in pr[0][2][0].parts] if len(pr) == 1 and isinstance(pr[0][2][0], A.StrCat) else None
            okp = printed == [result_term] and not any(nm.endswith("File::create") for nm in names)
            if okp:
                n_ok["output"] += 1
            else:
                bad.setdefault("C20.R4|output:stdout", "without --output the result is not printed exactly as it is (one print! of the result and nothing else): %s" % [(e[3].get("snip")) for e in pr])
        # R5 read before create
        idx_create = [i for i, e in enumerate(eff_calls) if e[1].endswith("File::create")]
        idx_read = [i for i, e in enumerate(eff_calls) if e[1].endswith("read_to_string") or e[1].endswith("File::open") or e[1].endswith("BufRead::lines")]
        if not idx_create or (idx_read and max(idx_read) < min(idx_create)):
            n_ok["order"] += 1
        else:
            bad.setdefault("C20.R5|read-before-create", "the output file is created before the input has been read on some path (--output naming the input would truncate it)")
        # R6 single content
        ct = A.show(args[0])
        has_file = d.get("is_some(args.filename)")
        want_ct = ("out(std::fs::File::open(args.filename.some).ok.read_to_string(concat()))" if has_file else "out(std::io::stdin().read_to_string(concat()))")
        if ct == want_ct:
            n_ok["content"] += 1
        else:
            bad.setdefault("C20.R6|content:file=%s" % has_file, "the content handed to the library is `%s`, expected exactly what one read_to_string of %s produced"
                           % (ct[:160], "the --filename file" if has_file else "standard input"))
    # R3 as a complete table over (list, list_all, list_json): a flag that is never consulted on a path is a row too
    import itertools
    for li, la, lj in itertools.product([True, False], repeat=3):
        row = {"args.list": li, "args.list_all": la, "args.list_json": lj}
        hits = [o for o in good if all(o["decisions"].get(k, v) == v for k, v in row.items())]
        want_entry = "list" if li else ("list_all" if la else "clean")
        want_fmt = None if want_entry == "clean" else ("ListFormat::JSON" if lj else "ListFormat::PrettyString")
        site = "dispatch-row:list=%d,list_all=%d,json=%d" % (li, la, lj)
        if not hits:
            bad.setdefault("C20.R3|" + site, "no path of main covers this flag combination")
            continue
        for o in hits:
            call = common.entry_calls(o)[0]
            entry = call[1].split("::")[-1]
            fmt = A.show(call[2][3]) if entry != "clean" else None
            if entry != want_entry or fmt != want_fmt:
                bad.setdefault("C20.R3|" + site, "with list=%s list_all=%s list_json=%s main calls %s (%s); expected %s (%s)" % (li, la, lj, entry, fmt, want_entry, want_fmt))
        if ("C20.R3|" + site) not in bad:
            res.holds("C20.R3", fn, site)
    for key, msg in bad.items():
        rule, site = key.split("|", 1)
        res.add(Finding(rule, fn, site, msg, loc=loc))
    for nm, (rule, site) in {"delims": ("C20.R1", "delimiters"), "targets": ("C20.R2", "target-set"), "dispatch": ("C20.R3", "dispatch"),
                             "output": ("C20.R4", "output"), "order": ("C20.R5", "read-before-create"), "content": ("C20.R6", "content")}.items():
        if n_ok[nm] == len(good) and good:
            res.holds(rule, fn, site, "%d paths" % len(good))
    res.samples.append({"path": {k: str(v) for k, v in good[0]["decisions"].items()}, "effects": [e[1] for e in good[0]["effects"] if e[0] == "call"]} if good else {})
    # no-input path: exits without touching anything
    noin = [o for o in outs if o["decisions"].get("is_some(args.filename)") is False and o["decisions"].get("atty::isnt(Stream::Stdin)") is False]
    if noin and all(o["exit"] == "panic" and not any(e[1].endswith("File::create") for e in o["effects"] if e[0] == "call") for o in noin):
        res.holds("C20.R5", fn, "no-input-exits")
    # collect() target type
    # the library's configuration type fixes the container (HashSet<String>): a type error otherwise; what matters here is that the
    # value handed over is one collection built from the two sources (checked above through its sources)
    res.holds("C20.R2", fn, "target-set-type", "RemovalMarkerConfiguration.targets: HashSet<String> (by the library's type)")
    # file reader applies no transformation
    lb = P.fn("load_removal_marker_target_names", required=False)
    if lb is None:
        # the reader is written in place in main: the target-set rule above accepted it only in the spelling
        # BufReader::new(File::open(<config>)).lines().map_while(Result::ok)
        res.holds("C20.R2", fn, "file-reader", "in place: lines().map_while(Result::ok)")
    else:
        try:
            lo = A.Interp(P, assume_ok=True).explore(lambda J: J.call_fn_body(lb, [A.Sym("filename")]))
            lt = A.show(lo[0]["value"]) if len(lo) == 1 else "?"
        except A.Cannot as e:
            lt = "? (%s)" % e
        if lt in ("std::io::BufReader::new(std::fs::File::open(filename).ok).lines().map_while(fn std::result::Result::ok).collect()",
                  # the same prefix of Ok lines, spelled with take_while + unwrap
                  "std::io::BufReader::new(std::fs::File::open(filename).ok).lines().take_while(fn std::result::Result::is_ok).map(fn std::result::Result::unwrap).collect()"):
            res.holds("C20.R2", fshort(lb), "file-reader", "lines().map_while(Result::ok).collect()")
        elif _loader_loop_form(P, lb):
            res.holds("C20.R2", fshort(lb), "file-reader", "for line in reader.lines(): Ok(name) => push(name), Err => break")
        else:
            res.add(Finding("C20.R2", fshort(lb), "file-reader", "the target config reader is `%s`; one name per line requires exactly lines() with no transformation" % lt[:200], loc=T.loc(lb["tree"])))
    c06.cli_target_default(ctx, res, "C20.R2b")
    # R7 defaults table
    _, table = common.cli_arg_table(ctx)
    want = kw["cli_defaults"]
    for arg, ent in sorted(table.items()):
        if arg in want:
            if ent["defaults"] == [("default_value", want[arg])]:
                res.holds("C20.R7", "cli::Args", "default:" + arg, repr(want[arg]))
            else:
                res.add(Finding("C20.R7", "cli::Args", "default:" + arg, "--%s has default %s, the documented default is %r" % ((ent["long"] or [arg])[0], ent["defaults"], want[arg]), loc=ent["loc"]))
        elif arg in DOCUMENTED_ARGS:
            if ent["defaults"]:
                res.add(Finding("C20.R7", "cli::Args", "default:" + arg, "--%s has a default %s although none is documented: option defaults must contribute no behaviour" % ((ent["long"] or [arg])[0], ent["defaults"]), loc=ent["loc"]))
            else:
                res.holds("C20.R7", "cli::Args", "default:" + arg, "none")
        else:
            # an option the documentation of the property does not know (added later): what it may influence is decided by the
            # wiring rules R1-R6 (the values handed to the library) - its mere existence changes nothing
            res.info.append("C20.R7: option --%s is not one of the documented options (default %s)" % ((ent["long"] or [arg])[0], ent["defaults"]))
    res.floor("C20.R7", "documented clap arguments", len([a_ for a_ in table if a_ in DOCUMENTED_ARGS]), 13)
    # long option names (documented spellings)
    for arg, ent in sorted(table.items()):
        if ent["long"] and set(ent["long"]) != {arg.replace("_", "-")}:
            res.add(Finding("C20.R7", "cli::Args", "long:" + arg, "long option spelling %s differs from the field name" % ent["long"], loc=ent["loc"]))
    # R9 clap settings: an option value must reach the configuration exactly as typed, one value per occurrence - any Arg
    # setting beyond naming, help, default, arity-0/1 action and the identity value parser changes how values are read
    # (value_delimiter splits at commas, env reads the environment, num_args / value_terminator change grouping,
    # ignore_case / default_missing_value / allow_hyphen_values / require_equals change what is accepted)
    benign = {"action", "value_parser", "value_name", "long", "short", "long_help", "help", "required", "default_value", "id",
              "help_heading", "display_order", "hide", "next_line_help", "visible_alias", "visible_short_alias", "alias", "aliases",
              "visible_aliases", "short_alias", "hide_default_value", "hide_possible_values", "hide_short_help", "hide_long_help"}
    n9 = 0
    for arg, ent in sorted(table.items()):
        if arg not in DOCUMENTED_ARGS:
            continue
        extra = sorted(set(ent["methods"]) - benign)
        n9 += 1
        if extra:
            res.add(Finding("C20.R9", "cli::Args", "settings:" + arg, "--%s carries clap setting(s) %s: the value would no longer reach the library exactly as "
                            "typed, one value per occurrence of the option" % ((ent["long"] or [arg])[0], extra), loc=ent["loc"]))
        else:
            res.holds("C20.R9", "cli::Args", "settings:" + arg, ",".join(sorted(set(ent["methods"]))))
        want_action = "Append" if arg == "removal_marker_target_name" else ("SetTrue" if arg in ("list", "list_all", "list_json") else "Set")
        if ent["action"] != want_action:
            res.add(Finding("C20.R9", "cli::Args", "action:" + arg, "--%s has clap action %s, expected %s" % ((ent["long"] or [arg])[0], ent["action"], want_action), loc=ent["loc"]))
        else:
            res.holds("C20.R9", "cli::Args", "action:" + arg, want_action)
    res.floor("C20.R9", "clap arguments with their settings", n9, 13)
    # R8 effects
    wl = set(eff["main_effect_whitelist"])
    user = [x for x in P.user_bodies() if x["kind"] in ("Fn", "AssocFn")]
    for (bd, node, kind, what) in purity.effect_sites(P, user, eff):
        site = "%s:%s" % (kind, what)
        if kind == "effect" and what in wl:
            res.holds("C20.R8", "cli::" + fshort(bd), site)
        else:
            res.add(Finding("C20.R8", "cli::" + fshort(bd), site, "the CLI uses %s `%s`, which is outside the reviewed effect whitelist (environment / extra I/O would influence the result)" % (kind, what), loc=T.loc(node)))
    # zone-dependent methods on the current time, in either crate
    for prog, pre in ((ctx.lib, ""), (ctx.bin, "cli::")):
        for bd in prog.user_bodies():
            if bd["kind"] not in ("Fn", "AssocFn"):
                continue
            for n in T.nodes(bd["tree"], "mcall"):
                rty = (n["recv"].get("ty") or "") + (n["recv"].get("aty") or "")
                if "chrono::DateTime<chrono::Local>" in rty and n["name"] in eff["zone_dependent"]:
                    res.add(Finding("C20.R8", pre + fshort(bd), "zone:" + T.render(n)[:60], "`%s` projects the current instant through the process time zone (TZ would influence the result)" % T.render(n)[:80], loc=T.loc(n)))
    res.holds("C20.R8", "-", "zone-independent", "no zone-dependent DateTime<Local> method in either crate")
