"""Rule parts shared between properties (the DESIGN's "= Cxx.Ry" cross references)."""
import re

from .. import absint as A
from .. import tree as T
from ..report import Finding
from . import fshort


# ------------------------------------------------------------------------------------------------
# build_remover: evaluator registry wiring (C03.R5, C05.R4, C06, C18)

def _map_from_pairs(I, a, n, env):
    """HashMap::from([(k, v), ..]) inserts the pairs in order (a later duplicate key wins, as with insert)."""
    v = a[0]
    if (n.get("ty") or "").startswith("std::collections::HashMap<") and isinstance(v, A.VecV) and v.base is None \
            and all(isinstance(x, A.Tuple) and len(x.items) == 2 for x in v.items):
        m = A.Sym("std::collections::HashMap::from([..])", n.get("ty"))
        for x in v.items:
            I.effects.append(("call", "std::collections::HashMap::insert", [m, x.items[0], x.items[1]], n))
        return m
    return A.Sym("%s::from(%s)" % (T.strip_generics(n.get("ty") or "?"), A.show(v)), n.get("ty"))


def explore_build_remover(ctx):
    if hasattr(ctx, "_build_remover"):
        return ctx._build_remover
    P = ctx.lib
    b = P.fn("chiritori::build_remover")
    # private helpers of chiritori.rs that build_remover is split into are interpreted inline
    src_file = (b["tree"].get("sp") or [None])[0]
    helpers = [P.bodies[c] for c, _ in _reach(P, b) if (P.bodies[c]["tree"].get("sp") or [0])[0] == src_file and P.bodies[c].get("kind") == "Fn"]
    I = A.Interp(P, inline=[h["def_path"] for h in helpers], models={"std::convert::From::from": _map_from_pairs})
    outs = I.explore(lambda J: J.call_fn_body(b, [A.Sym("config"), A.Sym("content")]))
    ctx._build_remover = (b, outs)
    ctx._build_remover_bodies = [b] + helpers
    return ctx._build_remover


def registry_wiring(ctx, res, rule, only=None):
    """The evaluator for each condition kind is registered under the configured tag name and receives
    the configured parameters.  Returns the number of rule instances evaluated."""
    b, outs = explore_build_remover(ctx)
    fn = fshort(b)
    loc = T.loc(b["tree"])
    if len(outs) != 1 or outs[0]["exit"] not in ("fall", "return"):
        res.cannot(rule, fn, "body", "build_remover is expected to be straight-line code (paths: %d)" % len(outs), loc)
        return 1
    o = outs[0]
    inserts = [e for e in o["effects"] if e[0] == "call" and e[1].endswith("HashMap::insert")]
    want = {
        "time_limited": ("config.time_limited_configuration.tag_name", "TimeLimitedEvaluator",
                         {"current_time": "config.time_limited_configuration.current",
                          "time_offset": "config.time_limited_configuration.time_offset"}),
        "removal_marker": ("config.removal_marker_configuration.tag_name", "MarkerEvaluator",
                           {"marker_removal_names": "config.removal_marker_configuration.targets"}),
    }
    n = 0
    for kind, (key, sname, fields) in want.items():
        if only and kind != only:
            continue
        n += 1
        hits = [e for e in inserts if A.show(e[2][1]) == key]
        if len(hits) != 1:
            res.add(Finding(rule, fn, "registry:" + kind, "expected exactly one evaluator registered under `%s`, found %d "
                            "(keys: %s)" % (key, len(hits), [A.show(e[2][1]) for e in inserts]), loc=loc))
            continue
        v = hits[0][2][2]
        l2 = T.loc(hits[0][3])
        if not isinstance(v, A.Struct) or not v.name.endswith(sname):
            res.add(Finding(rule, fn, "registry:" + kind, "the evaluator registered under `%s` is %s, expected %s" % (key, A.show(v), sname), loc=l2))
            continue
        got = {k: A.show(x) for k, x in v.fields.items()}
        if got != fields:
            res.add(Finding(rule, fn, "registry:" + kind, "evaluator fields are wired as %s, the configuration requires %s" % (got, fields), loc=l2))
            continue
        res.holds(rule, fn, "registry:" + kind, "%s -> %s%s" % (key, sname, got))
    # the map that was filled is the one handed to Remover::new, and the remover looks names up in it
    if not only:
        n += 1
        rv = o["value"]
        news = [e for e in o["effects"] if e[0] == "call" and e[1].endswith("Remover::new")]
        maps = {A.show(e[2][0]) for e in inserts}
        if len(news) == 1 and len(maps) == 1 and A.show(news[0][2][0]) in maps and isinstance(rv, A.Sym) and "Remover::new" in rv.term:
            res.holds(rule, fn, "registry:handed-to-remover")
        else:
            res.add(Finding(rule, fn, "registry:handed-to-remover", "the filled evaluator map is not what Remover::new receives / build_remover returns", loc=loc))
    return n


# ------------------------------------------------------------------------------------------------
# chiritori-cli main: one exploration, many consumers (C05.R4, C06.R5, C20)

def _clap_parse(I, a, n, env):
    return A.Sym("args", n.get("ty"))


def _spread(v):
    if isinstance(v, A.VecV):
        out = list(v.items)
        if v.base is not None:
            out.insert(0, A.Variant("..spread", [v.base]))
        return out
    return [A.Variant("..spread", [v])]


def _m_chain(I, a, n, env):
    return A.VecV(_spread(a[0]) + _spread(a[1]))


def _m_same(I, a, n, env):
    return a[0]


def _m_extend(I, a, n, env):
    v = a[0]
    if isinstance(v, A.VecV):
        v.items.extend(_spread(a[1]))
        return A.UNIT
    raise A.Cannot("extend of a collection that was not built on this path")


# in `main` a collection of strings is followed as the multiset of its sources (order and container type do not matter to
# a HashSet of target names): a.into_iter().chain(b).collect() == { ..a, ..b } == collect(a) then extend(b)
COLLECTION_MODELS = {
    "std::iter::IntoIterator::into_iter": _m_same, "std::iter::Iterator::chain": _m_chain,
    "std::iter::Iterator::collect": lambda I, a, n, env: A.VecV(_spread(a[0])),
    "std::iter::Extend::extend": _m_extend,
    # an empty set / list that is then filled with extend
    "std::collections::HashSet::new": lambda I, a, n, env: A.VecV([]),
    "std::collections::HashSet::default": lambda I, a, n, env: A.VecV([]),
    "std::collections::HashSet::with_capacity": lambda I, a, n, env: A.VecV([]),
    "std::iter::FromIterator::from_iter": lambda I, a, n, env: A.VecV(_spread(a[0])),
    # `<T as FromStr>::from_str(s)` is `s.parse::<T>()`
    "std::str::FromStr::from_str": lambda I, a, n, env: A.Sym("%s.parse()" % A.show(a[0]), n.get("ty")),
}


FILE_LINES = "lines-of(args.removal_marker_target_config.some)"
_FILE_LINES_SPELLINGS = (
    "load_removal_marker_target_names(args.removal_marker_target_config.some)",
    # the loader written in place: every line of the file, in order, up to the first read error
    "std::io::BufReader::new(std::fs::File::open(args.removal_marker_target_config.some).ok).lines().map_while(fn std::result::Result::ok)",
)


def collection_sources(v):
    out = _collection_sources(v)
    if out is None:
        return None
    # the path handed to the loader by reference / as a str slice / as a copy is the same path
    def norm(x):
        return re.sub(r"(args\.removal_marker_target_config)(?:\.as_deref\(\)|\.as_ref\(\)|\.clone\(\)|\.as_str\(\))+", r"\1", x)
    return {FILE_LINES if norm(x) in _FILE_LINES_SPELLINGS else x for x in out}


def _collection_sources(v):
    """The set of source terms of a collection value built in main (see COLLECTION_MODELS), or None if it is opaque."""
    if isinstance(v, A.VecV):
        out = set()
        for x in _spread(v):
            if isinstance(x, A.Variant) and x.name == "..spread":
                inner = x.args[0]
                if isinstance(inner, A.VecV):
                    sub = _collection_sources(inner)
                    if sub is None:
                        return None
                    out |= sub
                elif A.show(inner) in ("std::vec::Vec::new()", "std::collections::HashSet::new()", "std::default::Default::default()"):
                    pass          # `map_or_else(Vec::new, ..)`: an empty collection contributes nothing
                else:
                    out.add(A.show(inner))
            else:
                out.add("item:" + A.show(x))
        return out
    if isinstance(v, A.Sym):
        return {A.show(v)}
    return None


def _reach(P, b, seen=None):
    """(def path, call node) of the crate-local functions reachable from b."""
    seen = seen if seen is not None else {}
    for c, n in P.callees(b):
        if c not in seen and c in P.bodies:
            seen[c] = n
            _reach(P, P.bodies[c], seen)
    return list(seen.items())


def explore_main(ctx):
    if hasattr(ctx, "_main"):
        return ctx._main
    P = ctx.bin
    b = P.fn("main")
    # private helpers of main.rs are interpreted inline (convert_list_format, and whatever main is split into); the
    # config-file loader stays an opaque source term ("the lines of the file")
    inline = [x["def_path"] for x in P.user_bodies() if x is not b and fshort(x) != "load_removal_marker_target_names"
              and x["def_path"] in {c_ for c_, _ in _reach(P, b)}]
    I = A.Interp(P, inline=inline, assume_ok=True, models=dict(COLLECTION_MODELS, **{"clap::Parser::parse": _clap_parse}))
    outs = I.explore(lambda J: J.call_fn_body(b, []))
    ctx._main = (b, outs)
    return ctx._main


LIB_ENTRIES = ("chiritori::chiritori::clean", "chiritori::chiritori::list", "chiritori::chiritori::list_all")  # extern from the CLI's view


_LIB_ENTRY_ALIASES = {"chiritori::clean": "chiritori::chiritori::clean", "chiritori::list": "chiritori::chiritori::list",
                      "chiritori::list_all": "chiritori::chiritori::list_all"}     # the same functions seen through a `pub use` re-export


def entry_calls(out):
    return [(e[0], _LIB_ENTRY_ALIASES.get(e[1], e[1])) + tuple(e[2:]) for e in out["effects"]
            if e[0] == "call" and _LIB_ENTRY_ALIASES.get(e[1], e[1]) in LIB_ENTRIES]


def cli_config_wiring(ctx, res, rule, only=None):
    """Option -> configuration field table, checked on every path of main that reaches a library entry."""
    b, outs = explore_main(ctx)
    fn = "cli::" + fshort(b)
    loc = T.loc(b["tree"])
    want = {
        "time_limited.tag_name": "args.time_limited_tag_name",
        "time_offset": "args.time_limited_time_offset",
        "current": "args.time_limited_current.parse().unwrap_or(chrono::Local::now())",
        "removal_marker.tag_name": "args.removal_marker_tag_name",
    }
    n = 0
    seen_paths = 0
    bad = {}
    split_seen = set()
    for o in outs:
        calls = entry_calls(o)
        if o["exit"] == "panic":
            continue
        if len(calls) != 1:
            continue
        seen_paths += 1
        args = calls[0][2]
        cfg = args[2]
        if not isinstance(cfg, A.Struct):
            bad["config"] = "the configuration passed to %s is not a literal ChiritoriConfiguration: %s" % (calls[0][1], A.show(cfg))
            continue
        tl = cfg.fields.get("time_limited_configuration")
        rm = cfg.fields.get("removal_marker_configuration")
        got = {}
        if isinstance(tl, A.Struct):
            got["time_limited.tag_name"] = A.show(tl.fields.get("tag_name"))
            got["time_offset"] = A.show(tl.fields.get("time_offset"))
            got["current"] = A.show(tl.fields.get("current"))
        if isinstance(rm, A.Struct):
            got["removal_marker.tag_name"] = A.show(rm.fields.get("tag_name"))
        for k, w in want.items():
            if only and k not in only:
                continue
            if k == "current" and got.get(k) is not None:
                # lazily evaluated default: `unwrap_or_else(|_| now())` is `unwrap_or(now())` (the clock has no observable effect)
                got[k] = re.sub(r"\.unwrap_or_else\(\|_\w*\| (.+)\)$", r".unwrap_or(\1)", got[k])
            if k == "current" and got.get(k) != w:
                # the same choice written as a `match` on the parse result: Ok(t) => t, Err(_) => Local::now()
                d = o["decisions"].get("is_ok(args.time_limited_current.parse())")
                if (d is True and got.get(k) == "args.time_limited_current.parse().ok") or (d is False and got.get(k) == "chrono::Local::now()"):
                    split_seen.add(d)
                    continue
            if got.get(k) != w:
                bad[k] = "configuration field %s is wired to `%s`, expected `%s` (entry %s)" % (k, got.get(k), w, calls[0][1])
    if split_seen and split_seen != {True, False} and "current" not in bad:
        bad["current"] = "configuration field current is wired to one branch of the parse result only (%s)" % sorted(split_seen)
    keys = [k for k in want if not only or k in only]
    if seen_paths == 0:
        res.cannot(rule, fn, "cli-wiring", "no path of main reaches a library entry point", loc)
        return 1
    for k in keys:
        n += 1
        if k in bad:
            res.add(Finding(rule, fn, "cli-wiring:" + k, bad[k], loc=loc))
        else:
            res.holds(rule, fn, "cli-wiring:" + k, want[k])
    if "config" in bad:
        res.add(Finding(rule, fn, "cli-wiring:config", bad["config"], loc=loc))
    # the parse target type of --time-limited-current must be an instant (DateTime<Local>), not a naive time
    if not only or "current" in only:
        n += 1
        # (the value wiring above shows that the parsed string is args.time_limited_current; here: what it is parsed into -
        # the one chrono parse in main or the helpers it is split into)
        parses = [x for bd in ctx.bin.user_bodies() for x in T.nodes(bd["tree"])
                  if ((x.get("k") == "mcall" and x["name"] == "parse") or (x.get("k") == "call" and (T.cname(x) or "").endswith("FromStr::from_str")))
                  and "chrono::" in (x.get("ty") or "")]
        if len(parses) == 1 and "chrono::DateTime<chrono::Local>" in parses[0]["ty"]:
            res.holds(rule, fn, "cli-wiring:current-type", parses[0]["ty"])
        else:
            res.add(Finding(rule, fn, "cli-wiring:current-type", "--time-limited-current is not parsed as chrono::DateTime<Local> "
                            "(zone-aware instant): %s" % [p["ty"] for p in parses], loc=loc))
    return n


# ------------------------------------------------------------------------------------------------
# collect_removable_ranges: the per-element decision table (C03, C04, C06, C17)

ATOMS = ("elem", "skip", "registered", "verdict", "collect_pending", "built", "empty")


def element_table(ctx):
    """Explore the fold closure of collect_removable_ranges for one symbolic content part.
    Returns dict(body, closure, outs, classify, cannot)."""
    if hasattr(ctx, "_element_table"):
        return ctx._element_table
    P = ctx.lib
    b = P.fn("Remover::collect_removable_ranges")
    folds = [n for n in T.nodes(b["tree"], "mcall") if n["name"] == "fold"]
    info = {"body": b, "cannot": None, "outs": [], "skip_fn": None}
    ctx._element_table = info
    skip_fns = [x for x in P.user_bodies() if fshort(x).endswith("remover::is_skip")]
    inline = [x["def_path"] for x in skip_fns]
    info["skip_fn"] = skip_fns[0] if skip_fns else None
    # private helpers of the remover module that the traversal calls (other than itself) are interpreted inline
    src_file = (b["tree"].get("sp") or [None])[0]
    for x in P.user_bodies():
        if x is not b and x["def_path"] not in inline and (x["tree"].get("sp") or [0])[0] == src_file and x["def_path"] in {c_ for c_, _ in P.callees(b)}:
            inline.append(x["def_path"])

    def bind_fn_params(env):
        for p in b["params"]:
            pat = p["pat"]
            if pat["p"] == "bind":
                env[pat["id"]] = A.Sym({"collect_pending_removals": "collect_pending"}.get(pat["name"], pat["name"]), p["ty"])

    if len(folds) == 1:
        fold = folds[0]
        it = T.render(fold["recv"])
        if it != "contents.iter()":
            info["cannot"] = "the traversal is over `%s`, not over all content parts (contents.iter())" % it
            return info
        clo = T.peel(fold["args"][1])
        if clo["k"] != "closure" or len(clo["params"]) != 2:
            info["cannot"] = "fold closure shape"
            return info
        info["closure"] = clo
        seed = T.render(fold["args"][0])
        if seed != "(std::vec::Vec::new(), std::vec::Vec::new())":
            info["cannot"] = "fold seed is `%s`, expected two empty lists" % seed
            return info

        def run(J):
            env = {}
            bind_fn_params(env)
            acc = A.Tuple([A.VecV([], base=A.Sym("READY_ACC")), A.VecV([], base=A.Sym("PENDING_ACC"))])
            if not J.match_pat(clo["params"][0]["pat"], acc, env) or not J.match_pat(clo["params"][1]["pat"], A.Sym("c"), env):
                raise A.Cannot("closure parameters")
            return J.ev(clo["body"], env)
    else:
        # the same traversal written as a loop: `for c in contents { .. }` filling two lists that are returned as a pair
        fors = [n for n in T.nodes(b["tree"], "for") if T.render(n["iter"]) in ("contents", "contents.iter()")]
        blk = T.peel(b["tree"])
        while blk.get("k") == "blockexpr":
            blk = blk["block"]
        tail = T.peel(blk["tail"]) if blk.get("tail") is not None else {}
        accs = [T.local_of(e) for e in tail.get("es", [])] if tail.get("k") == "tuple" else []
        lets = {s_["pat"]["id"]: s_ for s_ in T.nodes(b["tree"], "let") if s_["pat"]["p"] == "bind"}
        if len(fors) != 1 or len(accs) != 2 or any(a is None or a not in lets or T.render(lets[a]["init"]) != "std::vec::Vec::new()" for a in accs):
            info["cannot"] = "expected one fold (or one `for` filling two empty lists that are returned) over the content parts; found %d fold(s), %d loop(s)" % (len(folds), len(fors))
            return info
        loop = fors[0]
        # nothing but the loop may touch the two lists
        for n in T.nodes(b["tree"], "mcall"):
            if T.local_of(T.peel_ref(n["recv"])) in accs and not any(x is n for x in T.nodes(loop["body"])):
                info["cannot"] = "the result lists are modified outside the traversal loop (`%s`)" % T.render(n)[:60]
                return info

        def run(J):
            env = {}
            bind_fn_params(env)
            ready = A.VecV([], base=A.Sym("READY_ACC"))
            pend = A.VecV([], base=A.Sym("PENDING_ACC"))
            env[accs[0]], env[accs[1]] = ready, pend
            if not J.match_pat(loop["pat"], A.Sym("c"), env):
                raise A.Cannot("loop pattern")
            try:
                J.ev(loop["body"], env)
            except A._Continue:
                pass
            return A.Tuple([ready, pend])
    I = A.Interp(P, inline=inline)
    try:
        info["outs"] = I.explore(run)
    except A.Cannot as e:
        info["cannot"] = str(e)
    if len(folds) == 1:
        # `return acc` inside the fold closure ends the step exactly like reaching the closure's tail
        for o in info["outs"]:
            if o["exit"] == "return":
                o["exit"] = "fall"
    return info


REC = "self.collect_removable_ranges(c.0.children, collect_pending)"
CREATE_RE = re.compile(r"^is_some\((create\(c\.0, self\.remove_strategies\))\)$")


def classify_element_atom(k, v, st):
    """Map interpreter atoms of the fold closure to the spec atoms."""
    if k == "variant(c)":
        return ("elem", v == "ContentPart::Element")
    if k == "any(c.0.start_element.attrs.iter(), {eq($e.name, 'skip')})":
        return ("skip", v)
    if k == "is_some(get(self.removal_evaluators, c.0.start_element.name))":
        return ("registered", v)
    if k == "get(self.removal_evaluators, c.0.start_element.name).some.is_removal(c.0.start_element)":
        return ("verdict", v)
    if k == "collect_pending":
        return ("collect_pending", v)
    m = CREATE_RE.match(k)
    if m:
        st["create"] = m.group(1)
        return ("built", v)
    c = st.get("create")
    if c and k == "%s.some.0.is_empty()" % c:
        return ("empty", v)
    return None


def observe_element(out):
    """(ready items, pending items, recursion executed, evaluator consulted) of one path."""
    v = out["value"]
    if out["exit"] != "fall" or not isinstance(v, A.Tuple) or len(v.items) != 2:
        return ("?", A.show(v), out["exit"])
    res = []
    for lst in v.items:
        if not isinstance(lst, A.VecV) or lst.base is None:
            return ("?", A.show(v))
        res.append((lst.base.term, tuple(_item(x) for x in lst.items)))
    return (res[0], res[1])


def _item(x):
    """Canonical rendering of an appended item, independent of the node struct's name / field names."""
    if isinstance(x, A.Struct) and len(x.fields) == 2:
        return "node{%s}" % " | ".join(sorted(A.show(v) for v in x.fields.values()))
    return A.show(x)


def spec_element(row, create_term):
    """Expected observation for a row of the spec table (DESIGN appendix C)."""
    if not row["elem"]:
        return (("READY_ACC", ()), ("PENDING_ACC", ()))
    live = (not row["skip"]) and row["registered"]
    usable = row["built"] and not row["empty"]
    ready = live and row["verdict"] and usable
    pending = live and (not row["verdict"]) and row["collect_pending"] and usable
    rng = "%s.some" % create_term     # the built (range, closed range) pair; Tuple.show contracts (x.0, x.1) to x
    r_children = "%s.0" % REC
    p_children = "%s.1" % REC
    if ready:
        r_items = ("node{%s}" % " | ".join(sorted([rng, r_children])),)
        p_items = ("..spread(%s)" % p_children,)
    elif pending:
        r_items = ("..spread(%s)" % r_children,)
        p_items = ("node{%s}" % " | ".join(sorted([rng, p_children])),)
    else:
        r_items = ("..spread(%s)" % r_children,)
        p_items = ("..spread(%s)" % p_children,)
    return (("READY_ACC", r_items), ("PENDING_ACC", p_items))


def element_rows(ctx, res, rule, fn_filter, what):
    """Compare the rows selected by fn_filter(row) with the spec.  Returns (#rows, #bad)."""
    import itertools
    info = element_table(ctx)
    b = info["body"]
    fn = fshort(b)
    loc = T.loc(b["tree"])
    if info["cannot"]:
        res.cannot(rule, fn, "element-table", info["cannot"], loc)
        return 1, 1
    st = {}
    paths = []
    for o in info["outs"]:
        dec = {}
        for k, v in o["decisions"].items():
            c = classify_element_atom(k, v, st)
            if c is None:
                res.cannot(rule, fn, "unknown-atom:" + k[:100], "the ready/pending decision depends on a condition outside "
                           "the spec table: %s" % k, loc)
                return 1, 1
            dec[c[0]] = c[1]
        paths.append((dec, o))
    create_term = st.get("create", "create(c.0, self.remove_strategies)")
    rows = bad = 0
    for combo in itertools.product([True, False], repeat=len(ATOMS)):
        row = dict(zip(ATOMS, combo))
        if not fn_filter(row):
            continue
        # all 2^7 rows are checked: atoms that "cannot matter" are exactly what a faulty edit makes matter
        rows += 1
        hits = [o for dec, o in paths if all(row[a] == v for a, v in dec.items())]
        rowtxt = ",".join("%s=%d" % (a, row[a]) for a in ATOMS)
        if not hits:
            res.cannot(rule, fn, "row:" + rowtxt, "no extracted path covers this row", loc)
            bad += 1
            continue
        exp = spec_element(row, create_term)
        obs = {observe_element(o) for o in hits}
        if obs != {exp}:
            bad += 1
            got = sorted(obs, key=repr)[0]
            res.add(Finding(rule, fn, "row:" + rowtxt,
                            "%s: for an element with [%s] the code appends ready=%s pending=%s; "
                            "the property requires ready=%s pending=%s"
                            % (what, rowtxt, got[0], got[1], exp[0], exp[1]), loc=loc,
                            detail={"row": row, "code": repr(got), "spec": repr(exp)}))
        else:
            res.holds(rule, fn, "row:" + rowtxt)
    return rows, bad


def _canonical(row):
    """Collapse don't-care atoms (they are never evaluated on the path) to one representative."""
    if not row["elem"]:
        return not any(row[a] for a in ATOMS if a != "elem")
    if row["skip"] and (row["registered"] or row["verdict"] or row["built"] or row["empty"]):
        return False
    if not row["registered"] and (row["verdict"] or row["built"] or row["empty"]):
        return False
    if not row["skip"] and row["registered"] and not row["verdict"] and not row["collect_pending"] and (row["built"] or row["empty"]):
        return False
    if not row["built"] and row["empty"]:
        return False
    return True


# ------------------------------------------------------------------------------------------------
# clap-derive expansion: the argument table of the CLI (C06.R5, C20.R7)

def cli_arg_table(ctx):
    """{arg id: {long:[..], short:[..], defaults:[(method, value)], action: str, loc}} read from the
    clap-derive expansion `<Args as clap::Args>::augment_args` (id = struct field name: clap derive, trusted)."""
    if hasattr(ctx, "_cli_args"):
        return ctx._cli_args
    P = ctx.bin
    b = P.fn("Args::augment_args")
    table = {}
    for n in T.nodes(b["tree"], "mcall"):
        if n["name"] != "arg":
            continue
        blk = n["args"][0]
        ident = None
        ent = {"long": [], "short": [], "defaults": [], "action": None, "loc": T.loc(n), "methods": []}
        for m in T.nodes(blk):
            if m.get("k") == "call" and (T.cname(m) or "").endswith("Arg::new"):
                ident = T.lit_value(m["args"][0])
            if m.get("k") != "mcall":
                continue
            cn = T.cname(m) or ""
            if "::Arg::" not in cn:
                continue
            name = m["name"]
            ent["methods"].append(name)
            if name == "long":
                ent["long"].append(T.lit_value(m["args"][0]))
            elif name == "short":
                ent["short"].append(T.lit_value(m["args"][0]))
            elif name.startswith("default_value") or name.startswith("default_missing_value"):
                ent["defaults"].append((name, T.render(m["args"][0]) if T.lit_value(m["args"][0]) is None else T.lit_value(m["args"][0])))
            elif name == "action":
                ent["action"] = T.render(m["args"][0]).split("::")[-1]
        if ident is None:
            raise T.AnchorMissing("clap Arg without a literal id at %s" % T.loc(n))
        table[ident] = ent
    ctx._cli_args = (b, table)
    return ctx._cli_args


# ------------------------------------------------------------------------------------------------
# marker builders: extents are token boundaries; "cannot unwrap" is an empty range (C02.R7, C03.R6, C04.R3)

def _range_ends(v):
    if isinstance(v, A.Struct) and set(v.fields) == {"start", "end"}:
        return A.show(v.fields["start"]), A.show(v.fields["end"])
    return None


def marker_extents(ctx, res, rule, parts=("range", "unwrap", "empty")):
    P = ctx.lib
    n = 0
    START, END = "el.start_token.byte_start", "el.end_token.byte_end"
    if "range" in parts:
        n += 1
        b = P.fn("RangeMarkerBuilder::build")
        fn = fshort(b)
        outs = A.Interp(P).explore(lambda J: J.call_fn_body(b, [A.Sym("self"), A.Sym("el")]))
        ok = False
        if len(outs) == 1 and isinstance(outs[0]["value"], A.Tuple) and len(outs[0]["value"].items) == 2:
            r, pair = outs[0]["value"].items
            ok = _range_ends(r) == (START, END) and isinstance(pair, A.Variant) and pair.name == "None"
        if ok:
            res.holds(rule, fn, "extent", "%s..%s, no pair" % (START, END))
        else:
            res.add(Finding(rule, fn, "extent", "the default strategy must mark exactly first byte of the opening tag .. last byte of "
                            "the closing tag (%s..%s, None); found %s" % (START, END, [A.show(o["value"]) for o in outs][:3]), loc=T.loc(b["tree"])))
    b = P.fn("UnwrapBlockMarkerBuilder::build")
    fn = fshort(b)
    loc = T.loc(b["tree"])
    try:
        outs = A.Interp(P).explore(lambda J: J.call_fn_body(b, [A.Sym("self"), A.Sym("el")]))
    except A.Cannot as e:
        res.cannot(rule, fn, "body", str(e), loc)
        return n + 1
    pair_paths = 0
    for o in outs:
        v = o["value"]
        if o["exit"] != "fall" or not isinstance(v, A.Tuple) or len(v.items) != 2:
            res.cannot(rule, fn, "return-shape", "unexpected return %s" % A.show(v)[:200], loc)
            n += 1
            continue
        head, pair = v.items
        he = _range_ends(head)
        if isinstance(pair, A.Variant) and pair.name == "Some":
            pair_paths += 1
            te = _range_ends(pair.args[0])
            if "unwrap" not in parts:
                continue
            n += 1
            sig = "pair"
            problems = []
            if he is None or te is None:
                problems.append("head/tail are not range literals")
            else:
                E, S1 = he[1], te[0]
                if he[0] != START:
                    problems.append("head starts at `%s`, not at the first byte of the opening tag" % he[0])
                if te[1] != END:
                    problems.append("tail ends at `%s`, not at the last byte of the closing tag" % te[1])
                if not (E.startswith("find_next_line_break_pos(") and "el.start_token.byte_end" in E and "byte_start" not in E):
                    problems.append("head end `%s` is not a forward line-break scan seeded at the end of the opening tag" % E[:160])
                m = re.match(r"^\((find_prev_line_break_pos\(.*\)\.some) \+ 1\)$", S1)
                m0 = re.match(r"^(find_prev_line_break_pos\(.*\)\.some)$", S1)
                S = m.group(1) if m else (m0.group(1) if m0 else None)
                if S is None or "el.end_token.byte_start" not in S1 or "byte_end" in S1:
                    problems.append("tail start `%s` is not a backward line-break scan seeded at the closing tag (+ 1)" % S1[:160])
                else:
                    # guard: the pair is built only when head.end <= tail.start.  tail.start = S + 1 needs E <= S + 1 (E <= S
                    # suffices); tail.start = S (the line break itself goes with the tail) needs E <= S and is only sensible for E = S
                    rel = None
                    for k, val in o["decisions"].items():
                        if k == "ord(%s, %s)" % (E, S):
                            rel = val
                        if k == "ord(%s, %s)" % (S, E):
                            rel = {"<": ">", "=": "=", ">": "<"}[val]
                    if rel not in ("<", "="):
                        problems.append("the head/tail pair is built on a path that does not establish head.end <= tail.start "
                                        "(decisions: %s)" % {k[:60]: v for k, v in o["decisions"].items() if k.startswith("ord(")})
                    elif m0 and rel != "=":
                        problems.append("the tail starts at the line break itself although inner lines remain (the last inner line would lose its line break)")
                    elif m and rel == "=":
                        problems.append("with adjacent wrapper lines (head end = backward scan) the tail starts one behind the line break they share: that line break "
                                        "survives, so an empty line is left where exactly four lines must disappear")
            if problems:
                res.add(Finding(rule, fn, sig, "; ".join(problems), loc=loc))
            else:
                res.holds(rule, fn, sig, "head %s..scan, tail scan+1..%s, guarded" % (START, END))
        else:
            if "empty" not in parts:
                continue
            n += 1
            dec = ",".join("%d" % (1 if v_ is True else 0 if v_ is False else {"<": 2, "=": 3, ">": 4}.get(v_, 9)) for v_ in o["decisions"].values())
            if he is not None and he[0] == he[1] and isinstance(pair, A.Variant) and pair.name == "None":
                res.holds(rule, fn, "cannot-unwrap:" + dec, "%s..%s" % he)
            else:
                res.add(Finding(rule, fn, "cannot-unwrap:" + dec, "a path on which the block cannot be unwrapped returns %s instead of an "
                                "empty range with no pair" % A.show(v)[:200], loc=loc))
    if "unwrap" in parts:
        res.floor(rule, "unwrap pair-building paths", pair_paths, 1)
    return n


# ------------------------------------------------------------------------------------------------
# strategy selection (C03.R4)

def strategy_selection(ctx, res, rule):
    P = ctx.lib
    kw = ctx.spec("keywords.json")
    n = 0
    # factory::create = first available strategy builds the range
    b = P.fn("factory::create")
    fn = fshort(b)
    outs = A.Interp(P).explore(lambda J: J.call_fn_body(b, [A.Sym("element"), A.Sym("strategies")]))
    got = sorted((tuple(o["decisions"].items()), A.show(o["value"])) for o in outs)
    want = sorted([
        ((("is_some(find(strategies.iter(), {$e.0.is_available(element)}))", True),), "Some(find(strategies.iter(), {$e.0.is_available(element)}).some.1.build(element))"),
        ((("is_some(find(strategies.iter(), {$e.0.is_available(element)}))", False),), "None"),
    ])
    n += 1
    if got == want:
        res.holds(rule, fn, "first-available", "find(|(a,_)| a.is_available(el)).map(|(_,b)| b.build(el))")
    else:
        res.add(Finding(rule, fn, "first-available", "create() is not `first strategy whose availability holds builds the range`: %s" % [g[1] for g in got], loc=T.loc(b["tree"])))
    # the strategy list of build_remover: unwrap-block first, a constantly-available fallback last
    bb, outs = explore_build_remover(ctx)
    fnb = fshort(bb)
    locb = T.loc(bb["tree"])
    news = [e for e in outs[0]["effects"] if e[0] == "call" and e[1].endswith("Remover::new")] if len(outs) == 1 else []
    n += 3
    if len(news) != 1 or not isinstance(news[0][2][1], A.VecV):
        res.cannot(rule, fnb, "strategy-list", "cannot read the strategy list literal passed to Remover::new", locb)
        return n
    items = news[0][2][1].items
    node = news[0][3]
    # types of the list entries, from the typed tree
    arr = [x for bd in getattr(ctx, "_build_remover_bodies", [bb]) for x in T.nodes(bd["tree"], "array") if len(x["es"]) == len(items)
           and all(T.peel(t).get("k") == "tuple" for t in x["es"]) and "MarkerAvailability" in x.get("ty", "")]
    if len(arr) != 1:
        res.cannot(rule, fnb, "strategy-list", "strategy list literal not found in the tree", locb)
        return n
    entries = []
    for tup in arr[0]["es"]:
        tup = T.peel(tup)
        if tup["k"] != "tuple" or len(tup["es"]) != 2:
            res.cannot(rule, fnb, "strategy-list", "strategy entry is not a pair", locb)
            return n
        tys = []
        for x in tup["es"]:
            x = T.peel(x)
            inner = x
            # Box::new(expr): take the type of the boxed expression
            if x["k"] == "call" and (T.cname(x) or "").endswith("Box::new"):
                inner = T.peel(x["args"][0])
            tys.append((inner["ty"], inner))
        entries.append(tys)
    last_av_ty = entries[-1][0][0]
    impl = [i for i in P.impls if (i.get("trait") or "").endswith("MarkerAvailability") and i["self_ty"] == last_av_ty]
    const_true = False
    if impl:
        mb = P.bodies.get(impl[0]["methods"][0]["path"])
        if mb:
            o2 = A.Interp(P).explore(lambda J: J.call_fn_body(mb, [A.Sym("self"), A.Sym("element")]))
            const_true = all(isinstance(o["value"], A.Lit) and o["value"].v is True and not o["decisions"] for o in o2)
    if const_true:
        res.holds(rule, fnb, "total-fallback", "%s::is_available == true" % last_av_ty.split("::")[-1])
    else:
        res.add(Finding(rule, fnb, "total-fallback", "the last strategy (%s) is not constantly available: a ready element could get no range" % last_av_ty, loc=locb))
    # the unwrap strategy is selected by the documented attribute keyword and precedes the fallback
    uw = [i for i, e in enumerate(entries) if e[0][0].endswith("UnwrapBlockMarkerAvailability")]
    ok = False
    if uw and uw[0] < len(entries) - 1:
        avn = entries[uw[0]][0][1]
        if avn["k"] == "call" and len(avn["args"]) == 1 and T.lit_value(avn["args"][0]) == kw["unwrap_attr"] and entries[uw[0]][1][0].endswith("UnwrapBlockMarkerBuilder"):
            ok = True
    if ok:
        res.holds(rule, fnb, "unwrap-strategy", "UnwrapBlockMarkerAvailability::new(%r) before the fallback, paired with UnwrapBlockMarkerBuilder" % kw["unwrap_attr"])
    else:
        res.add(Finding(rule, fnb, "unwrap-strategy", "the unwrap-block strategy is not registered as (availability(%r), UnwrapBlockMarkerBuilder) before the fallback" % kw["unwrap_attr"], loc=locb))
    # availability predicate of the unwrap strategy + constructor stores the keyword
    ab = P.fn("UnwrapBlockMarkerAvailability::is_available")
    o3 = A.Interp(P).explore(lambda J: J.call_fn_body(ab, [A.Sym("self"), A.Sym("element")]))
    nb = P.fn("UnwrapBlockMarkerAvailability::new")
    o4 = A.Interp(P).explore(lambda J: J.call_fn_body(nb, [A.Sym("tag_name")]))
    pred = search_as_any(o3)
    ctor = A.show(o4[0]["value"]) if len(o4) == 1 else "?"
    if pred == "any(element.start_element.attrs.iter(), {eq($e.name, self.tag_name)})" and re.match(r"^(\w+::)*UnwrapBlockMarkerAvailability\{tag_name: tag_name\}$", ctor):
        res.holds(rule, fshort(ab), "unwrap-availability", pred)
    else:
        res.add(Finding(rule, fshort(ab), "unwrap-availability", "unwrap availability is `%s` (ctor %s); required: any attribute whose name is the keyword" % (pred, ctor), loc=T.loc(ab["tree"])))
    return n


def search_as_any(outs):
    """The value of a boolean function: one path -> its value; the loop spelling of `any` (a first-match search that
    returns true when something is found and false otherwise) -> `any(<source>, <predicate>)`."""
    if len(outs) == 1:
        return A.show(outs[0]["value"])
    if len(outs) == 2:
        vals = {}
        for o in outs:
            if isinstance(o["value"], A.Lit) and isinstance(o["value"].v, bool) and len(o["decisions"]) == 1 and not [e for e in o["effects"] if e[0] != "call"]:
                (k, v), = o["decisions"].items()
                m = re.match(r"^is_some\(find\((.*)\)\)$", k)
                if m and isinstance(v, bool):
                    vals[v] = (o["value"].v, m.group(1))
        if set(vals) == {True, False} and vals[True][0] is True and vals[False][0] is False and vals[True][1] == vals[False][1]:
            return "any(%s)" % vals[True][1]
    return "?"
