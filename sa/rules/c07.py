"""C07 - tokenization offsets: provenance and consistency of the two offset systems."""
import re
from .. import tree as T
from .. import units as U
from ..report import Finding
from . import fshort

LEVEL = "other"


def load_units_spec(ctx):
    raw = ctx.spec("units.json")
    return {"fields": {(t, f): u for t, f, u in raw["fields"]}, "fns": raw["fns"]}


def run(ctx, res):
    P = ctx.lib
    res.explanation = (
        "FL(units) on tokenizer::tokenize: every usize is classified by provenance (BB byte offset on a char boundary: "
        "char_indices positions, str::len; CH character count: a counter incremented by literal 1 once per char_indices item; "
        "BR raw byte offset: BB + 1 without an ASCII guard).  R1 every value stored in Token.byte_start/byte_end and every bound "
        "of a &source[..] slice is BB; R2 in every Token literal and in the merge step the slice bounds of `value` are the same "
        "expressions as byte_start/byte_end (an open upper bound pairs with source.len()), byte and char cursors are updated in "
        "tandem; R3 start/end receive only character counts; R4 Token literals occur only in tokenizer.rs and tokenize returns (R5: every fresh entry into the start-delimiter state emits a token boundary, Element boundaries only after a completely matched end delimiter) "
        "the adjacent-Text merge of the scanned tokens; R6 non-emptiness in its structural part: a token cut inside the scan is "
        "`&source[a..b]` under guards from which a < b follows, and the token that runs to the end of the source starts at a visited "
        "position and is built only when the source has a last character; R7 one step of the text-merging pass joins a text token to a preceding text token "
        "(value re-sliced, both ends extended) and appends every other token unchanged, the last token reaches that pass; R8 a piece cut inside the scan is dropped "
        "only when empty and tokens are only appended.  Decides the consistency and boundary-ness of the two "
        "offset systems and the shape of the passes - not contiguity / coverage as arithmetic facts about the scan fold.")
    res.trusted += ["char_indices yields char-boundary byte positions in increasing order", "driver fact extraction"]
    spec = load_units_spec(ctx)
    b = P.fn("tokenizer::tokenize")
    fn = fshort(b)
    un = U.Units(P, b, spec)
    res.extra["units_env"] = {}
    names = {}
    for n in T.nodes(b["tree"]):
        if n.get("k") == "path" and n["res"].get("r") == "local":
            names[n["res"]["id"]] = n["res"]["name"]
    res.extra["units_env"] = {names.get(k, str(k)): v for k, v in un.env.items() if not isinstance(k, tuple) and k in names}
    nsinks = 0
    # R1: slice bounds
    for n in T.nodes(b["tree"], "index"):
        bty = (n["base"].get("aty") or n["base"].get("ty") or "").lstrip("&")
        if bty not in ("str", "std::string::String"):
            continue
        rng = T.peel(n["idx"])
        if rng.get("k") != "struct":
            res.cannot("C07.R1", fn, "slice:" + T.render(n)[:60], "slice index is not a range literal", T.loc(n))
            continue
        for f in rng["fields"]:
            nsinks += 1
            u = un.unit(f["e"])
            site = "slice-%s:%s" % (f["name"], T.render(f["e"]))
            _judge(res, "C07.R1", fn, site, u, "byte", T.loc(f["e"]), "bound of a `&source[..]` slice")
    # R1/R3: Token literals
    lits = []
    for n in T.nodes(b["tree"], "struct"):
        if T.strip_generics(n["res"].get("path") or "").endswith("tokenizer::Token"):
            lits.append(n)
    res.floor("C07.R1", "Token literals in tokenize", len(lits), 2)
    for i, lit in enumerate(lits):
        f = {x["name"]: x["e"] for x in lit["fields"]}
        tag = "token%d" % i
        for nm in ("byte_start", "byte_end"):
            nsinks += 1
            _judge(res, "C07.R1", fn, "%s.%s:%s" % (tag, nm, T.render(f[nm])), un.unit(f[nm]), "byte", T.loc(f[nm]), "Token.%s" % nm)
        for nm in ("start", "end"):
            nsinks += 1
            _judge(res, "C07.R3", fn, "%s.%s:%s" % (tag, nm, T.render(f[nm])), un.unit(f[nm]), "char", T.loc(f[nm]), "Token.%s" % nm)
        # R2 value / offset agreement
        v = T.peel_ref(f["value"])
        site = "%s.value:%s" % (tag, T.render(v)[:60])
        okk = False
        why = ""
        if v.get("k") == "index" and T.render(v["base"]) == "source" and T.peel(v["idx"]).get("k") == "struct":
            rf = {x["name"]: T.render(x["e"]) for x in T.peel(v["idx"])["fields"]}
            lo_ok = rf.get("start", "0") == T.render(f["byte_start"])
            hi_ok = (rf.get("end") == T.render(f["byte_end"])) if "end" in rf else (T.render(f["byte_end"]) == "source.len()")
            okk = lo_ok and hi_ok
            why = "value spans %s..%s but byte_start=%s byte_end=%s" % (rf.get("start"), rf.get("end", ""), T.render(f["byte_start"]), T.render(f["byte_end"]))
        else:
            why = "value is not a slice of the source"
        if okk:
            res.holds("C07.R2", fn, site, "slice bounds = byte_start..byte_end")
        else:
            res.add(Finding("C07.R2", fn, site, "a token's text and its byte offsets disagree: " + why, loc=T.loc(lit)))
    # merge step
    merged = 0
    for blk in T.nodes(b["tree"], "block"):
        asg = {}
        for st in blk["stmts"]:
            if st["k"] == "expr" and T.peel(st["e"]).get("k") == "assign":
                a = T.peel(st["e"])
                l = T.peel(a["l"])
                if l.get("k") == "field":
                    asg[l["name"]] = (T.render(l["base"]), a["r"])
        if "value" in asg or "byte_end" in asg or "byte_start" in asg:
            merged += 1
            base = asg.get("value", asg.get("byte_end"))[0]
            okk = True
            why = []
            if "value" not in asg or "byte_end" not in asg or "end" not in asg:
                okk = False
                why.append("value, byte_end and end must be updated together (assigned: %s)" % sorted(asg))
            else:
                v = T.peel_ref(asg["value"][1])
                if v.get("k") == "index" and T.peel(v["idx"]).get("k") == "struct":
                    rf = {x["name"]: T.render(x["e"]) for x in T.peel(v["idx"])["fields"]}
                    if rf.get("start") != "%s.byte_start" % base:
                        okk = False
                        why.append("merged text starts at %s, not at %s.byte_start" % (rf.get("start"), base))
                    if rf.get("end") != T.render(asg["byte_end"][1]):
                        okk = False
                        why.append("merged text ends at %s but byte_end := %s" % (rf.get("end"), T.render(asg["byte_end"][1])))
                    be = T.render(asg["byte_end"][1])
                    en = T.render(asg["end"][1])
                    if not (be.endswith(".byte_end") and en.endswith(".end") and be[:-len(".byte_end")] == en[:-len(".end")]):
                        okk = False
                        why.append("byte_end := %s and end := %s do not come from the same token" % (be, en))
                    for nm in ("byte_end",):
                        _judge(res, "C07.R1", fn, "merge.%s:%s" % (nm, be), un.unit(asg[nm][1]), "byte", T.loc(asg[nm][1]), "Token.%s" % nm)
                    _judge(res, "C07.R3", fn, "merge.end:%s" % en, un.unit(asg["end"][1]), "char", T.loc(asg["end"][1]), "Token.end")
                else:
                    okk = False
                    why.append("merged value is not a slice of the source")
            if okk:
                res.holds("C07.R2", fn, "merge-step", "value/byte_end/end updated together from the same token")
            else:
                res.add(Finding("C07.R2", fn, "merge-step", "merging adjacent text tokens breaks offset consistency: " + "; ".join(why), loc=T.loc(blk)))
    res.floor("C07.R2", "merge steps updating token offsets", merged, 1)
    # tandem update of the byte / char cursors in the scan closure
    tandem = 0
    for blk in T.nodes(b["tree"], "block"):
        kinds = {}
        for st in blk["stmts"]:
            if st["k"] == "expr" and T.peel(st["e"]).get("k") == "assign":
                a = T.peel(st["e"])
                lid = T.local_of(a["l"])
                if lid is not None and un.env.get(lid) in (U.BB, U.CH, U.BR):
                    kinds.setdefault(un.env[lid], []).append(T.render(a))
        if kinds:
            tandem += 1
            if U.BB in kinds and U.CH in kinds and len(kinds[U.BB]) == len(kinds[U.CH]):
                res.holds("C07.R2", fn, "tandem:" + ";".join(sorted(kinds[U.BB] + kinds[U.CH])))
            else:
                res.add(Finding("C07.R2", fn, "tandem:" + ";".join(sorted(sum(kinds.values(), []))), "byte and character cursors are not updated together: %s" % kinds, loc=T.loc(blk)))
    res.floor("C07.R2", "cursor update blocks", tandem, 1)
    res.floor("C07.R1", "unit sinks judged", nsinks, 10)
    # R4 who may construct + returned value
    others = []
    for bd in P.user_bodies():
        if bd["kind"] not in ("Fn", "AssocFn"):
            continue
        for n in T.nodes(bd["tree"], "struct"):
            if T.strip_generics(n["res"].get("path") or "").endswith("tokenizer::Token") and not fshort(bd).startswith("tokenizer::"):
                others.append((bd, n))
    if others:
        for bd, n in others:
            res.add(Finding("C07.R4", fshort(bd), "token-literal", "a Token is constructed outside the tokenizer: its offsets are not covered by the provenance rules", loc=T.loc(n)))
    else:
        res.holds("C07.R4", "-", "who-may-construct", "Token literals only in tokenizer.rs")
    blk = T.peel(b["tree"])
    while blk.get("k") == "blockexpr":
        blk = blk["block"]
    tail = T.peel(blk["tail"]) if blk.get("tail") is not None else {}
    if T.local_of(tail) is not None:
        # `let merged = tokens.into_iter().fold(..); debug_assert!(..); merged`: the value that was given a name is returned
        defs = [s_ for s_ in blk.get("stmts", []) if s_.get("k") == "let" and s_["pat"].get("p") == "bind" and s_["pat"]["id"] == T.local_of(tail) and s_.get("init") is not None
                and "Mut" not in s_["pat"].get("mode", "")]
        touched = [x for x in T.nodes(b["tree"], "mcall") if T.local_of(T.peel_ref(x["recv"])) == T.local_of(tail) and "ref_mut" in (x["recv"].get("adj") or [])]
        if len(defs) == 1 and not touched:
            tail = T.peel(defs[0]["init"])
    seed_txt = ""
    if tail.get("k") == "mcall" and tail["name"] == "fold":
        sd = T.peel(tail["args"][0])
        if T.local_of(sd) is not None:
            # the seed may be a local bound to the empty list (e.g. with a capacity hint)
            for s_ in T.nodes(b["tree"], "let"):
                if s_["pat"].get("p") == "bind" and s_["pat"]["id"] == T.local_of(sd) and s_.get("init") is not None \
                        and not any(x.get("k") == "mcall" and T.local_of(T.peel_ref(x["recv"])) == T.local_of(sd) for x in T.nodes(b["tree"])):
                    sd = T.peel(s_["init"])
        seed_txt = T.render(sd)
    if tail.get("k") == "mcall" and tail["name"] == "fold" and T.render(tail["recv"]) == "tokens.into_iter()" and seed_txt == "std::vec::Vec::new()":
        res.holds("C07.R4", fn, "returns-merged", "tokens.into_iter().fold(vec![], merge adjacent Text)")
    else:
        res.add(Finding("C07.R4", fn, "returns-merged", "tokenize does not return the adjacent-Text merge of the scanned tokens", loc=T.loc(b["tree"])))
    early = [n for n in T.nodes(b["tree"], "ret")]
    # `return` inside the closures belongs to them; an early return of tokenize itself bypasses the merge
    clos = [c for c in T.nodes(b["tree"], "closure")]
    for r in early:
        if not any(any(x is r for x in T.nodes(c["body"])) for c in clos):
            res.add(Finding("C07.R4", fn, "early-return:" + T.render(r)[:60], "tokenize returns early with `%s`, bypassing the adjacent-Text merge" % T.render(r)[:80], loc=T.loc(r)))
    token_boundaries(ctx, res, "C07.R5")
    non_empty_tokens(ctx, res, "C07.R6")
    merge_step(ctx, res, "C07.R7")
    every_piece_kept(ctx, res, "C07.R8")
    # the char counter idiom
    cur = [k for k, v in res.extra["units_env"].items() if v == U.CH]
    if "current" in cur or cur:
        res.holds("C07.R3", fn, "char-counter", "counter(s) %s advance by literal 1 once per char_indices item" % cur)
    else:
        res.add(Finding("C07.R3", fn, "char-counter", "no character counter advancing by exactly 1 per character was found", loc=T.loc(b["tree"])))


def merge_step(ctx, res, rule):
    """`no two text tokens are adjacent` and `their texts concatenated reproduce the source`: the final pass over the scanned
    tokens keeps every token, in order, except that a text token that follows a text token is joined to it - and joining
    extends the earlier token to the later one's end (text re-sliced from the source, character end, byte end).  Decided by
    interpreting one step of that pass for a symbolic accumulated list and token; also: the token that ends at the end of
    the source is appended to the scanned tokens before the pass."""
    from .. import absint as A
    P = ctx.lib
    b = P.fn("tokenizer::tokenize")
    fn = fshort(b)
    loc = T.loc(b["tree"])
    folds = [n for n in T.nodes(b["tree"], "mcall") if n["name"] == "fold" and len(n["args"]) == 2 and T.peel(n["args"][1]).get("k") == "closure"
             and re.match(r"^\w+\.into_iter\(\)$", T.render(n["recv"]))]
    fors = [n for n in T.nodes(b["tree"], "for") if re.match(r"^\w+(\.into_iter\(\))?$", T.render(n["iter"])) and "Token" in (T.peel(n["iter"]).get("ty") or "")]
    I = A.Interp(P)
    I.lazy_locals = True
    if len(folds) == 1:
        clo = T.peel(folds[0]["args"][1])
        src = T.local_of(T.peel(folds[0]["recv"])["recv"])
        seed = folds[0]["args"][0]
        if T.local_of(T.peel(seed)) is not None:      # `let merged = Vec::with_capacity(n); tokens.into_iter().fold(merged, ..)`
            defs = [s_ for s_ in T.nodes(b["tree"], "let") if s_["pat"].get("p") == "bind" and s_["pat"]["id"] == T.local_of(T.peel(seed)) and s_.get("init") is not None]
            uses = [x for x in T.nodes(b["tree"], "path") if T.local_of(x) == T.local_of(T.peel(seed))]
            if len(defs) == 1 and len(uses) == 1:
                seed = defs[0]["init"]
        if T.render(seed) != "std::vec::Vec::new()":
            res.add(Finding(rule, fn, "merge:seed", "the merging pass does not start from an empty list (`%s`)" % T.render(folds[0]["args"][0])[:60], loc=loc))

        def run(J):
            env = {}
            acc = A.VecV([], base=A.Sym("ACC"))
            if not J.match_pat(clo["params"][0]["pat"], acc, env) or not J.match_pat(clo["params"][1]["pat"], A.Sym("cur"), env):
                raise A.Cannot("closure parameters")
            return J.ev(clo["body"], env)
    elif len(fors) == 1 and not folds:
        loop = fors[0]
        src = T.local_of(T.peel(loop["iter"]).get("recv") or loop["iter"])
        blk = T.peel(b["tree"])
        while blk.get("k") == "blockexpr":
            blk = blk["block"]
        acc_id = T.local_of(T.peel(blk["tail"])) if blk.get("tail") is not None else None
        lets = [s_ for s_ in T.nodes(b["tree"], "let") if s_["pat"].get("p") == "bind" and s_["pat"]["id"] == acc_id and s_.get("init") is not None]
        if acc_id is None or len(lets) != 1 or T.render(lets[0]["init"]) != "std::vec::Vec::new()":
            res.cannot(rule, fn, "merge", "the list the merging loop fills (an empty list that is returned) was not found", loc)
            return

        def run(J):
            env = {}
            acc = A.VecV([], base=A.Sym("ACC"))
            env[acc_id] = acc
            if not J.match_pat(loop["pat"], A.Sym("cur"), env):
                raise A.Cannot("loop pattern")
            try:
                J.ev(loop["body"], env)
            except A._Continue:
                pass
            return acc
    else:
        res.cannot(rule, fn, "merge", "the final pass over the scanned tokens (a fold or a `for` over the token list) was not found", loc)
        return
    try:
        outs = I.explore(run)
    except A.Cannot as e:
        res.cannot(rule, fn, "merge", str(e), loc)
        return
    n = 0
    for o in outs:
        d = o["decisions"]
        known = True
        has_last = last_text = cur_text = None
        for k, v in d.items():
            if k == "is_some(ACC.last())":
                has_last = v
            elif k in ("eq(ACC.last().some.kind, TokenKind::Text)", "eq(TokenKind::Text, ACC.last().some.kind)"):
                last_text = v
            elif k in ("eq(TokenKind::Text, cur.kind)", "eq(cur.kind, TokenKind::Text)"):
                cur_text = v
            elif k in ("variant(ACC.last().some.kind)", "variant(cur.kind)"):
                t_ = str(v).endswith("Text")
                if "cur" in k:
                    cur_text = t_
                else:
                    last_text = t_
            else:
                known = False
        label = "last=%s,last_text=%s,cur_text=%s" % (has_last, last_text, cur_text)
        if not known:
            res.add(Finding(rule, fn, "merge:" + label, "whether a token is joined to its predecessor depends on something other than the two kinds: %s" % {k: v for k, v in d.items()}, loc=loc))
            continue
        join = has_last is True and last_text is True and cur_text is True
        no_join = has_last is False or last_text is False or cur_text is False
        v = o["value"]
        items = [A.show(x) for x in v.items] if isinstance(v, A.VecV) and v.base is not None else None
        asg = {str(e[1]): A.show(e[2]) for e in o["effects"] if e[0] == "assign_field"}
        want = {"ACC.last().some.value": "source[ACC.last().some.byte_start..cur.byte_end]", "ACC.last().some.end": "cur.end", "ACC.last().some.byte_end": "cur.byte_end"}
        if (o["exit"] != "fall" and not (o["exit"] == "return" and len(folds) == 1)) or items is None:      # (`return acc` ends a fold step like its tail does)
            res.add(Finding(rule, fn, "merge:" + label, "one step of the merging pass does not yield the accumulated list (%s)" % A.show(v)[:80], loc=loc))
        elif join and (items != [] or asg != want):
            res.add(Finding(rule, fn, "merge:" + label, "a text token following a text token must be joined to it (text, character end and byte end extended to the later token's, nothing "
                            "appended); the code appends %s and assigns %s" % (items, asg), loc=loc))
        elif no_join and (items != ["cur"] or asg):
            res.add(Finding(rule, fn, "merge:" + label, "a token that is not a text token following a text token must be appended unchanged; the code appends %s and assigns %s" % (items, asg), loc=loc))
        elif not (join or no_join):
            res.add(Finding(rule, fn, "merge:" + label, "undecided joining condition", loc=loc))
        else:
            n += 1
            res.holds(rule, fn, "merge:" + label)
    res.floor(rule, "paths of one merging step", n, 3)
    # the last token (up to the end of the source) reaches the list that is merged
    def is_last_token(e):
        return any(x.get("k") == "struct" and (x["res"].get("path") or "").endswith("Token") and
                   any(f_["name"] == "byte_end" and T.render(f_["e"]) == "source.len()" for f_ in x["fields"]) for x in T.nodes(e))
    lets = {s_["pat"]["id"]: s_ for s_ in T.nodes(b["tree"], "let") if s_["pat"].get("p") == "bind" and s_.get("init") is not None}
    okp = False
    npush = 0
    for x, par in T.walk(b["tree"]):
        if not (x.get("k") == "mcall" and x["name"] in ("push", "extend") and T.local_of(T.peel_ref(x["recv"])) == src) or any(q.get("k") in ("closure", "loop", "for") for q in par):
            continue
        npush += 1
        arg = T.peel(x["args"][0])
        if is_last_token(arg):
            okp = True
        v = T.local_of(arg)
        if v is not None:
            if v in lets and is_last_token(lets[v]["init"]):
                okp = True
            for q in par:
                lc = T.peel(q["cond"]) if q.get("k") == "if" else {}
                if lc.get("k") == "let_cond" and any(p_.get("p") == "bind" and p_["id"] == v for p_ in T.pat_nodes(lc["pat"])):
                    srcl = T.local_of(T.peel(lc["e"]))
                    if is_last_token(lc["e"]) or (srcl in lets and is_last_token(lets[srcl]["init"])):
                        okp = True
    if okp:
        res.holds(rule, fn, "last-token-appended")
    else:
        res.add(Finding(rule, fn, "last-token-appended", "the token that runs to the end of the source (`byte_end: source.len()`) is not appended to the scanned tokens before the "
                        "merging pass (%d append sites outside the scan)" % npush, loc=loc))


def every_piece_kept(ctx, res, rule):
    """`contiguous .. texts concatenated reproduce the source`: a piece of text cut inside the scan is dropped only if it is
    empty - the guard in front of its token is exactly `start < end` in one of its spellings, not something stronger - and
    tokens are appended at the end of the list (`push`), never inserted elsewhere."""
    P = ctx.lib
    b = P.fn("tokenizer::tokenize")
    fn = fshort(b)
    n_guard = 0
    for n, parents in T.walk(b["tree"]):
        if n.get("k") != "struct" or not T.strip_generics(n["res"].get("path") or "").endswith("tokenizer::Token"):
            continue
        ins = [q for q in parents if q.get("k") == "mcall" and q["name"] in ("insert", "push_front", "splice") and any(x is n for a_ in q["args"] for x in T.nodes(a_))]
        if ins:
            res.add(Finding(rule, fn, "append-only:" + ins[0]["name"], "a token is placed by `%s`, not appended: tokens are no longer in source order" % T.render(ins[0])[:60], loc=T.loc(n)))
        else:
            res.holds(rule, fn, "append-only:%d" % (n.get("sp") or [0, 0])[1] if False else "append-only")
        f = {x["name"]: x["e"] for x in n["fields"]}
        v = T.peel_ref(f.get("value") or {})
        if not (v.get("k") == "index" and T.peel(v["idx"]).get("k") == "struct"):
            continue
        rf = {x["name"]: T.render(x["e"]) for x in T.peel(v["idx"])["fields"]}
        if "start" not in rf or "end" not in rf:
            continue
        a, e = rf["start"], rf["end"]
        ok_forms = {"((%s - %s) > 0)" % (e, a), "(%s > %s)" % (e, a), "(%s < %s)" % (a, e), "(%s != %s)" % (a, e), "(%s != %s)" % (e, a), "!(%s == %s)" % (a, e), "!(%s == %s)" % (e, a),
                    "((%s - %s) >= 1)" % (e, a), "((%s - %s) != 0)" % (e, a), "(0 < (%s - %s))" % (e, a), "(0 != (%s - %s))" % (e, a)}
        guards = [q for q in parents if q.get("k") == "if" and any(x is n for x in T.nodes(q["then"])) and a in T.render(q["cond"]) and e in T.render(q["cond"])]
        if not guards:
            continue        # guarded in another way (R6 proves non-emptiness from whatever dominates)
        g = T.render(guards[-1]["cond"])
        if g in ok_forms:
            n_guard += 1
            res.holds(rule, fn, "kept-unless-empty:" + g)
        else:
            res.add(Finding(rule, fn, "kept-unless-empty:" + g[:60], "the piece `%s` becomes a token only under `%s`, which is not one of the spellings of %s < %s: a non-empty piece "
                            "of the source could be dropped" % (T.render(v)[:50], g[:80], a, e), loc=T.loc(guards[-1])))
    res.floor(rule, "guards of pieces cut inside the scan", n_guard, 1)


def non_empty_tokens(ctx, res, rule):
    """Non-emptiness, the part that is visible in the shape of the code: a token cut inside the scan is `&source[a..b]` under
    a guard from which a < b follows (difference-constraint prover over the dominating conditions); the token that runs to
    the end of the source starts at a position the scan visited (0 or a char_indices position - premise of C01) and is
    built only when the source has a last character."""
    from .. import oblig
    from . import c01_premises
    P = ctx.lib
    b = P.fn("tokenizer::tokenize")
    fn = fshort(b)
    w = oblig.Walker(P, b, {})
    obs = w.run()
    by_node = {id(o["node"]): o for o in obs if o["kind"] in ("slice-str", "slice")}
    sites = 0
    for n, parents in T.walk(b["tree"]):
        if n.get("k") != "struct" or not T.strip_generics(n["res"].get("path") or "").endswith("tokenizer::Token"):
            continue
        f = {x["name"]: x["e"] for x in n["fields"]}
        v = T.peel_ref(f.get("value") or {})
        if not (v.get("k") == "index" and T.peel(v["idx"]).get("k") == "struct"):
            continue            # reported by R2
        rf = {x["name"]: x["e"] for x in T.peel(v["idx"])["fields"]}
        site = "non-empty:%s" % T.render(v)[:70]
        sites += 1
        if "end" in rf:
            lo = oblig.term(rf["start"]) if "start" in rf else ("0", 0)
            hi = oblig.term(rf["end"])
            o = by_node.get(id(v))
            if o is None or lo is None or hi is None:
                res.cannot(rule, fn, site, "the slice was not reached by the guard walker", T.loc(v))
            elif oblig.Prover(o["facts"]).entails(oblig.lt(lo, hi)):
                res.holds(rule, fn, site, "dominating guards give %s < %s" % (T.render(rf.get("start") or {"k": "lit", "v": [0]}), T.render(rf["end"])))
            elif "start" in rf and _guarded_unequal(parents, n, T.render(rf["start"]), T.render(rf["end"])) and c01_premises.tok_byte_start_assign(ctx)[0]:
                # `start != end` under the scan invariant start <= end (the start only ever holds 0 or an earlier char_indices
                # position - the premise the slice itself is audited with)
                res.holds(rule, fn, site, "guard %s != %s, and the token start never lies behind the current position" % (T.render(rf["start"]), T.render(rf["end"])))
            else:
                res.add(Finding(rule, fn, site, "a token is cut from `%s` without a dominating guard from which start < end follows: an empty "
                                "token can be emitted (e.g. between two adjacent tags)" % T.render(v), loc=T.loc(v)))
        else:
            ok, why = c01_premises.tok_byte_start_assign(ctx)
            # dominated by `Some(..)` of source.char_indices().last() / chars().last() / a non-emptiness test of the source
            dom = False
            for par in parents:
                if par.get("k") == "match":
                    sc = T.peel(par["scrut"])
                    if sc.get("k") == "path" and T.local_of(sc) is not None:
                        lets = [s_ for s_ in T.nodes(b["tree"], "let") if s_["pat"].get("p") == "bind" and s_["pat"]["id"] == T.local_of(sc) and s_.get("init") is not None]
                        sc = T.peel(lets[0]["init"]) if len(lets) == 1 else sc
                    if T.render(sc) in ("source.char_indices().last()", "source.chars().last()", "source.chars().next()", "source.char_indices().next()"):
                        arm = [a for a in par["arms"] if any(x is n for x in T.nodes(a["body"]))]
                        if len(arm) == 1 and T.rpat(arm[0]["pat"]).startswith("Some("):
                            dom = True
                if par.get("k") == "if" and T.render(par["cond"]) in ("!source.is_empty()", "(source.len() > 0)") and any(x is n for x in T.nodes(par["then"])):
                    dom = True
            o = by_node.get(id(v))
            sp = oblig.place(v["base"])
            if o is not None and sp is not None and oblig.Prover(o["facts"]).entails(oblig.lt(("0", 0), ("len(%s)" % sp, 0))):
                dom = True          # any dominating test from which `source` is non-empty follows
            if ok and dom:
                res.holds(rule, fn, site, "starts at a visited position (%s) and is built only when the source has a last character" % why)
            elif not ok:
                res.add(Finding(rule, fn, site, "the token that runs to the end of the source may be empty: " + why, loc=T.loc(v)))
            else:
                res.add(Finding(rule, fn, site, "the token that runs to the end of the source is built without a test that the source has a "
                                "last character: an empty source would yield an empty token", loc=T.loc(v)))
    res.floor(rule, "Token literals with a slice of the source as text", sites, 2)


def _guarded_unequal(parents, node, a, b):
    """Is `node` inside the branch of an `if` that is taken only when the terms a and b differ?"""
    want = {"(%s == %s)" % (a, b), "(%s == %s)" % (b, a)}
    wantne = {"(%s != %s)" % (a, b), "(%s != %s)" % (b, a)}
    for par in parents:
        if par.get("k") != "if":
            continue
        c = T.peel(par["cond"])
        inside_then = any(x is node for x in T.nodes(par["then"]))
        inside_else = par.get("els") is not None and any(x is node for x in T.nodes(par["els"]))
        txt = T.render(c)
        neg = c.get("k") == "unary" and c.get("op") == "!" and T.render(T.peel(c["e"])) in want
        if inside_then and (txt in wantne or neg):
            return True
        if inside_else and txt in want:
            return True
    return False


def token_boundaries(ctx, res, rule):
    """Tag tokens begin with the start delimiter and end with the end delimiter: in get_state every transition that
    freshly enters DelimiterStart emits a token boundary, and an Element boundary is emitted only when the end
    delimiter has been matched completely."""
    from .. import absint as A
    P = ctx.lib
    b = P.fn("tokenizer::get_state")
    fn = fshort(b)
    helper = P.fn("tokenizer::check_delimiter_start", required=False)
    inline = [b["def_path"]] + ([helper["def_path"]] if helper else [])
    adt = [a for p_, a in P.adts.items() if p_.endswith("tokenizer::State")]
    if not adt:
        res.cannot(rule, fn, "state-enum", "tokenizer::State not found", T.loc(b["tree"]))
        return
    n_fresh = n_elem = 0
    for v in adt[0]["variants"]:
        st = v["name"]
        I = A.Interp(P, inline=inline, max_paths=400)
        try:
            outs = I.explore(lambda J, st=st, v=v: J.call_fn_body(b, [A.Sym("c"), A.Sym("delimiter_start"), A.Sym("delimiter_end"),
                                                                       A.Variant("State::" + st, [A.Sym("rest")] if v["fields"] else [])]))
        except A.Cannot as e:
            res.cannot(rule, fn, "state:" + st, str(e), T.loc(b["tree"]))
            continue
        for o in outs:
            val = o["value"]
            if o["exit"] == "panic" or not isinstance(val, A.Tuple) or len(val.items) != 2:
                continue
            tk, nxt = val.items
            fresh = isinstance(nxt, A.Variant) and nxt.name == "State::DelimiterStart" and nxt.args and A.show(nxt.args[0]) == "delimiter_start.chars()"
            if fresh:
                n_fresh += 1
                if isinstance(tk, A.Variant) and tk.name == "Some":
                    res.holds(rule, fn, "fresh-start-from:%s" % st)
                else:
                    res.add(Finding(rule, fn, "fresh-start-from:%s" % st, "from state %s a character that starts the start delimiter enters DelimiterStart without a token "
                                    "boundary: the tag token would begin before its start delimiter" % st, loc=T.loc(b["tree"])))
            if isinstance(tk, A.Variant) and tk.name == "Some" and tk.args and A.show(tk.args[0]).startswith("TokenKind::Element"):
                n_elem += 1
                done = o["decisions"].get("is_some(rest.next())") is False and st == "DelimiterEnd"
                if done:
                    res.holds(rule, fn, "element-boundary-from:%s" % st)
                else:
                    res.add(Finding(rule, fn, "element-boundary-from:%s" % st, "an Element token boundary is emitted from state %s before the end delimiter is matched completely" % st, loc=T.loc(b["tree"])))
    element_kind_sites(ctx, res, rule)
    res.floor(rule, "transitions that freshly enter DelimiterStart", n_fresh, 3)
    res.floor(rule, "transitions that emit an Element boundary", n_elem, 1)


def element_kind_sites(ctx, res, rule):
    """An Element token kind is produced only by the transition function (whose Element outcome requires a completely
    matched end delimiter): no other function - in particular not the end-of-input flush - decides that a span is a tag."""
    P = ctx.lib
    n_ok = 0
    for bd in P.user_bodies():
        if bd["kind"] not in ("Fn", "AssocFn"):
            continue
        for n in T.nodes(bd["tree"]):
            is_ctor = n.get("k") == "call" and T.render(n["f"]).endswith("TokenKind::Element")
            is_lit = n.get("k") == "struct" and T.strip_generics(n["res"].get("path") or "").endswith("tokenizer::ElementToken")
            if not (is_ctor or is_lit):
                continue
            if fshort(bd) == "tokenizer::get_state":
                n_ok += 1
                res.holds(rule, fshort(bd), "element-kind-site:" + ("ctor" if is_ctor else "literal"))
            else:
                res.add(Finding(rule, fshort(bd), "element-kind-site", "an Element token kind is constructed in %s, outside the transition function: a span becomes a tag without "
                                "the end delimiter having been matched by get_state" % fshort(bd), loc=T.loc(n)))
    res.floor(rule, "Element kind construction sites in get_state", n_ok, 1)


def _judge(res, rule, fn, site, u, want, loc, what):
    if want == "byte":
        if u in (U.BB, U.ZERO):
            res.holds(rule, fn, site, u)
        elif u == U.BR:
            res.add(Finding(rule, fn, site, "%s receives a raw byte offset (a char-boundary offset + 1 with no ASCII guard): it can point inside a multi-byte character" % what, loc=loc))
        elif u in (U.CH, "MIX"):
            res.add(Finding(rule, fn, site, "%s receives a character count where a byte offset is required" % what, loc=loc))
        else:
            res.info.append("%s %s: unclassified unit %s at %s" % (rule, site, u, loc))
            res.holds(rule, fn, site, "unclassified (%s): not a definite violation" % u)
    else:
        if u in (U.CH, U.ZERO):
            res.holds(rule, fn, site, u)
        elif u in (U.BB, U.BR, "MIX"):
            res.add(Finding(rule, fn, site, "%s receives a byte offset where a character count is required" % what, loc=loc))
        else:
            res.info.append("%s %s: unclassified unit %s at %s" % (rule, site, u, loc))
            res.holds(rule, fn, site, "unclassified (%s): not a definite violation" % u)
