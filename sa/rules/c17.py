"""C17 - list_all: gating of pending items + exhaustiveness of the pending/ready merge (clauses only)."""
import itertools

from .. import absint as A
from .. import tree as T
from ..report import Finding
from . import common, fshort

LEVEL = "other"


def run(ctx, res):
    P = ctx.lib
    res.explanation = (
        "Clauses decided: R1 (DT) complete per-element table of the collection fold - pending push <=> not skip & registered & "
        "not verdict & collect_pending & built & non-empty; skip / unregistered / cannot-unwrap elements reach neither list; "
        "the ready list does not depend on the collect_pending flag (so Ready items equal the plain list).  R2 (SQ loop shape) "
        "in build_remove_marker_all the cursor into the pending list is advanced only inside an inner loop of the loop over "
        "ready ranges (all earlier pending ranges are consumed), every ready range is pushed once, unconditionally, tagged "
        "true, pending ones tagged false, and the remaining pending tail is appended after the loop.  R4 (ordering enumeration of one step of the inner "
        "loop over all endpoint orderings) a pending range is omitted exactly when it lies wholly inside the ready range, is listed as itself with status Pending, "
        "is taken up in front of a ready range exactly when it begins before that range ends (nested or disjoint pairs), and the cursor starts at 0.  "
        "Not decided: once-each and order for ranges that partially overlap (they cannot arise from nested elements).")
    res.trusted += ["driver fact extraction and the abstract interpreter"]
    rows, bad = common.element_rows(ctx, res, "C17.R1", lambda r: True, "pending/ready gating")
    res.extra["table_rows"] = rows
    # ready list independent of collect_pending
    info = common.element_table(ctx)
    b0 = info["body"]
    if not info["cannot"]:
        st = {}
        by = {}
        for o in info["outs"]:
            dec = {}
            for k, v in o["decisions"].items():
                c = common.classify_element_atom(k, v, st)
                if c:
                    dec[c[0]] = c[1]
            obs = common.observe_element(o)
            key = tuple(sorted((a, v) for a, v in dec.items() if a != "collect_pending"))
            by.setdefault(key, set()).add(obs[0] if len(obs) >= 2 else obs)
        # paths that agree on everything but collect_pending must agree on the ready items
        clash = []
        keys = list(by)
        for k1, k2 in itertools.combinations(keys, 2):
            d1, d2 = dict(k1), dict(k2)
            if all(d1[a] == d2[a] for a in set(d1) & set(d2)) and by[k1] != by[k2]:
                clash.append((k1, k2))
        if clash:
            res.add(Finding("C17.R1b", fshort(b0), "ready-independent-of-flag", "the ready list depends on collect_pending_removals: %s" % clash[:2], loc=T.loc(b0["tree"])))
        else:
            res.holds("C17.R1b", fshort(b0), "ready-independent-of-flag")
    merge_shape(ctx, res, "C17.R2")
    entry_wiring(ctx, res, "C17.R3")
    squash_rule(ctx, res, "C17.R4")
    common.registry_wiring(ctx, res, "C17.R5")


def merge_shape(ctx, res, rule):
    P = ctx.lib
    b = P.fn("Remover::build_remove_marker_all")
    fn = fshort(b)
    loc = T.loc(b["tree"])
    # locals
    lets = {s["pat"]["id"]: s for s in T.nodes(b["tree"], "let") if s["pat"]["p"] == "bind"}
    tuple_lets = [s for s in T.nodes(b["tree"], "let") if s["pat"]["p"] == "tuple"]
    # (ranges, ranges_pending) = self.collect_removable_ranges(contents, true)
    src = None
    for s in tuple_lets:
        if s.get("init") and T.render(s["init"]) == "self.collect_removable_ranges(contents, true)" and len(s["pat"]["pats"]) == 2:
            src = [p.get("id") for p in s["pat"]["pats"]]
    if not src or None in src:
        res.cannot(rule, fn, "source", "cannot find `(ready, pending) = self.collect_removable_ranges(contents, true)`", loc)
        return
    # shadowing lets: x = Self::merge_markers(x)
    ready_ids, pend_ids = {src[0]}, {src[1]}
    for lid, s in lets.items():
        init = s.get("init")
        if init is None:
            continue
        init = T.peel(init)
        if init.get("k") == "call" and (T.cname(init) or "").endswith("Remover::merge_markers") and len(init["args"]) == 1:
            a = T.local_of(init["args"][0])
            if a in ready_ids:
                ready_ids.add(lid)
                ready_final = lid
            if a in pend_ids:
                pend_ids.add(lid)
                pend_final = lid
    if len(ready_ids) != 2 or len(pend_ids) != 2:
        res.add(Finding(rule, fn, "merge-markers-both", "ready and pending trees must each pass through merge_markers exactly once", loc=loc))
        return
    res.holds(rule, fn, "merge-markers-both")
    fors = [n for n in T.nodes(b["tree"], "for") if T.local_of(T.peel_ref(n["iter"])) == ready_final]
    if len(fors) != 1:
        res.cannot(rule, fn, "ready-loop", "expected one `for` over the merged ready ranges, found %d" % len(fors), loc)
        return
    loop = fors[0]
    # cursor(s): locals used to index the pending list
    cursors = set()
    for n in T.nodes(b["tree"], "index"):
        if T.local_of(T.peel_ref(n["base"])) == pend_final:
            for x in T.nodes(n["idx"]):
                lid = T.local_of(x)
                if lid is not None and lid in lets and lets[lid].get("pty") == "usize":
                    cursors.add(lid)
    iters = set()
    if not cursors:
        # the same merge written with a consuming iterator: `let mut it = pending.into_iter().peekable()`, advanced with
        # `it.next_if(..)` / `it.next()` and drained with `merged.extend(it.map(..))`
        for lid, s_ in lets.items():
            e = T.peel(s_["init"]) if s_.get("init") is not None else {}
            chain = []
            while e.get("k") == "mcall" and e["name"] in ("into_iter", "iter", "peekable") and not e["args"]:
                chain.append(e["name"])
                e = T.peel_ref(e["recv"])
            if chain and T.local_of(e) == pend_final:
                iters.add(lid)
        uses = [n for n in T.nodes(b["tree"], "path") if T.local_of(n) == pend_final]
        if len(iters) != 1 or len(uses) != 1:
            res.cannot(rule, fn, "cursor", "no cursor into the pending list found (merge idiom not recognised)", loc)
            return
    # every advance of the cursor inside the ready loop sits in an inner loop
    adv = 0
    for n, parents in T.walk(loop["body"]):
        if n.get("k") == "assign_op" and T.local_of(n["l"]) in cursors:
            adv += 1
            inner = [p for p in parents if p.get("k") in ("loop", "for")]
            if not (n["op"].startswith("+") and T.lit_value(n["r"]) == 1):
                res.add(Finding(rule, fn, "advance-by-one:" + T.render(n), "the pending cursor does not advance by exactly one per examined pending "
                                "range (`%s`): a pending range is skipped (missing from the full listing) or examined twice" % T.render(n), loc=T.loc(n)))
            elif inner:
                res.holds(rule, fn, "advance-in-inner-loop:" + T.render(n))
            else:
                res.add(Finding(rule, fn, "advance-in-inner-loop:" + T.render(n),
                                "the pending cursor is advanced at most once per ready range (no inner loop): with two pending ranges before "
                                "a ready one the listing order becomes Pending, Ready, Pending", loc=T.loc(n)))
        if n.get("k") == "assign" and T.local_of(n["l"]) in (cursors | iters):
            res.add(Finding(rule, fn, "cursor-reassigned:" + T.render(n), "the pending cursor is reassigned inside the merge loop", loc=T.loc(n)))
        if n.get("k") == "mcall" and T.local_of(T.peel_ref(n["recv"])) in iters:
            if n["name"] in ("next", "next_if", "next_if_eq"):
                adv += 1
                inner = [p for p in parents if p.get("k") in ("loop", "for")]
                if inner:
                    res.holds(rule, fn, "advance-in-inner-loop:" + T.render(n)[:60])
                else:
                    res.add(Finding(rule, fn, "advance-in-inner-loop:" + T.render(n)[:60],
                                    "the pending iterator is advanced at most once per ready range (no inner loop): with two pending ranges before "
                                    "a ready one the listing order becomes Pending, Ready, Pending", loc=T.loc(n)))
            elif n["name"] not in ("peek",):
                res.add(Finding(rule, fn, "iterator-use:" + T.render(n)[:60], "the pending iterator is consumed by `%s` inside the merge loop" % n["name"], loc=T.loc(n)))
    res.floor(rule, "advances of the pending cursor inside the ready loop", adv, 1)
    # pushes into the merged list
    merged = [lid for lid, s in lets.items() if s.get("init") is not None and T.render(s["init"]) == "std::vec::Vec::new()" and "bool" in s.get("pty", "")]
    if len(merged) != 1:
        res.cannot(rule, fn, "merged-list", "merged list not identified", loc)
        return
    merged = merged[0]
    top = [T.peel(s["e"]) if s["k"] == "expr" else s for s in T.peel(loop["body"]).get("stmts", [])] if T.peel(loop["body"]).get("k") == "block" else []
    body_blk = loop["body"]
    if body_blk.get("k") == "blockexpr":
        body_blk = body_blk["block"]
    top = []
    for s in body_blk.get("stmts", []):
        if s["k"] == "expr":
            top.append(T.peel(s["e"]))
    if body_blk.get("tail") is not None:
        top.append(T.peel(body_blk["tail"]))
    ready_pushes = 0
    for n, parents in T.walk(loop["body"]):
        if n.get("k") == "mcall" and n["name"] == "push" and T.local_of(T.peel_ref(n["recv"])) == merged:
            arg = T.peel(n["args"][0])
            tag = T.lit_value(arg["es"][1]) if arg.get("k") == "tuple" and len(arg["es"]) == 2 else None
            if tag is True:
                ready_pushes += 1
                uses_loop_var = "range" in T.render(arg["es"][0])
                if any(n is t for t in top):
                    res.holds(rule, fn, "ready-push-unconditional")
                else:
                    res.add(Finding(rule, fn, "ready-push-unconditional", "the ready range is pushed conditionally: a Ready region could be missing from the full listing", loc=T.loc(n)))
            elif tag is False:
                src_ok = "pending" in T.render(arg["es"][0])
                res.holds(rule, fn, "pending-push-tagged-false")
            else:
                res.add(Finding(rule, fn, "push-tag:" + T.render(n)[:60], "an item is pushed with a non-literal status", loc=T.loc(n)))
    if ready_pushes != 1:
        res.add(Finding(rule, fn, "ready-push-once", "each ready range must be pushed exactly once (found %d push sites tagged true)" % ready_pushes, loc=loc))
    # the tail of the pending list is appended after the loop
    tail_ok = False
    for n, parents in T.walk(b["tree"]):
        if n.get("k") == "mcall" and n["name"] == "extend" and T.local_of(T.peel_ref(n["recv"])) == merged:
            inside = any(p is loop for p in parents)
            r = T.render(n["args"][0])
            if not inside and iters and not [p for p in parents if p.get("k") == "if"]:
                a0 = T.peel(n["args"][0])
                rootl = a0
                okchain = True
                tags = []
                while rootl.get("k") == "mcall":
                    if rootl["name"] == "map" and len(rootl["args"]) == 1 and T.peel(rootl["args"][0]).get("k") == "closure":
                        cb = T.peel(T.peel(rootl["args"][0])["body"])
                        tags.append(T.lit_value(cb["es"][1]) if cb.get("k") == "tuple" and len(cb["es"]) == 2 else None)
                    elif rootl["name"] not in ("by_ref",):
                        okchain = False       # filter / skip / take .. would drop pending ranges
                    rootl = T.peel_ref(rootl["recv"])
                if okchain and T.local_of(rootl) in iters and tags == [False]:
                    tail_ok = True
            if not inside and any(("%s.%s().skip(%s)" % (lets[pend_final]["pat"]["name"], it_, lets[c]["pat"]["name"])) in r for c in cursors for it_ in ("iter", "into_iter")) \
                    and "false" in r and ".filter(" not in r and ".take(" not in r and ".step_by(" not in r and not [p for p in parents if p.get("k") == "if"]:
                tail_ok = True        # ranges_pending.iter().skip(cursor): the same tail as ranges_pending[cursor..]
            if not inside and any(("[%s.." % lets[c]["pat"]["name"]) in r for c in cursors) and "false" in r and not T.shortened(r):
                # unconditional, or guarded only by "something is left"
                guards = [p for p in parents if p.get("k") == "if"]
                pn = lets[pend_final]["pat"]["name"]
                accepted = set()
                for c in cursors:
                    cn_ = lets[c]["pat"]["name"]
                    accepted |= {"(%s < %s.len())" % (cn_, pn), "(%s.len() > %s)" % (pn, cn_), "(%s != %s.len())" % (cn_, pn), "(%s.len() != %s)" % (pn, cn_)}
                if all(T.render(g["cond"]) in accepted and not g.get("els") for g in guards):
                    tail_ok = True
    if tail_ok:
        res.holds(rule, fn, "pending-tail-appended")
    else:
        res.add(Finding(rule, fn, "pending-tail-appended", "the pending ranges behind the last ready range are not appended (as Pending) after the merge loop", loc=loc))


def squash_rule(ctx, res, rule):
    """IV: a pending range is omitted exactly when it lies wholly inside the ready range (start >= start, end <= end) -
    complete table over the weak orderings of the four endpoints (one iteration of the merge loop)."""
    import itertools
    P = ctx.lib
    b = P.fn("Remover::build_remove_marker_all")
    fn = fshort(b)
    loc = T.loc(b["tree"])
    fors = [n for n in T.nodes(b["tree"], "for")]
    whiles = [n for n in T.nodes(b["tree"], "loop") if "while_cond" in n]
    if len(fors) != 1 or len(whiles) != 1:
        res.cannot(rule, fn, "loops", "expected `for` over ready ranges with one inner `while`", loc)
        return
    loop, inner = fors[0], whiles[0]
    lets = {s["pat"]["name"]: s["pat"]["id"] for s in T.nodes(b["tree"], "let") if s["pat"]["p"] == "bind"}
    pend_name = None
    for n in T.nodes(inner["body"], "index"):
        pend_name = T.render(T.peel_ref(n["base"]))
    if pend_name is None:
        # `while let Some(p) = pending.get(cursor)`
        for n in T.nodes(inner["while_cond"], "mcall"):
            if n["name"] == "get" and len(n["args"]) == 1 and T.local_of(T.peel_ref(n["recv"])) is not None:
                pend_name = T.render(T.peel_ref(n["recv"]))
    cur_name = None
    for n in T.nodes(inner["body"], "assign_op"):
        cur_name = T.render(n["l"])
    if pend_name is None and cur_name is None:
        # iterator form: the pending list is consumed through `let mut it = pending.into_iter().peekable()`
        for n in T.nodes(inner, "mcall"):
            if n["name"] in ("next_if", "next", "peek") and T.local_of(T.peel_ref(n["recv"])) is not None:
                pend_name = T.render(T.peel_ref(n["recv"]))
    merged_name = None
    for n in T.nodes(loop["body"], "mcall"):
        if n["name"] == "push":
            merged_name = T.render(T.peel_ref(n["recv"]))
    if not (pend_name in lets and (cur_name is None or cur_name in lets) and merged_name in lets):
        res.cannot(rule, fn, "locals", "cannot identify pending list / cursor / merged list", loc)
        return

    def _next_if(I_, a, n, env):
        v = a[0]
        if not isinstance(v, A.VecV) or v.base is not None:
            raise A.Cannot("next_if on an unknown iterator")
        if v.items and I_.truth(I_.apply(a[1], [v.items[0]])):
            return A.Variant("Some", [v.items.pop(0)])
        return A.Variant("None")

    def _next(I_, a, n, env):
        v = a[0]
        if not isinstance(v, A.VecV) or v.base is not None:
            raise A.Cannot("next on an unknown iterator")
        return A.Variant("Some", [v.items.pop(0)]) if v.items else A.Variant("None")

    def _peek(I_, a, n, env):
        v = a[0]
        if not isinstance(v, A.VecV) or v.base is not None:
            raise A.Cannot("peek on an unknown iterator")
        return A.Variant("Some", [v.items[0]]) if v.items else A.Variant("None")
    def _get(I_, a, n, env):
        v, i_ = a[0], a[1]
        if isinstance(v, A.VecV) and v.base is None and isinstance(i_, A.Lit) and isinstance(i_.v, int):
            return A.Variant("Some", [v.items[i_.v]]) if 0 <= i_.v < len(v.items) else A.Variant("None")
        raise A.Cannot("get on an unknown list / index")
    iter_models = {"std::iter::Peekable::next_if": _next_if, "std::iter::Peekable::peek": _peek, "std::iter::Iterator::next": _next,
                   "core::slice::get": _get, "core::slice::<impl [T]>::get": _get, "std::vec::Vec::get": _get}
    rows = bad = order_bad = 0
    first_bad = first_order = what_bad = None
    for rs, re_, ps, pe in itertools.product(range(5), repeat=4):
        if not (rs < re_ and ps < pe):
            continue
        rows += 1
        merged = A.VecV([])
        pend = A.VecV([A.Tuple([A.Struct("Range", [("start", A.Lit(ps)), ("end", A.Lit(pe))]), A.Sym("pidx")])])
        I = A.Interp(P, models=dict(iter_models, **{"std::vec::Vec::len": lambda I_, a, n, env: A.Lit(len(a[0].items)) if isinstance(a[0], A.VecV) and a[0].base is None else A.Sym("len")}))
        I.lazy_locals = True

        def run(J):
            env = {lets[pend_name]: pend, lets[merged_name]: merged}
            if cur_name is not None:
                env[lets[cur_name]] = A.Lit(0)
            if not J.match_pat(loop["pat"], A.Tuple([A.Struct("Range", [("start", A.Lit(rs)), ("end", A.Lit(re_))]), A.Sym("ridx")]), env):
                raise A.Cannot("loop pattern")
            # one iteration of the inner loop: its condition (which may consume, as in `while let Some(p) = it.next_if(..)`), then its body
            if not J.cond(inner["while_cond"], env):
                raise A._Break(None)
            return J.ev(inner["body"], env)
        try:
            outs = I.explore(run)
        except A.Cannot as e:
            res.cannot(rule, fn, "loop-body", str(e), loc)
            return
        if len(outs) != 1:
            res.cannot(rule, fn, "loop-body", "the merge step is not a function of the endpoint ordering", loc)
            return
        o = outs[0]
        consumed = o["exit"] in ("fall", "continue")
        listed = len(merged.items) == 1
        # regions of nested elements are nested or disjoint: for those, a pending range is taken up in front of this ready range
        # exactly when it begins before the ready range ends (otherwise it would be listed out of source order / never squashed)
        laminar = (rs <= ps and pe <= re_) or (ps <= rs and re_ <= pe) or pe <= rs or re_ <= ps
        if laminar and consumed != (ps < re_):
            order_bad += 1
            first_order = first_order or ((rs, re_), (ps, pe), consumed)
        if not consumed:
            continue                      # pending lies behind the ready range: handled in a later iteration
        if listed:
            it = merged.items[0]
            shown = A.show(it)
            if not (shown.startswith("((%d..%d, pidx), false)" % (ps, pe)) or shown.startswith("((%d..%d, pidx), False)" % (ps, pe))):
                what_bad = what_bad or ((rs, re_), (ps, pe), shown[:80])
        inside = rs <= ps and pe <= re_          # wholly inside, including a pending range that ends exactly where the ready one ends
        if (not listed and not inside) or (listed and inside):
            bad += 1
            first_bad = first_bad or ((rs, re_), (ps, pe), listed)
    res.extra.setdefault("ordering_rows", {})[fn] = rows
    if what_bad:
        res.add(Finding(rule, fn, "pending-listed-as-itself", "for ready %s and pending %s the item that is listed is `%s`, not the pending range itself with status Pending" % what_bad, loc=loc))
    else:
        res.holds(rule, fn, "pending-listed-as-itself")
    if order_bad:
        r_, p_, c_ = first_order
        res.add(Finding(rule, fn, "taken-in-order", "for ready %s and pending %s the pending range is %s: a pending range is taken up in front of a ready range exactly when it begins "
                        "before that range ends (source order; %d of %d orderings)" % (r_, p_, "taken up in front of it" if c_ else "left for later", order_bad, rows), loc=loc))
    else:
        res.holds(rule, fn, "taken-in-order", "nested / disjoint orderings: taken up iff it begins before the ready range ends")
    if cur_name is not None:
        inits = [T.lit_value(s_["init"]) for s_ in T.nodes(b["tree"], "let") if s_["pat"]["p"] == "bind" and s_["pat"]["name"] == cur_name and s_.get("init") is not None]
        if inits == [0]:
            res.holds(rule, fn, "cursor-starts-at-0")
        else:
            res.add(Finding(rule, fn, "cursor-starts-at-0", "the cursor into the pending list starts at %s, not at 0: pending regions in front of it are never listed" % inits, loc=loc))
    if bad:
        r_, p_, l_ = first_bad
        res.add(Finding(rule, fn, "squash-soundness", "for ready %s and pending %s (endpoint ordering) the pending range is %s: a Pending region is omitted exactly when it lies "
                        "wholly inside the Ready region; %d of %d orderings" % (r_, p_, "listed" if l_ else "omitted", bad, rows), loc=loc))
    else:
        res.holds(rule, fn, "squash-soundness", "%d endpoint orderings" % rows)


def entry_wiring(ctx, res, rule):
    """list_all feeds build_remove_marker_all's list to the same renderers as list."""
    P = ctx.lib
    b = P.fn("chiritori::list_all")
    fn = fshort(b)
    try:
        outs = A.Interp(P).explore(lambda J: J.call_fn_body(b, [A.Sym("content"), A.Sym("delimiters"), A.Sym("config"), A.Sym("format")]))
    except A.Cannot as e:
        res.cannot(rule, fn, "body", str(e), T.loc(b["tree"]))
        return
    ok = 0
    outs = [o for o in outs if not (isinstance(o["value"], A.Variant) and o["value"].name == "Err")]
    for o in outs:
        v = A.show(o["value"])
        if "build_remove_marker_all(" in v and "build_remove_marker(" not in v.replace("build_remove_marker_all(", ""):
            ok += 1
    if ok == len(outs) and outs:
        res.holds(rule, fn, "renders-build_remove_marker_all", "%d paths" % len(outs))
    else:
        res.add(Finding(rule, fn, "renders-build_remove_marker_all", "list_all does not render the result of build_remove_marker_all on every path", loc=T.loc(b["tree"])))
