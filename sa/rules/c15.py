"""C15 - list reports what clean deletes (sibling agreement + purity)."""
import re

from .. import absint as A
from .. import tree as T
from ..report import Finding
from . import fshort, purity

LEVEL = "other"

TOK = "parse(tokenize(content, delimiters.0, delimiters.1))"
REM = "build_remover(config, content)"


def entry_terms(ctx):
    """Normal forms of the three entry points (non-error paths)."""
    if hasattr(ctx, "_entry_terms"):
        return ctx._entry_terms
    P = ctx.lib
    out = {}
    for name, params in (("clean", ["content", "delimiters", "config"]), ("list", ["content", "delimiters", "config", "format"]),
                         ("list_all", ["content", "delimiters", "config", "format"])):
        b = P.fn("chiritori::" + name)
        # private helpers of the entry module are inlined (a shared tail factored out of list / list_all is still the
        # same pipeline); build_remover / build_formatters stay opaque: they are the anchors the normal forms are compared on
        helpers = [x["def_path"] for x in P.user_bodies() if x["kind"] == "Fn" and fshort(x).startswith("chiritori::") and "Restricted" in (x.get("vis") or "")
                   and fshort(x) not in ("chiritori::build_remover", "chiritori::build_formatters")]
        outs = A.Interp(P, inline=helpers).explore(lambda J, b=b, params=params: J.call_fn_body(b, [A.Sym(p) for p in params]))
        terms = {}
        for o in outs:
            v = o["value"]
            if isinstance(v, A.Variant) and v.name == "Err":
                continue
            key = o["decisions"].get("variant(format)", "-")
            terms[key] = A.show(v)
        out[name] = (b, terms)
    ctx._entry_terms = out
    return out


def run(ctx, res):
    P = ctx.lib
    res.explanation = (
        "Clauses decided: R1 sibling agreement - the three entry points are reduced to normal forms by abstract interpretation; "
        "clean, list and list_all tokenize/parse identically (tokenize(content, delimiters.0, delimiters.1)), build the remover "
        "identically (build_remover(config, content)); Remover::remove deletes exactly the markers of "
        "self.build_remove_marker(..), the function list renders (same pure function on identically built arguments => same "
        "regions), and list tags every marker Ready without filtering.  R2 purity/determinism - nothing reachable from the "
        "entry points calls an effectful API, touches a static, or iterates a HashMap/HashSet.  Not decided: line numbers and "
        "highlighted text of each item (rendering arithmetic).")
    res.trusted += ["driver fact extraction and the abstract interpreter", "std collections: get/contains are deterministic"]
    et = entry_terms(ctx)
    for name, (b, terms) in et.items():
        fn = fshort(b)
        loc = T.loc(b["tree"])
        if not terms:
            res.cannot("C15.R1", fn, "normal-form", "no non-error path", loc)
            continue
        for key, t in terms.items():
            site = "pipeline:" + key
            n_tok = t.count(TOK)
            n_any_tok = t.count("tokenize(")
            n_rem = t.count(REM)
            n_any_rem = t.count("build_remover(")
            if n_tok >= 1 and n_tok == n_any_tok and n_rem >= 1 and n_rem == n_any_rem:
                res.holds("C15.R1", fn, site, "tokenize/parse/build_remover prefix identical")
            else:
                res.add(Finding("C15.R1", fn, site, "entry point does not use the shared pipeline %s / %s on every use: %s" % (TOK, REM, t[:300]), loc=loc))
    # what each entry does with the remover
    b, terms = et["clean"]
    t = terms.get("-", "")
    if ("%s.remove(%s, content)" % (REM, TOK)) in t:
        res.holds("C15.R1", fshort(b), "clean-removes", "remove(parsed, content)")
    else:
        res.add(Finding("C15.R1", fshort(b), "clean-removes", "clean does not call remove(parsed, &content) of the shared remover: %s" % t[:300], loc=T.loc(b["tree"])))
    b, terms = et["list"]
    want = "%s.build_remove_marker(%s).into_iter().map(|v| (v, true)).collect()" % (REM, TOK)
    for key, t in terms.items():
        if want in t:
            res.holds("C15.R1", fshort(b), "list-renders:" + key, "all markers of build_remove_marker, tagged Ready")
        else:
            res.add(Finding("C15.R1", fshort(b), "list-renders:" + key, "list does not render exactly the markers of build_remove_marker (each tagged ready, none filtered): %s" % t[:400], loc=T.loc(b["tree"])))
    remove_deletes_markers(ctx, res, "C15.R1")
    purity.library_purity(ctx, res, "C15.R2")
    marker_list_append_only(ctx, res, "C15.R3")


def marker_list_append_only(ctx, res, rule):
    """One list item per element: merge_markers only ever *appends* to the list it builds.  An entry that is already in the
    list is the region of another element (or of an earlier half) and is never widened, merged or dropped afterwards."""
    P = ctx.lib
    b = P.fn("Remover::merge_markers")
    fn = fshort(b)
    loc = T.loc(b["tree"])
    accs = set()
    for n in T.nodes(b["tree"], "mcall"):
        if n["name"] == "fold" and len(n["args"]) == 2:
            clo = T.peel(n["args"][1])
            if clo.get("k") == "closure" and clo["params"] and clo["params"][0]["pat"].get("p") == "bind":
                accs.add(clo["params"][0]["pat"]["id"])
    for s_ in T.nodes(b["tree"], "let"):
        if s_["pat"].get("p") == "bind" and "Mut" in s_["pat"].get("mode", "") and "Vec<(std::ops::Range<usize>, std::option::Option<usize>)>" in (s_.get("pty") or ""):
            accs.add(s_["pat"]["id"])
    if not accs:
        res.cannot(rule, fn, "accumulator", "the list that merge_markers builds was not found", loc)
        return
    ok_methods = {"push", "extend", "len", "is_empty", "append", "extend_from_slice", "reserve", "capacity"}
    n_ok = 0
    for n, parents in T.walk(b["tree"]):
        if n.get("k") == "mcall" and T.local_of(T.peel_ref(n["recv"])) in accs:
            if n["name"] in ok_methods:
                n_ok += 1
            else:
                res.add(Finding(rule, fn, "list-op:" + n["name"], "the marker list is modified through `%s`: an entry already in the list (the region of another element) "
                                "can be changed or dropped, so the list no longer has one item per element / half" % T.render(n)[:80], loc=T.loc(n)))
        if n.get("k") in ("assign", "assign_op"):
            l = T.peel(n["l"])
            root = l
            while root.get("k") in ("field", "index") or (root.get("k") == "unary" and root.get("op") == "*"):
                root = T.peel(root.get("base") or root.get("e"))
            if T.local_of(root) in accs and l is not root:
                res.add(Finding(rule, fn, "list-assign:" + T.render(n)[:50], "an entry of the marker list is assigned to: `%s`" % T.render(n)[:80], loc=T.loc(n)))
    if n_ok:
        res.holds(rule, fn, "append-only", "%d uses of the list: push / extend / len only" % n_ok)
    res.floor(rule, "appends to the marker list", n_ok, 3)


def remove_deletes_markers(ctx, res, rule):
    P = ctx.lib
    b = P.fn("Remover::remove")
    fn = fshort(b)
    loc = T.loc(b["tree"])
    lets = {s["pat"]["name"]: s for s in T.nodes(b["tree"], "let") if s["pat"]["p"] == "bind"}
    mk = [s for s in lets.values() if s.get("init") is not None and T.render(s["init"]) == "self.build_remove_marker(&content)"]
    if len(mk) != 1:
        res.add(Finding(rule, fn, "markers-source", "remove() does not obtain its markers from self.build_remove_marker(&content)", loc=loc))
        return
    mid = mk[0]["pat"]["id"]
    mname = mk[0]["pat"]["name"]
    fors = list(T.nodes(b["tree"], "for"))
    ok = len(fors) == 1 and re.match(r"^%s\.iter\(\)(\.rev\(\))?$" % mname, T.render(fors[0]["iter"])) is not None
    sinks = [n for n in T.nodes(b["tree"], "mcall") if n["name"] == "replace_range"]
    if ok and len(sinks) == 1:
        pat = fors[0]["pat"]
        first = pat["pats"][0] if pat["p"] == "tuple" else pat
        arg = T.render(sinks[0]["args"][0])
        nm_ = first.get("name")
        ok = first.get("p") == "bind" and arg in (nm_ + ".clone()", nm_, "%s.start..%s.end" % (nm_, nm_)) and any(x is sinks[0] for x in T.nodes(fors[0]["body"]))
    else:
        ok = False
    blk = T.peel(b["tree"])
    while blk.get("k") == "blockexpr":
        blk = blk["block"]
    tail = T.peel(blk["tail"]) if blk.get("tail") is not None else None
    ret_ok = tail is not None and tail.get("k") == "tuple" and len(tail["es"]) == 2 and T.local_of(tail["es"][1]) == mid
    src = None
    if tail is not None and tail.get("k") == "tuple":
        s0 = T.local_of(tail["es"][0])
        for s in lets.values():
            if s["pat"]["id"] == s0 and s.get("init") is not None:
                src = T.render(s["init"])
    if ok and ret_ok and src == "raw.to_string()":
        res.holds(rule, fn, "deletes-exactly-its-markers", "for (m, _) in markers.iter().rev() { text.replace_range(m, \"\") }; returns (text, markers)")
    else:
        res.add(Finding(rule, fn, "deletes-exactly-its-markers", "remove() must delete exactly the ranges of build_remove_marker from a copy of the raw text and return "
                        "them (loop ok=%s, returns markers=%s, text source=%s)" % (ok, ret_ok, src), loc=loc))
