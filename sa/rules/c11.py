"""C11 - unwrap-block removes the two tag lines and the two wrapper lines: extents + applicability table (clauses)."""
import re

from .. import absint as A
from .. import tree as T
from ..report import Finding
from . import common, fshort

LEVEL = "other"

NEXT = "find_next_line_break_pos"
PREV = "find_prev_line_break_pos"


def _scan_chain(term, fn_name, seed):
    """depth of `fn(content, bytes, <inner>[+1], false).some` nesting down to the seed, or None."""
    depth = 0
    t = term
    while True:
        m = re.match(r"^%s\((.*)\)\.some$" % fn_name, t)
        if not m:
            break
        args = _split_args(m.group(1))
        if len(args) != 4 or args[3] != "false":
            return None
        depth += 1
        inner = args[2]
        if inner == seed:
            return depth
        # the next scan resumes *behind* the line break just found: the forward scanner examines the position it is given
        # (so `p + 1`), the backward scanner starts one byte before it (so `p` itself)
        m2 = re.match(r"^\((.*) \+ 1\)$", inner)
        if (fn_name == NEXT) != bool(m2):
            return None
        t = m2.group(1) if m2 else inner
    return None


def _split_args(s):
    out, depth, cur = [], 0, ""
    for ch in s:
        if ch in "([{":
            depth += 1
        if ch in ")]}":
            depth -= 1
        if ch == "," and depth == 0:
            out.append(cur.strip())
            cur = ""
        else:
            cur += ch
    if cur.strip():
        out.append(cur.strip())
    return out


def run(ctx, res):
    P = ctx.lib
    res.explanation = (
        "Clauses decided (the line geometry itself is a run-time quantity): R1 extents - by abstract interpretation of "
        "UnwrapBlockMarkerBuilder::build the opening part is start-of-opening-tag .. E where E is the *second* line break "
        "found by non-pausing forward scans from the end of the opening tag, and the closing part is S + 1 .. "
        "end-of-closing-tag where S is the *second* line break found by non-pausing backward scans from the start of the "
        "closing tag (so: tag line + the wrapper line next to it, on each side).  R2 applicability table - complete table "
        "over {each of the four scans found, ordering of E and S}: the pair is built exactly when all four line breaks exist "
        "and S >= E (at least the two wrapper lines lie between the tags; S = E means the wrapper lines are adjacent), "
        "otherwise the element is left untouched (empty range, no pair).  R3 the strategy is chosen by the presence of the "
        "`unwrap-block` attribute and precedes the default strategy.  Not decided: that the second line break is the end of "
        "'the line after' in every layout (tags sharing lines with code), survival of the inner lines (C02).")
    res.trusted += ["the line-break scanners return the position of the next / previous '\\n' (their byte tables are checked under C02.R4)", "driver fact extraction and the abstract interpreter"]
    b = P.fn("UnwrapBlockMarkerBuilder::build")
    fn = fshort(b)
    loc = T.loc(b["tree"])
    try:
        outs = A.Interp(P).explore(lambda J: J.call_fn_body(b, [A.Sym("self"), A.Sym("el")]))
    except A.Cannot as e:
        res.cannot("C11.R1", fn, "body", str(e), loc)
        return
    content = "self.content, self.content.as_bytes()"
    E = S = None
    n1 = "is_some(%s(%s, el.start_token.byte_end, false))" % (NEXT, content)
    p1 = "is_some(%s(%s, el.end_token.byte_start, false))" % (PREV, content)
    pair_paths = [o for o in outs if isinstance(o["value"], A.Tuple) and len(o["value"].items) == 2 and isinstance(o["value"].items[1], A.Variant) and o["value"].items[1].name == "Some"]
    # R1 extents (from any pair-building path)
    if not pair_paths:
        res.add(Finding("C11.R1", fn, "extents", "no path builds the head/tail pair", loc=loc))
    pair_paths.sort(key=lambda o: 0 if any(v == "<" or v == ">" for k, v in o["decisions"].items() if k.startswith("ord(")) and common._range_ends(o["value"].items[1].args[0]) and common._range_ends(o["value"].items[1].args[0])[0].startswith("(") else 1)
    for o in pair_paths[:1]:
        head, tail = o["value"].items[0], o["value"].items[1].args[0]
        he, te = common._range_ends(head), common._range_ends(tail)
        if he is None or te is None:
            res.cannot("C11.R1", fn, "extents", "head/tail are not range literals", loc)
            break
        E = he[1]
        m = re.match(r"^\((.*) \+ 1\)$", te[0])
        S = m.group(1) if m else None
        dE = _scan_chain(E, NEXT, "el.start_token.byte_end")
        dS = _scan_chain(S, PREV, "el.end_token.byte_start") if S else None
        problems = []
        if he[0] != "el.start_token.byte_start":
            problems.append("opening part starts at %s" % he[0])
        if te[1] != "el.end_token.byte_end":
            problems.append("closing part ends at %s" % te[1])
        if dE != 2:
            problems.append("the opening part ends at the %s line break after the opening tag (must be the second: tag line + one wrapper line)" % ({1: "first", 3: "third"}.get(dE, "?")))
        if dS != 2:
            problems.append("the closing part starts after the %s line break before the closing tag (must be the second)" % ({1: "first", 3: "third"}.get(dS, "?")))
        if problems:
            res.add(Finding("C11.R1", fn, "extents", "; ".join(problems), loc=loc))
        else:
            res.holds("C11.R1", fn, "extents", "head: tag start .. 2nd line break after the tag; tail: 2nd line break before the tag + 1 .. tag end")
    if E is None or S is None:
        return
    # R2 applicability table
    n2 = "is_some(%s)" % E[:-len(".some")]
    p2 = "is_some(%s)" % S[:-len(".some")]
    rows = 0
    import itertools
    for f1, f2, b1, b2, od in itertools.product([True, False], [True, False], [True, False], [True, False], ["<", "=", ">"]):
        row = {n1: f1, n2: f2, p1: b1, p2: b2}
        want_pair = f1 and f2 and b1 and b2 and od in ("<", "=")     # ord(E, S): E < S or E = S
        hits = []
        for o in outs:
            d = o["decisions"]
            ok = all(d.get(k, v) == v for k, v in row.items())
            okey = [k for k in d if k.startswith("ord(")]
            for k in okey:
                a, b_ = k[4:-1].split(", ", 1) if ", " in k else (None, None)
                val = d[k]
                if k == "ord(%s, %s)" % (E, S):
                    ok = ok and val == od
                elif k == "ord(%s, %s)" % (S, E):
                    ok = ok and val == {"<": ">", "=": "=", ">": "<"}[od]
                else:
                    ok = False
            # unknown atoms
            for k in d:
                if k not in row and not k.startswith("ord("):
                    ok = ok and False
            if ok:
                hits.append(o)
        site = "row:fwd1=%d,fwd2=%d,bwd1=%d,bwd2=%d,E%sS" % (f1, f2, b1, b2, od)
        # rows in which a scan is missing make the later atoms don't-care: several paths may match; all must agree
        if not hits:
            # the path may not have evaluated some atom (short-circuit); match by the atoms it did evaluate
            res.cannot("C11.R2", fn, site, "no extracted path covers this row", loc)
            continue
        rows += 1
        got = set()
        for o in hits:
            v = o["value"]
            is_pair = isinstance(v.items[1], A.Variant) and v.items[1].name == "Some"
            he = common._range_ends(v.items[0])
            empty = he is not None and he[0] == he[1]
            got.add("pair" if is_pair else ("untouched" if empty else "other:" + A.show(v)[:60]))
        want = "pair" if want_pair else "untouched"
        if got == {want}:
            res.holds("C11.R2", fn, site, want)
        else:
            res.add(Finding("C11.R2", fn, site, "with forward scans found=(%s,%s), backward scans found=(%s,%s) and second-after %s second-before the builder yields %s; the property "
                            "requires `%s` (the pair exactly when all four line breaks exist and the closing wrapper line does not start before the opening wrapper line ends; "
                            "E = S is the case of exactly two lines between the tags)" % (f1, f2, b1, b2, {"<": "<", "=": "=", ">": ">"}[od], sorted(got), want), loc=loc,
                            detail={"row": site}))
    res.extra["table_rows"] = rows
    res.floor("C11.R2", "rows of the applicability table", rows, 48)
    common.strategy_selection(ctx, res, "C11.R3")
    # the extents of the two removed parts: opening tag .. end of the opening wrapper line, start of the closing wrapper line ..
    # closing tag; with adjacent wrapper lines the line break they share goes with the tail (exactly four lines disappear)
    common.marker_extents(ctx, res, "C11.R4", parts=("unwrap",))
