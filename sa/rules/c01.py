"""C01 - totality: panic-obligation ledger over everything reachable from clean / list / list_all (+ the CLI's non-I/O
obligations)."""
import json
import os
import re

from .. import oblig
from .. import tree as T
from .. import units as U
from ..report import Finding
from . import fshort
from . import c01_premises
from . import c07

LEVEL = "other"

ASIZE = ("add", "mul", "capacity", "neg", "shift")


def universe(ctx):
    P = ctx.lib
    roots = [P.fn("chiritori::clean")["def_path"], P.fn("chiritori::list")["def_path"], P.fn("chiritori::list_all")["def_path"]]
    out = []
    for p in P.reachable(roots):
        b = P.bodies[p]
        if (b.get("impl_of") or {}).get("derived") or b.get("exp"):
            continue
        out.append(b)
    return out


def norm_site(o):
    s = o["site"]
    if o["kind"] == "panic":
        return "panic:" + re.sub(r"\(.*$", "(..)", s[len("panic:"):])
    if o["kind"] == "unwrap":
        r = T.peel_ref(o["node"]["recv"]) if o["node"].get("k") == "mcall" else None
        if r is not None and r.get("k") == "call" and T.callee(r):
            return "unwrap:%s(..)" % T.short_path(T.callee(r))
    return s


def site_shape(o):
    """Spelling-independent signature of an obligation site: its kind and its expression with every local replaced by its type."""
    site = norm_site(o)
    if site != o["site"]:
        return site                       # panic / unwrap-of-call sites carry no local names
    return "%s:%s" % (o["kind"], T.render_shape(o["node"])[:140])


def _first_char_of_delimiter(b, n):
    """n is `it.next().unwrap()` where `it` is a local bound to `<delimiter parameter>.chars()` on which next() is called once."""
    if n.get("k") != "mcall" or n["name"] not in ("unwrap", "expect"):
        return False
    r = T.peel_ref(n["recv"])
    if not (r.get("k") == "mcall" and r["name"] == "next"):
        return False
    lid = T.local_of(T.peel_ref(r["recv"]))
    if lid is None:
        return False
    params = {p["pat"]["id"] for p in b["params"] if p["pat"]["p"] == "bind" and p["pat"]["name"].startswith("delimiter") and (p.get("ty") or "").lstrip("&") == "str"}
    lets = [s_ for s_ in T.nodes(b["tree"], "let") if s_["pat"]["p"] == "bind" and s_["pat"]["id"] == lid]
    if len(lets) != 1 or lets[0].get("init") is None:
        return False
    init = T.peel(lets[0]["init"])
    if not (init.get("k") == "mcall" and init["name"] == "chars" and T.local_of(T.peel_ref(init["recv"])) in params):
        return False
    nexts = [x for x in T.nodes(b["tree"], "mcall") if x["name"] in ("next", "nth", "skip", "next_back", "last") and T.local_of(T.peel_ref(x["recv"])) == lid]
    return len(nexts) == 1


def aud_key(site):
    """Site signatures are compared modulo binding mode: unary `*`, `&`, `&mut` are dropped (`removed_pos[*pair_idx]` and
    `removed_pos[pair_idx]` are the same operation on the same value)."""
    s = re.sub(r"\.expect\((?:'(?:[^'\\]|\\.)*'|\"(?:[^\"\\]|\\.)*\")\)", ".unwrap()", site)      # `expect("why")` is `unwrap()` with a message
    s = re.sub(r"(?<![\w)\]])\*(?=[\w(])", "", s)       # unary `*x` (a product is rendered `a * b`, with a space after the star)
    s = re.sub(r"(?<![\w)\]&])&(?:mut )?(?=[\w(*])", "", s)
    # a Range value: `r.clone()` and `r.start..r.end` are `r`
    s = re.sub(r"\b(\w+)\.start\.\.\1\.end\b", r"\1", s)
    s = re.sub(r"\b(\w+)\.clone\(\)", r"\1", s)
    return s


def run(ctx, res):
    P = ctx.lib
    res.explanation = (
        "OB: every panic-capable operation (integer + - * / %, indexing and slicing, Option/Result unwrap, partial std calls "
        "such as replace_range/insert, explicit panics) in the functions reachable from clean/list/list_all - plus main's "
        "non-I/O obligations - is an obligation.  Discharge order: (G) guard facts from dominating conditions, early exits, "
        "match arms and inductively checked loop invariants, closed under difference-constraint reasoning and usize axioms; "
        "(S) callee summaries that are themselves verified on the callee body; (A) size-domain assumption for + and *; "
        "(AUD) audited invariants, each backed by machine-checked premises that pin the code shape; everything else is "
        "UNPROVEN and reported.  The boundary half of every str slice / replace_range is judged by FL(units).  The HIR "
        "enumeration is cross-checked against the MIR Assert terminators of each body.")
    audited = ctx.spec("audited.json")
    summaries = {k: v for k, v in ctx.spec("summaries.json").items() if not k.startswith("_")}
    oblig.CONSTS.clear()
    for b in P.facts["bodies"]:
        if b["kind"].startswith("Const"):
            v = T.lit_value(b["tree"])
            if isinstance(v, int) and not isinstance(v, bool):
                oblig.CONSTS[b["def_path"]] = v
            elif isinstance(v, str):
                oblig.CONST_STRS[b["def_path"]] = v
    bodies = universe(ctx)
    res.extra["universe_functions"] = len(bodies)
    res.floor("C01.universe", "functions reachable from the three entry points", len(bodies), 48)
    dyn = sum(1 for b in bodies if (b.get("impl_of") or {}).get("trait", "") and "crate::" in ((b.get("impl_of") or {}).get("trait") or ""))
    res.floor("C01.universe", "dyn-dispatched trait impls reached", dyn, 11)

    verify_summaries(ctx, res, summaries)
    premise_cache = {}

    def premise(pid):
        if pid not in premise_cache:
            fnc = c01_premises.PREMISES.get(pid)
            if fnc is None:
                premise_cache[pid] = (False, "unknown premise id")
            else:
                try:
                    premise_cache[pid] = fnc(ctx)
                except T.AnchorMissing as e:
                    premise_cache[pid] = (False, "anchor missing: %s" % e)
                except Exception as e:  # fail closed
                    premise_cache[pid] = (False, "premise check failed: %r" % (e,))
        return premise_cache[pid]

    aud_sites = {}
    for e in audited["sites"]:
        aud_sites[(e["fn"], aud_key(e["site"]))] = e
    entry_assume = {e["fn"]: e for e in audited["entry_assumptions"]}
    classes = {}
    ledger = []
    used_aud = set()
    uspec = c07.load_units_spec(ctx)
    total = 0
    ctx._c01_obs = []
    ctx._c01_bodies = []
    ctx._c01_sites = []
    for b in bodies + cli_bodies(ctx):
        is_cli = b in getattr(ctx, "_cli_b", [])
        fn = ("cli::" if is_cli else "") + fshort(b)
        prog = ctx.bin if is_cli else P
        w = oblig.Walker(prog, b, summaries)
        entry = frozenset()
        ea = entry_assume.get(fshort(b))
        if ea:
            okp = [(pid,) + premise(pid) for pid in ea["premises"]]
            if all(x[1] for x in okp):
                facts = []
                pid_of = {p["pat"]["name"]: p["pat"]["id"] for p in b["params"] if p["pat"]["p"] == "bind"}

                def tm(s):
                    if s.startswith("len("):
                        inner = s[4:-1]
                        return ("len(%s@%d)" % (inner, pid_of[inner]), 0)
                    return ("%s@%d" % (s, pid_of[s]), 0)
                try:
                    for kind, a_, b_ in ea["assume"]:
                        facts.append(oblig.le(tm(a_), tm(b_)))
                    entry = frozenset(facts)
                    res.holds("C01.entry", fn, "assumption:" + ";".join("%s<=%s" % (x[1], x[2]) for x in ea["assume"]), "premises: " + ", ".join(ea["premises"]))
                    res.trusted.append("AUD entry assumption of %s: %s" % (fn, ea["invariant"]))
                except KeyError as e:
                    res.cannot("C01.entry", fn, "assumption", "parameter %s not found" % e, T.loc(b["tree"]))
            else:
                bad = [x for x in okp if not x[1]][0]
                res.add(Finding("C01.entry", fn, "assumption-premise:" + bad[0], "an audited precondition of %s lost its premise `%s`: %s" % (fn, bad[0], bad[2]), loc=T.loc(b["tree"])))
        try:
            obs = w.run(entry)
        except Exception as e:  # fail closed
            res.cannot("C01.walk", fn, "walk", "obligation walk failed: %r" % (e,), T.loc(b["tree"]))
            continue
        un = None
        bsp = b["tree"].get("sp")
        if bsp:
            ctx._c01_bodies.append((bsp[0], bsp[1], bsp[2], bsp[3], bsp[4]))
        # audited entries are found by their site text; when a local was renamed the text no longer matches, and the entry is
        # found by its *shape* (locals replaced by their types) - only if exactly one unmatched entry of this function and
        # exactly one unmatched obligation have that shape
        by_name = {aud_key(norm_site(o)) for o in obs if (fshort(b), aud_key(norm_site(o))) in aud_sites}
        unused_entries = [e for e in audited["sites"] if e["fn"] == fshort(b) and aud_key(e["site"]) not in by_name]
        unmatched_shapes = {}
        for o in obs:
            if not o["guard"] and aud_key(norm_site(o)) not in by_name:
                unmatched_shapes.setdefault(site_shape(o), []).append(o)
        for o in obs:
            osp = o["node"].get("sp")
            if osp:
                ctx._c01_obs.append((osp[0], osp[1], osp[2], osp[3], osp[4]))
            total += 1
            site = norm_site(o)
            ctx._c01_sites.append((fshort(b), aud_key(site), site_shape(o)))
            cls = None
            detail = ""
            if is_cli and o["kind"] == "unwrap" and _is_io_expect(o["node"]):
                cls = "IO"
                detail = "I/O failure: outside the property's quantifier (it ranges over inputs, not over I/O errors)"
            elif o["guard"]:
                cls = "G"
            elif o["kind"] in ASIZE:
                if strip_int(o["node"]) and not _operand_from_parsed_content(o["node"]):
                    cls = "A"
                else:
                    cls = None
                    detail = "arithmetic on a value that does not originate from lengths, positions, counters or literals"
            if cls is None and o["kind"] == "unwrap" and _first_char_of_delimiter(b, o["node"]):
                # `<delimiter>.chars().next().unwrap()` on a fresh iterator: the precondition of the property (delimiters are
                # non-empty strings), wherever the read is written (in a helper or inline)
                cls = "AUD"
                detail = "precondition of the property: delimiters are non-empty strings (first character of a fresh <delimiter>.chars())"
            if cls is None:
                nsite = aud_key(site)
                a = aud_sites.get((fshort(b), nsite))
                if a is None:
                    sh = site_shape(o)
                    ce = [e for e in unused_entries if e.get("shape") == sh]
                    if len(ce) == 1 and len(unmatched_shapes.get(sh, [])) == 1:
                        a = ce[0]
                        nsite = aud_key(a["site"])
                        res.info.append("audited entry `%s` of %s matched by shape (site is now `%s`)" % (a["site"], fn, site))
                if a is not None:
                    results = [(pid,) + premise(pid) for pid in a["premises"]]
                    if all(r[1] for r in results):
                        cls = "AUD"
                        used_aud.add((fshort(b), nsite))
                        detail = a["invariant"]
                    else:
                        badp = [r for r in results if not r[1]][0]
                        detail = "audited site lost its premise `%s`: %s" % (badp[0], badp[2])
            # boundary half of str slices / replace_range (definite BR only)
            if o["kind"] in ("slice-str",) and cls is not None:
                if un is None:
                    un = U.Units(prog, b, uspec)
                idx = T.peel(o["node"]["idx"])
                if idx.get("k") == "struct":
                    for f in idx["fields"]:
                        u = un.unit(f["e"])
                        if u in (U.BR, "MIX", U.CH, U.N):
                            cls = None
                            detail = "slice bound `%s` is %s: it can fall inside a multi-byte character" % (T.render(f["e"]), {"BR": "a raw byte offset (boundary + 1 without an ASCII guard)", "CH": "a character count", "MIX": "a mix of byte and character units", "N": "a plain number, not a position obtained from the string"}[u])
            classes[cls or "UNPROVEN"] = classes.get(cls or "UNPROVEN", 0) + 1
            ledger.append({"fn": fn, "site": site, "class": cls or "UNPROVEN", "loc": o["loc"]})
            if cls is None:
                res.add(Finding("C01.OB", fn, site, "unproven panic obligation (%s): %s" % (o["what"], detail or "no dominating guard, verified summary or audited invariant covers it"), loc=o["loc"]))
            else:
                res.holds("C01.OB", fn, site, cls)
        # ranges returned to the formatter must not be raw offsets (boundary typestate of returned values)
        returned_units(ctx, res, prog, b, fn, uspec)
        mir_crosscheck(res, b, fn, obs)
    # stale audited entries are reported as information only
    for key in aud_sites:
        if key not in used_aud:
            res.info.append("audited entry not used on this tree: %s | %s" % key)
    res.extra["obligations_by_class"] = classes
    res.extra["obligations"] = total
    res.extra["discharged"] = total - classes.get("UNPROVEN", 0)
    res.extra["ledger"] = ledger[:400]
    res.obligations = total
    res.discharged = total - classes.get("UNPROVEN", 0)
    res.floor("C01.OB", "panic obligations enumerated", total, 120)
    res.trusted += ["A-SIZE: every operand of a usize + or * is a length, position, counter or literal of an in-memory string (each <= isize::MAX; the longest sum has < 16 terms): inputs shorter than usize::MAX / 16 bytes",
                    "std functions not listed in sa/spec_tables.py are presumed total (blacklist)", "recursion depth = nesting depth of the input (stack exhaustion and allocation failure are outside)"]
    for e in audited["sites"]:
        if (e["fn"], aud_key(e["site"])) in used_aud:
            res.trusted.append("AUD %s | %s: %s [premises: %s]" % (e["fn"], e["site"], e["invariant"], ", ".join(e["premises"])))
    res.extra["premises"] = {k: {"ok": v[0], "detail": v[1]} for k, v in premise_cache.items()}
    no_unsafe(ctx, res, bodies)
    recursion_depth(ctx, res, bodies)
    from . import deletion as _deletion
    _deletion.scanners_move(ctx, res, "C01.T")
    for o in ledger[:6]:
        res.samples.append(o)


def strip_int(n):
    if n.get("k") == "assign_op":
        return oblig.strip_ref(n["l"].get("ty")) in oblig.INT_TYPES
    return oblig.strip_ref(n.get("ty")) in oblig.INT_TYPES or n.get("k") in ("call", "mcall")


def _operand_from_parsed_content(n):
    """A-SIZE requires that no operand is a number read from the source text."""
    for x in T.nodes(n):
        if x.get("k") == "mcall" and x["name"] in ("parse", "to_digit", "from_str_radix"):
            return True
        if x.get("k") == "call" and (T.cname(x) or "").endswith("from_str_radix"):
            return True
    return False


def _is_io_expect(n):
    r = T.render(n)
    return any(k in r for k in ("read_to_string", "File::open", "File::create", "write_all", "std::fs::File"))


def cli_bodies(ctx):
    bs = [b for b in ctx.bin.user_bodies() if b["kind"] in ("Fn", "AssocFn")]
    ctx._cli_b = bs
    return bs


def verify_summaries(ctx, res, summaries):
    """Each summary is proved on the callee's body by the same engine: at every `Some(x)` result the claimed relation
    between x and the argument must be entailed."""
    P = ctx.lib
    for name, s in summaries.items():
        b = P.fn(name)
        fn = fshort(b)
        if s.get("returns") == "count":
            ok, why = _verify_count(b, s)
            if ok:
                res.holds("C01.S", fn, "summary:count<=items", why)
            else:
                res.add(Finding("C01.S", fn, "summary:count<=items", "callee summary no longer holds: " + why, loc=T.loc(b["tree"])))
            continue
        w = oblig.Walker(P, b, {})
        w.run()
        params = [("%s@%d" % (p["pat"]["name"], p["pat"]["id"]), 0) if p["pat"]["p"] == "bind" else None for p in b["params"]]
        # collect every produced Some(x): return values and loop breaks
        results = []
        w2 = oblig.Walker(P, b, {})
        w2.record = False
        _collect_results(w2, b, results)
        bad = []
        n_some = 0
        expanded = []
        for facts, node in results:
            node = T.peel(node) if node is not None else None
            if node is None:
                continue
            if node.get("k") == "path" and T.local_of(node) is not None:
                vals = _local_values(b, T.local_of(node))
                if vals is None:
                    bad.append("result `%s` is a local whose possible values cannot be enumerated" % T.render(node))
                    continue
                expanded += [(facts, T.peel(v)) for v in vals]
            else:
                expanded.append((facts, node))
        for facts, node in expanded:
            if node.get("k") == "call" and (T.cname(node) or "").endswith("::Some"):
                n_some += 1
                x = oblig.term(node["args"][0])
                if x is None:
                    bad.append("result `%s` is not a tracked term" % T.render(node))
                    continue
                pr = oblig.Prover(facts)
                for rel, argi, off in s["some"]:
                    a = params[argi]
                    if rel == "lt_arg":
                        g = oblig.lt(x, a)
                    elif rel == "ge_arg":
                        g = oblig.le(a, x)
                    elif rel == "lt_len_arg":
                        g = oblig.lt(x, ("len(%s)" % a[0], 0))
                    else:
                        g = None
                    if g is None or not pr.entails(g):
                        bad.append("at `%s`: cannot establish %s of argument %d" % (T.render(node), rel, argi))
        site = "summary:" + ",".join("%s(%d)" % (r[0], r[1]) for r in s["some"])
        if n_some == 0:
            res.cannot("C01.S", fn, site, "no `Some(..)` result found in the callee", T.loc(b["tree"]))
        elif bad:
            res.add(Finding("C01.S", fn, site, "callee summary no longer holds: " + "; ".join(bad[:3]), loc=T.loc(b["tree"])))
        else:
            res.holds("C01.S", fn, site, "verified at %d Some(..) results" % n_some)


def _result_exprs(e, depth=0):
    """The expressions whose value an expression may take: through blocks (incl. the `break 'inl e` of an inlined helper),
    `match` arms and `if` branches."""
    e = T.peel(e)
    k = e.get("k")
    if depth > 6:
        return [e]
    if k in ("blockexpr", "block"):
        blk = e["block"] if k == "blockexpr" else e
        out = []
        if blk.get("tail") is not None:
            out += _result_exprs(blk["tail"], depth + 1)
        if k == "blockexpr" and e.get("inlined"):
            for n in T.nodes(blk):
                if n.get("k") == "break" and n.get("target") == e["id"] and n.get("e") is not None:
                    out += _result_exprs(n["e"], depth + 1)
        return out
    if k == "match":
        out = []
        for a in e["arms"]:
            out += _result_exprs(a["body"], depth + 1)
        return out
    if k == "if" and e.get("els") is not None:
        return _result_exprs(e["then"], depth + 1) + _result_exprs(e["els"], depth + 1)
    return [e]


def _local_values(b, lid):
    """Expressions a pattern-bound local may equal: `if let Ctor(x) = E` / `match E { Ctor(x) => .. }` / `let x = E`, with E's
    result expressions of the form Ctor(a) giving a.  None if the binding site is of another kind."""
    for n in T.nodes(b["tree"]):
        k = n.get("k")
        sites = []
        if k == "let" and n.get("init") is not None:
            sites.append((n["pat"], n["init"]))
        elif k == "let_cond":
            sites.append((n["pat"], n["e"]))
        elif k == "match":
            sites += [(a["pat"], n["scrut"]) for a in n["arms"]]
        for pat, scrut in sites:
            p = pat
            while p.get("p") == "ref":
                p = p["pat"]
            if p.get("p") == "bind" and p.get("id") == lid:
                return _result_exprs(scrut)
            if p.get("p") in ("tuple_struct", "struct"):
                subs = p.get("pats") or [f["pat"] for f in p.get("fields", [])]
                idx = [i for i, sp_ in enumerate(subs) if sp_.get("p") == "bind" and sp_.get("id") == lid]
                if len(idx) == 1:
                    ctor = p["res"].get("path")
                    out = []
                    for r in _result_exprs(scrut):
                        if r.get("k") == "call" and T.peel(r["f"]).get("k") == "path" and T.peel(r["f"])["res"].get("path") == ctor and idx[0] < len(r["args"]):
                            out.append(r["args"][idx[0]])
                        elif r.get("k") == "call" and T.peel(r["f"]).get("k") == "path" and str(T.peel(r["f"])["res"].get("dk", "")).startswith("Ctor"):
                            continue          # another variant: this pattern does not match it
                        elif r.get("k") == "path" and str(r["res"].get("dk", "")).startswith("Ctor"):
                            continue
                        else:
                            return None
                    return out
    return None


def _collect_results(w, b, results):
    """Facts at every point that produces the function's value: `return e`, the tail expression, and `break e` of a
    loop whose value is the function's value."""
    orig_break = w.w_break

    def wb(n, facts):
        if n.get("e") is not None and facts is not oblig.DIVERGE:
            f2 = w.W(n["e"], facts)
            if f2 is not oblig.DIVERGE:
                results.append((f2, n["e"]))
        return orig_break(n, facts)
    w.w_break = wb
    w.run()
    for facts, node in w.ret_facts:
        if node is not None and node.get("k") not in ("block", "blockexpr"):
            results.append((facts, node))


def _verify_count(b, s):
    """result = number of loop iterations (<= number of items): counter starts at 0, the only mutation is `+= 1` as a
    top-level statement of the for body over the argument, and the counter is returned; or a fold that adds 0/1."""
    lets = [x for x in T.nodes(b["tree"], "let") if x["pat"]["p"] == "bind" and "Mut" in x["pat"].get("mode", "") and x.get("init") is not None and T.lit_value(x["init"]) == 0]
    fors = list(T.nodes(b["tree"], "for"))
    pname = b["params"][s["of"]]["pat"].get("name")
    if len(lets) == 1 and len(fors) == 1:
        cid = lets[0]["pat"]["id"]
        if T.local_of(T.peel_ref(fors[0]["iter"])) != b["params"][s["of"]]["pat"].get("id"):
            return False, "the loop does not iterate the counted argument"
        ops = [n for n in T.nodes(b["tree"]) if n.get("k") in ("assign", "assign_op") and T.local_of(n["l"]) == cid]
        body = fors[0]["body"]
        blk = body["block"] if body.get("k") == "blockexpr" else body
        top = [T.peel(st["e"]) for st in blk.get("stmts", []) if st["k"] == "expr"]
        if len(ops) == 1 and ops[0].get("k") == "assign_op" and ops[0]["op"].startswith("+") and T.lit_value(ops[0]["r"]) == 1 and any(t is ops[0] for t in top):
            fb = T.peel(b["tree"])
            while fb.get("k") == "blockexpr":
                fb = fb["block"]
            if fb.get("tail") is not None and T.local_of(fb["tail"]) == cid:
                return True, "counter: 0, `+= 1` once per iteration of `for .. in %s`, returned" % pname
        return False, "counter is not incremented by exactly 1 once per iteration"
    # fold(0, |acc, v| if .. { acc + 1 } else { acc }) over s.chars()
    folds = [n for n in T.nodes(b["tree"], "mcall") if n["name"] == "fold"]
    if len(folds) == 1 and T.lit_value(folds[0]["args"][0]) == 0:
        clo = T.peel(folds[0]["args"][1])
        acc = clo["params"][0]["pat"]
        src = T.render(folds[0]["recv"])
        if src == "%s.chars()" % pname and acc["p"] == "bind":
            vals = set()
            body = T.peel(clo["body"])
            if body.get("k") == "if":
                for br in (body["then"], body.get("els")):
                    vals.add(T.render(T.peel(br)) if br is not None else None)
                a = acc["name"]
                if vals <= {"(%s + 1)" % a, a}:
                    return True, "fold(0, +0/+1) over %s.chars(): at most one per character <= byte length" % pname
        return False, "fold does not add 0 or 1 per character of the argument"
    # s.chars().filter(pred).count(): at most one per character <= byte length
    tail = T.peel(b["tree"])
    while tail.get("k") in ("blockexpr", "block"):
        blk_ = tail["block"] if tail["k"] == "blockexpr" else tail
        # statements without effect (a literal bound to a name - an inlined helper's parameter -, a unit expression) may precede
        inert = all((st.get("k") == "let" and st.get("init") is not None and T.peel(st["init"]).get("k") == "lit" and st["pat"].get("p") == "bind")
                    or (st.get("k") == "expr" and T.peel(st["e"]).get("k") == "tuple" and not T.peel(st["e"]).get("es")) for st in blk_["stmts"])
        if not inert or blk_.get("tail") is None:
            break
        tail = T.peel(blk_["tail"])
    if tail.get("k") == "mcall" and tail["name"] == "count":
        r = T.peel_ref(tail["recv"])
        if r.get("k") == "mcall" and r["name"] in ("filter", "take_while", "skip_while") and T.render(r["recv"]) in ("%s.chars()" % pname, "%s.bytes()" % pname, "%s.char_indices()" % pname):
            return True, "%s over %s.chars(), counted: at most one per character <= byte length" % (r["name"], pname)
        # s.matches(<non-empty pattern>).count(): non-overlapping matches of a pattern of >= 1 byte <= byte length
        if r.get("k") == "mcall" and r["name"] in ("matches", "match_indices", "rmatches") and T.render(r["recv"]) == pname and len(r["args"]) == 1:
            lv = T.lit_value(r["args"][0])
            if isinstance(lv, str) and len(lv) >= 1:
                return True, "%s(%r) over %s, counted: non-overlapping matches of a non-empty pattern <= byte length" % (r["name"], lv, pname)
    return False, "counting idiom not recognised"


def returned_units(ctx, res, prog, b, fn, uspec):
    """Boundary typestate of values handed to the formatter pipeline: ranges returned by Formatter::format /
    BlockFormatter::format / MarkerBuilder::build must not contain a definite raw byte offset."""
    io = b.get("impl_of") or {}
    tr = (io.get("trait") or "")
    if not (tr.endswith("Formatter") or tr.endswith("BlockFormatter") or tr.endswith("MarkerBuilder")):
        return
    un = U.Units(prog, b, uspec)
    sinks = []
    for n in T.nodes(b["tree"]):
        if n.get("k") == "tuple" and n.get("ty") == "(usize, usize)":
            sinks += [(e, "returned range endpoint") for e in n["es"]]
        if n.get("k") == "struct" and "Range" in (n["res"].get("path") or "") and n.get("ty", "").endswith("Range<usize>"):
            sinks += [(f["e"], "range endpoint") for f in n["fields"]]
    for e, what in sinks:
        u = un.unit(e)
        site = "units:%s" % T.render(e)
        if u == U.BR:
            res.add(Finding("C01.U", fn, site, "%s `%s` is a raw byte offset (char boundary + 1 with no ASCII guard): the range handed to replace_range can start/end "
                            "inside a multi-byte character" % (what, T.render(e)), loc=T.loc(e)))
        else:
            res.holds("C01.U", fn, site, u)


def mir_crosscheck(res, b, fn, obs):
    """Every MIR Assert of the body (overflow / bounds / division checks, as the analysed profile has them on) must
    correspond to an enumerated obligation at the same source position."""
    asserts = (b.get("mir") or {}).get("asserts", [])
    if not asserts:
        return
    pos = set()
    for o in obs:
        sp = o["node"].get("sp")
        if sp:
            pos.add((sp[1], sp[2]))
            # assign_op / binary: MIR spans the whole expression, same start
    unmatched = []
    for a in asserts:
        sp = a.get("sp")
        # panic checks inside a `debug_assert!` belong to the debug configuration only (the analysed one is release)
        if sp and any(s_[0] == sp[0] and (s_[1], s_[2]) <= (sp[1], sp[2]) <= (s_[3], s_[4]) for s_ in b.get("stripped_spans", [])):
            continue
        if not sp or a.get("exp"):
            continue
        if (sp[1], sp[2]) not in pos:
            unmatched.append("%s at %s:%d:%d" % (a["kind"], sp[0], sp[1], sp[2]))
    if unmatched:
        res.add(Finding("C01.MIR", fn, "mir-assert:" + unmatched[0].split(" at ")[0], "the compiler emits %d panic check(s) that the obligation enumeration does not cover "
                        "(enumeration incomplete): %s" % (len(unmatched), unmatched[:3]), loc=unmatched[0].split(" at ")[1], cannot_analyse=True))
    else:
        res.holds("C01.MIR", fn, "mir-asserts-covered", "%d MIR asserts all enumerated" % len(asserts))


def no_unsafe(ctx, res, bodies):
    n = 0
    for b in bodies:
        for x in T.nodes(b["tree"]):
            if x.get("k") == "block" and x.get("unsafe") and not x.get("exp"):
                n += 1
                res.add(Finding("C01.unsafe", fshort(b), "unsafe-block", "user-written unsafe block in code reachable from the entry points (valid-UTF-8 / memory-safety argument no longer applies)", loc=T.loc(x)))
            if x.get("k") in ("call", "mcall") and "unchecked" in (T.cname(x) or ""):
                n += 1
                res.add(Finding("C01.unsafe", fshort(b), "unchecked:" + (T.cname(x) or ""), "call to an unchecked function", loc=T.loc(x)))
    if n == 0:
        res.holds("C01.unsafe", "-", "no-unsafe", "no user-written unsafe / unchecked call in %d functions" % len(bodies))


def recursion_depth(ctx, res, bodies):
    """"never ... abort": a recursion whose depth grows with the size of the input overflows the stack (an abort that no
    handler can catch).  Every cycle of the call graph among the reachable functions is classified by what its recursive
    call is applied to:
      * a *literal base state* whose own arm does not recurse           -> depth 2 (tokenizer::get_state);
      * the `children` of the item being visited (structural recursion over the tree that the parser built) -> bounded by
        the depth the parser itself reached - reported at the parser, not again;
      * anything else (the parser itself: one level per opening tag that is not yet closed, flat sequences included)
        -> input-proportional: reported."""
    P = ctx.lib
    by_path = {b["def_path"]: b for b in bodies}
    graph = {p: {c for c, _ in P.callees(b) if c in by_path} for p, b in by_path.items()}

    def reach(a):
        seen, st = set(), list(graph.get(a, ()))
        while st:
            x = st.pop()
            if x not in seen:
                seen.add(x)
                st += list(graph.get(x, ()))
        return seen
    rec = sorted(p for p in graph if p in reach(p))
    res.floor("C01.REC", "recursive functions among the reachable ones", len(rec), 1)
    for p in rec:
        b = by_path[p]
        fn = fshort(b)
        calls = [n for n in T.nodes(b["tree"]) if n.get("k") in ("call", "mcall") and T.callee(n) == p]
        if not calls or p not in graph[p]:
            res.add(Finding("C01.REC", fn, "recursion", "mutual recursion through %s: depth not classified" % sorted(graph[p] & set(rec))[:3], loc=T.loc(b["tree"])))
            continue
        kinds = set()
        for c in calls:
            args = list(c.get("args", []))
            txt = [T.render(T.peel_ref(a)) for a in args]
            if any(re.search(r"(^|[^\w])(\w+)\.children$", t) for t in txt):
                kinds.add("children")
            elif any(T.peel(a).get("k") == "path" and (T.peel(a).get("res") or {}).get("dk") in ("Ctor", "Variant") or
                     ((T.peel(a).get("res") or {}).get("r") == "def" and "State::" in T.render(T.peel(a))) for a in args):
                # the state argument is a unit variant: its arm must not recurse
                base = [T.render(T.peel(a)).split("::")[-1] for a in args if "State::" in T.render(T.peel(a))]
                arms_ok = True
                for m in T.nodes(b["tree"], "match"):
                    for arm in m["arms"]:
                        if any(T.rpat(arm["pat"]).split("::")[-1].startswith(bn) for bn in base):
                            if any(x.get("k") in ("call", "mcall") and T.callee(x) == p for x in T.nodes(arm["body"])):
                                arms_ok = False
                kinds.add("base-state" if arms_ok else "other")
            else:
                kinds.add("other")
        if kinds == {"base-state"}:
            res.holds("C01.REC", fn, "recursion", "re-dispatch on a literal base state whose arm does not recurse: depth 2")
        elif kinds == {"children"}:
            res.holds("C01.REC", fn, "recursion", "structural recursion over `.children` of the parsed tree: not deeper than the parser went")
        else:
            res.add(Finding("C01.REC", fn, "recursion", "the recursion depth of %s grows with the input (one stack frame per opening tag that is not yet closed, also "
                            "for a flat sequence of unclosed or stray tags): a large enough document overflows the stack and the process aborts" % fn,
                            loc=T.loc(calls[0])))
