"""C12 - unwrap dedent: four structural clauses."""
import re
from .. import absint as A
from .. import linear
from .. import tree as T
from ..report import Finding
from . import deletion, fshort

LEVEL = "other"


def run(ctx, res):
    P = ctx.lib
    res.explanation = (
        "Clauses decided: R1 only blanks are consumed - both endpoints of every dedent range are min(_, first non-blank of "
        "the line), anchored at the line start, and the scanners' byte tables (C02.R4) hold; R2 the dedent amount is "
        "saturating (never negative) and is measured on the first inner line only; R3 the backward line-break scan examines byte 0 before leaving on cursor == 0 (block on "
        "the first line of a file); R4 head/tail pair indices survive the splicing of child markers into the parent list "
        "(index-space rule: indices are produced relative to acc.len() and spliced children are rebased by a linear map that "
        "is checked symbolically); R5 the dedent ranges of all blocks are sorted by start before merge_ranges (blocks nest, so they do not arrive in order).  "
        "R6 every line of the block is visited: one step of the line walk goes on only inside the block, to the next line start found by a non-pausing scan, "
        "and a line with a non-blank character gives up a range of one of four shapes built from the tag's own indentation and the common shift; R7 the ranges reach "
        "the deletion (all removed positions, all block formatters, merge_ranges runs while new ranges remain).  Not decided: correctness at nesting depth "
        ">= 2 beyond R4 / R5.")
    res.trusted += ["driver fact extraction and the abstract interpreter"]
    deletion.block_ranges(ctx, res, "C12.R1")
    deletion.scanner_tables(ctx, res, "C12.R1t")
    saturating_amount(ctx, res, "C12.R2")
    amount_from_first_line(ctx, res, "C12.R2b")
    indent_measure(ctx, res, "C12.R2c")
    deletion.byte0_examined(ctx, res, "C12.R3")
    pair_indices(ctx, res, "C12.R4")
    block_ranges_sorted(ctx, res, "C12.R5")
    every_line_visited(ctx, res, "C12.R6")
    dedent_ranges_reach_deletion(ctx, res, "C12.R7")


def dedent_amount_let(P, b):
    """The `let` in BlockIndentRemover::format that defines the dedent amount: the local added to the range start inside
    the `min(start + AMOUNT, first non-blank)` that gives the range end (found by role, not by name; followed through a
    same-file helper that builds the range)."""
    src_file = (b["tree"].get("sp") or [None])[0]
    cands = [(b, None)]
    for c in T.nodes(b["tree"], "call"):
        h = P.bodies.get(T.callee(c) or "")
        if h is not None and h is not b and (h["tree"].get("sp") or [0])[0] == src_file:
            cands.append((h, c))
    for body, call in cands:
        lets = {s["pat"]["id"]: s for s in T.nodes(body["tree"], "let") if s["pat"]["p"] == "bind"}
        for n in T.nodes(body["tree"], "struct"):
            if {f["name"] for f in n["fields"]} != {"start", "end"} or "Range" not in (n["res"].get("path") or n.get("ty") or ""):
                continue
            fe = {f["name"]: T.peel(f["e"]) for f in n["fields"]}
            if T.local_of(fe["start"]) is None or T.local_of(fe["end"]) is None:
                continue
            d = lets.get(T.local_of(fe["end"]))
            d = T.peel(d["init"]) if d is not None and d.get("init") is not None else None
            if d is None or T.min_args(d) is None:
                continue
            a0 = T.peel(T.min_args(d)[0])
            if a0.get("k") == "binary" and a0["op"] == "+" and T.local_of(a0["l"]) == T.local_of(fe["start"]):
                lid = T.local_of(a0["r"])
                if lid in lets:
                    return lets[lid] if body is b else None
                if call is not None:
                    idx = [k for k, p_ in enumerate(body["params"]) if p_["pat"]["p"] == "bind" and p_["pat"]["id"] == lid]
                    if len(idx) == 1:
                        blets = {s["pat"]["id"]: s for s in T.nodes(b["tree"], "let") if s["pat"]["p"] == "bind"}
                        return blets.get(T.local_of(T.peel_ref(call["args"][idx[0]])))
    return None


def saturating_amount(ctx, res, rule):
    P = ctx.lib
    b = P.fn("BlockIndentRemover::format")
    fn = fshort(b)
    amount = dedent_amount_let(P, b)
    if amount is None or amount.get("init") is None:
        res.cannot(rule, fn, "amount", "the dedent amount (the local added to the range start) was not found", T.loc(b["tree"]))
        return
    init = T.peel(amount["init"])
    r = T.render(init)
    if init.get("k") == "mcall" and init["name"] in ("saturating_sub",):
        res.holds(rule, fn, "amount:" + r, "saturating")
    elif init.get("k") == "mcall" and init["name"] in ("checked_sub",):
        res.holds(rule, fn, "amount:" + r, "checked")
    elif init.get("k") == "binary" and init["op"] == "-":
        res.add(Finding(rule, fn, "amount:" + r, "the dedent amount is a plain subtraction: when the first body line is indented less than the tag it "
                        "underflows (panic / huge value) instead of being zero", loc=T.loc(init)))
    elif init.get("k") == "mcall" and init["name"] == "wrapping_sub":
        res.add(Finding(rule, fn, "amount:" + r, "the dedent amount wraps around when the first body line is indented less than the tag", loc=T.loc(init)))
    elif init.get("k") == "if" and init.get("els") is not None and T.lit_value(T.peel(init["els"])) == 0 and T.peel(init["then"]).get("k") == "binary" and T.peel(init["then"])["op"] == "-":
        # if a > b { a - b } else { 0 }: the guarded spelling of saturating_sub
        c_, t_ = T.peel(init["cond"]), T.peel(init["then"])
        if c_.get("k") == "binary" and c_["op"] in (">", ">=") and T.render(c_["l"]) == T.render(t_["l"]) and T.render(c_["r"]) == T.render(t_["r"]):
            res.holds(rule, fn, "amount:" + r[:60], "guarded subtraction")
        else:
            res.add(Finding(rule, fn, "amount:" + r[:60], "the dedent amount is a subtraction whose guard does not compare the same operands", loc=T.loc(init)))
    else:
        res.add(Finding(rule, fn, "amount:" + r[:60], "the dedent amount is `%s`, not (indentation of the first inner line) saturating-minus (indentation of the tag): "
                        "lines deeper than the first inner line are shifted by a wrong amount" % r[:80], loc=T.loc(init)))


def indent_measure(ctx, res, rule):
    """The indentation of a line is (first non-blank position) - (line start), the first-non-blank scan being seeded at the
    line start, and the line start being (previous line break) + 1: `find_prev(..).and_then(|p| find_next_char(.., p + 1)
    .map(|e| e - p - 1)).unwrap_or(0)`.  Decided on the linear form of the value on the path where both scans succeed."""
    P = ctx.lib
    b = P.fn("block_indent_remover::get_indent_len", required=False)
    if b is None:
        # the measurement was inlined into format: C12.R2b judges its shape there; its arithmetic is the same expression
        b = P.fn("BlockIndentRemover::format")
    fn = fshort(b)
    loc = T.loc(b["tree"])
    # the expression that calls find_next_char_pos inside a combinator chain on find_prev_line_break_pos
    cands = [n for n in T.nodes(b["tree"], "mcall") if n["name"] in ("unwrap_or", "map_or", "unwrap_or_default")
             and any(T.short_path(T.callee(x) or "").endswith("find_next_char_pos") for x in T.nodes(n, "call"))
             and any(T.short_path(T.callee(x) or "").endswith("find_prev_line_break_pos") for x in T.nodes(n, "call"))]
    whole = None
    if len(cands) != 1:
        if fn.endswith("get_indent_len"):
            whole = b            # written with statements (let-else / match): the function as a whole is the measurement
        else:
            res.cannot(rule, fn, "indent-measure", "the indentation measurement (prev line break -> first non-blank) was not found as one expression", loc)
            return
    I = A.Interp(P)
    I.lazy_locals = True
    try:
        if whole is not None:
            outs = I.explore(lambda J: J.call_fn_body(whole, [A.Sym(p_["pat"].get("name") or "p%d" % i) for i, p_ in enumerate(whole["params"])]))
            cands = [whole["tree"]]
        else:
            outs = I.explore(lambda J: J.ev(cands[0], {}))
    except A.Cannot as e:
        res.cannot(rule, fn, "indent-measure", str(e), loc)
        return
    both = [o for o in outs if sum(1 for k, v in o["decisions"].items() if k.startswith("is_some(") and v is True) == 2]
    ok = len(both) == 1
    why = "no path on which both scans succeed"
    if ok:
        term = A.show(both[0]["value"])
        lin = linear.linear_of_term(term)
        atoms = [k for k in (lin or {}) if k != "1"]
        e_atoms = [k for k in atoms if k.startswith("find_next_char_pos(")]
        p_atoms = [k for k in atoms if k.startswith("find_prev_line_break_pos(")]
        ok = lin is not None and len(atoms) == 2 and len(e_atoms) == 1 and len(p_atoms) == 1 and lin.get(e_atoms[0]) == 1 and lin.get(p_atoms[0]) == -1 and lin.get("1", 0) == -1
        why = "the measured width is `%s`" % term[:160]
        if ok:
            # the first-non-blank scan starts at the line start = previous line break + 1
            seed = "(%s + 1)" % p_atoms[0]
            ok = (", %s).some" % seed) in e_atoms[0]
            why = "the first-non-blank scan is not seeded at the line start `%s`: %s" % (seed[:60], e_atoms[0][:120])
    others = [o for o in outs if o not in both]
    if ok and not all(isinstance(o["value"], A.Lit) and o["value"].v == 0 for o in others):
        ok, why = False, "when a scan finds nothing the width is not 0"
    if ok:
        res.holds(rule, fn, "indent-measure", "first non-blank - (previous line break + 1), 0 when a scan finds nothing")
    else:
        res.add(Finding(rule, fn, "indent-measure", "the indentation of the first inner line is not measured as (first non-blank) - (line start): %s; every inner line "
                        "is then shifted by a wrong amount" % why, loc=T.loc(cands[0])))


def amount_from_first_line(ctx, res, rule):
    """The dedent amount is (indentation of the first inner line) saturating-minus (indentation of the opening tag): it
    must be computed from the line that starts right behind the seam, and from that line only."""
    P = ctx.lib
    b = P.fn("BlockIndentRemover::format")
    fn = fshort(b)
    lets = {s["pat"]["name"]: s for s in T.nodes(b["tree"], "let") if s["pat"]["p"] == "bind" and s.get("init") is not None}
    amount = dedent_amount_let(P, b)
    if amount is None or amount.get("init") is None:
        res.cannot(rule, fn, "amount", "dedent amount not found", T.loc(b["tree"]))
        return
    pn = [p_["pat"].get("name") for p_ in b["params"]]
    if len(pn) != 4 or None in pn[1:]:
        res.cannot(rule, fn, "params", "format(&self, content, start, end) expected", T.loc(b["tree"]))
        return
    cn, sn = pn[1], pn[2]
    byte_views = {nm for nm, s_ in lets.items() if T.render(s_["init"]) == "%s.as_bytes()" % cn}
    init = T.peel(amount["init"])
    if not (init.get("k") == "mcall" and init["name"] in ("saturating_sub", "checked_sub")):
        return   # judged by R2
    first = T.peel_ref(init["recv"])
    ofs = T.peel_ref(init["args"][0])

    def resolve(n):
        lid = T.local_of(n)
        for s in lets.values():
            if lid is not None and s["pat"]["id"] == lid:
                return T.peel(s["init"])
        return n
    first_d, ofs_d = resolve(first), resolve(ofs)
    ok = True
    why = []
    if first_d.get("k") == "call" and T.callee(first_d) in P.bodies:
        args = [T.render(resolve(a)) for a in first_d["args"]]
        extra = [a for a in args if a not in {cn, "(%s + 1)" % sn, "%s.as_bytes()" % cn} | byte_views]
        if extra:
            ok = False
            why.append("the first-line indentation is computed from %s (it must depend on the first inner line only, i.e. on content and start_byte_pos + 1)" % extra)
        cb = P.bodies[T.callee(first_d)]
        if any(n.get("k") in ("loop", "for") for n in T.nodes(cb["tree"])):
            ok = False
            why.append("`%s` walks over several lines (loop): the amount is no longer the indentation of the *first* inner line" % fshort(cb))
        cf = [n for n in T.nodes(cb["tree"], "call") if T.short_path(T.callee(n) or "").endswith("find_next_char_pos")]
        if len(cf) != 1:
            ok = False
            why.append("`%s` does not measure exactly one line" % fshort(cb))
    else:
        # the measurement written in place: an expression without loops whose only scans are one backward line-break scan and
        # one first-non-blank scan, and whose free locals are the text, its bytes and the first-line start (seam + 1)
        calls = [T.short_path(T.callee(n) or "").split("::")[-1] for n in T.nodes(first_d, "call") if (T.callee(n) or "") in P.bodies]
        bound_inside = {x["id"] for c_ in T.nodes(first_d, "closure") for p_ in c_["params"] for x in T.pat_nodes(p_["pat"]) if x.get("p") == "bind"}
        free = []
        for n in T.nodes(first_d, "path"):
            lid = T.local_of(n)
            if lid is not None and lid not in bound_inside:
                free.append(T.render(resolve(n)))
        extra = [a for a in free if a not in {cn, "(%s + 1)" % sn, "%s.as_bytes()" % cn} | byte_views]
        if sorted(calls) != ["find_next_char_pos", "find_prev_line_break_pos"] or any(n.get("k") in ("loop", "for") for n in T.nodes(first_d)):
            ok = False
            why.append("first-line indentation is `%s`, not a measurement of the line behind the seam" % T.render(first_d)[:80])
        elif extra:
            ok = False
            why.append("the first-line indentation is computed from %s (it must depend on the first inner line only, i.e. on content and %s + 1)" % (sorted(set(extra)), sn))
    if True:
        tr = T.render(ofs_d)
        calls_ok = any(("find_prev_line_break_pos(%s, %s, %s, true)" % (cn, bv, sn)) in tr for bv in byte_views | {"%s.as_bytes()" % cn})
        if not (calls_ok and re.search(r"\(%s - \w+\)" % re.escape(sn), tr)):
            ok = False
            why.append("the tag indentation is `%s`, not the distance from the seam back to the previous line break" % tr[:100])
    if ok:
        # the tag indentation: distance from the previous line break, and 0 when there is none (tag on the first line) - the
        # function goes on in both cases
        try:
            I = A.Interp(P)
            I.lazy_locals = True
            outs = I.explore(lambda J: J.ev(ofs_d, {}))
            nolb = []
            for o in outs:
                found = [v for k, v in o["decisions"].items() if k.startswith("is_some(find_prev_line_break_pos(")]
                if o["exit"] != "fall":
                    ok = False
                    why.append("computing the tag indentation leaves the function (%s) when %s: the block is then not dedented at all" % (o["exit"], "no line break precedes the tag" if found == [False] else "a line break precedes the tag"))
                elif found == [False]:
                    nolb.append(o)
                elif found == [True]:
                    lin = linear.linear_of_term(A.show(o["value"]))
                    pterm = [k for k in (lin or {}) if k.startswith("find_prev_line_break_pos(")]
                    if lin is None or len(pterm) != 1 or lin.get(pterm[0]) != -1 or lin.get(sn) != 1 or lin.get("1", 0) != -1 or len(lin) != 3:
                        ok = False
                        why.append("the tag indentation is `%s`, not %s - (previous line break) - 1" % (A.show(o["value"])[:80], sn))
            # no line break found by the pausing scan: either text precedes the tag on its line (the tag has no indentation of
            # its own: 0) or the scan ran into the start of the file over blanks only - then the tag is indented by the whole
            # distance from the start of the file.  A single answer for both cases cannot be right.
            vals = sorted({A.show(o["value"]) for o in nolb})
            if nolb and ok:
                if len(nolb) >= 2 and sn in vals and "0" in vals:
                    res.holds(rule, fn, "tag-indent-at-start-of-file", "start of the file over blanks only => %s; text before the tag => 0" % sn)
                elif vals == ["0"]:
                    res.add(Finding(rule, fn, "tag-indent-at-start-of-file", "when no line break precedes the opening tag its indentation is taken as 0, also when the "
                                    "tag is indented on the first line of the file (only blanks between the start of the file and the tag): the body is then "
                                    "dedented by the whole indentation of its first line, lines move left of the tag's column and lose their relative "
                                    "indentation", loc=T.loc(amount)))
                else:
                    ok = False
                    why.append("with no line break before the tag the tag indentation is %s (expected: 0 when text precedes the tag, %s when only blanks "
                               "separate it from the start of the file)" % (vals, sn))
        except A.Cannot as e:
            ok = False
            why.append("tag indentation not interpretable: %s" % e)
    if ok:
        res.holds(rule, fn, "amount-from-first-line", "indent(first inner line) saturating_sub indent(tag)")
    else:
        res.add(Finding(rule, fn, "amount-from-first-line", "; ".join(why), loc=T.loc(amount)))


def block_ranges_sorted(ctx, res, rule):
    """Unwrap-blocks nest, so the dedent ranges of different blocks do not arrive in ascending order; merge_ranges
    inserts by walking backwards once and needs its second argument ascending: the list must be sorted (or come from a
    sorted merge) before it is handed over.  Necessary for `this holds at every nesting depth`."""
    P = ctx.lib
    b = P.fn("code::formatter::format")
    fn = fshort(b)
    calls = [n for n in T.nodes(b["tree"], "call") if T.short_path(T.callee(n) or "").endswith("merge_ranges")]
    if len(calls) != 1 or len(calls[0]["args"]) != 2:
        res.cannot(rule, fn, "merge-call", "call of merge_ranges(&mut ranges, block_ranges) not found", T.loc(b["tree"]))
        return
    lid = T.local_of(T.peel_ref(calls[0]["args"][1]))
    if lid is None:
        res.cannot(rule, fn, "merge-call", "block ranges are not a local list", T.loc(calls[0]))
        return
    # is the list filled for more than one block (inside the loop over removed positions)?
    blk = T.peel(b["tree"])
    while blk.get("k") == "blockexpr":
        blk = blk["block"]
    seq = [T.peel(st["e"]) if st["k"] == "expr" else st for st in blk["stmts"]]
    idx_call = next((i for i, st_ in enumerate(seq) if any(x is calls[0] for x in T.nodes(st_))), None)
    last_fill = None
    sorted_after = None
    for i, st_ in enumerate(seq[: idx_call if idx_call is not None else len(seq)]):
        for x in T.nodes(st_, "mcall"):
            if T.local_of(T.peel_ref(x["recv"])) != lid:
                continue
            if x["name"] in ("extend", "push", "append", "insert"):
                last_fill = i
            if x["name"] in ("sort", "sort_unstable", "sort_by_key", "sort_unstable_by_key", "sort_by", "sort_unstable_by"):
                key_ok = x["name"] in ("sort", "sort_unstable")
                if x["args"]:
                    r = T.render(x["args"][0]).replace(" ", "")
                    key_ok = bool(__import__("re").match(r"^\|(\w+)\|\1\.start$", r)) or bool(__import__("re").match(r"^\|(\w+),(\w+)\|\1\.start\.cmp\(&\2\.start\)$", r))
                if key_ok:
                    sorted_after = i
    if last_fill is None:
        res.cannot(rule, fn, "block-range-fill", "the block range list is never filled", T.loc(b["tree"]))
        return
    if sorted_after is not None and sorted_after >= last_fill:
        res.holds(rule, fn, "block-ranges-sorted", "sorted by start after the last fill, before merge_ranges")
    else:
        res.add(Finding(rule, fn, "block-ranges-sorted", "the dedent ranges of all unwrap-blocks are concatenated in marker order and handed to merge_ranges unsorted: for nested "
                        "unwrap-blocks the inner block's ranges follow the outer block's, merge_ranges (one backward walk) misplaces them and the overlap merge drops them - the "
                        "inner body is not dedented", loc=T.loc(calls[0])))


def pair_indices(ctx, res, rule):
    """Index-space rule for RemoveMarker.1 in Remover::merge_markers."""
    P = ctx.lib
    b = P.fn("Remover::merge_markers")
    fn = fshort(b)
    loc = T.loc(b["tree"])
    folds = [n for n in T.nodes(b["tree"], "mcall") if n["name"] == "fold"]
    if len(folds) != 1:
        res.cannot(rule, fn, "fold", "expected one fold", loc)
        return
    clo = T.peel(folds[0]["args"][1])
    accp = clo["params"][0]["pat"]
    if accp["p"] != "bind":
        res.cannot(rule, fn, "acc", "accumulator pattern", loc)
        return
    acc_id = accp["id"]
    # `current = acc.len()` snapshots
    currents = {}
    for s in T.nodes(clo["body"], "let"):
        if s["pat"]["p"] == "bind" and s.get("init") is not None and T.render(s["init"]) == "%s.len()" % accp["name"]:
            currents[s["pat"]["id"]] = s["pat"]["name"]
    sites = 0
    for n, parents in T.walk(clo["body"]):
        if n.get("k") != "mcall" or T.local_of(T.peel_ref(n["recv"])) != acc_id:
            continue
        if n["name"] == "push":
            arg = T.peel(n["args"][0])
            if arg.get("k") != "tuple" or len(arg["es"]) != 2:
                res.cannot(rule, fn, "push:" + T.render(arg)[:60], "pushed marker is not a (range, pair) tuple", T.loc(n))
                continue
            idx = T.peel(arg["es"][1])
            r = T.render(idx)
            sites += 1
            if r.endswith("None"):
                res.holds(rule, fn, "push-index:None")
                continue
            # Some(expr): expr must be linear in a `current` snapshot with coefficient 1
            if idx.get("k") == "call" and len(idx["args"]) == 1:
                lin = linear.linear_form(idx["args"][0])
                if lin is not None and any(lin.get(nm) == 1 for nm in currents.values()):
                    res.holds(rule, fn, "push-index:" + linear.show(lin), "relative to acc.len()")
                    continue
            res.add(Finding(rule, fn, "push-index:" + r[:80], "a marker is pushed with pair index `%s`, which is not expressed relative to the list's current length" % r, loc=T.loc(n)))
        elif n["name"] in ("extend", "append", "extend_from_slice"):
            sites += 1
            arg = T.peel_ref(n["args"][0])
            # elements that come from another marker list must be rebased
            src_txt = T.render(arg)
            m = [x for x in T.nodes(arg, "mcall") if x["name"] == "map"]
            if not m:
                res.add(Finding(rule, fn, "splice:" + src_txt[:80], "markers of another list are spliced into the accumulator without rebasing their pair indices "
                                "(`%s`): a nested unwrap-block's head then points at an unrelated marker or out of bounds" % src_txt[:120], loc=T.loc(n)))
                continue
            mp = m[0]
            mclo = T.peel(mp["args"][0])
            rr = T.render(mp["recv"])
            # `xs.into_iter().skip(a).take(b - a)` is the window `xs[a..b]` taken by value
            win = re.match(r"^(\w+)\.(?:into_iter|iter)\(\)\.skip\((\w+)\)\.take\(\((\w+) - (\w+)\)\)$", rr)
            if win and win.group(2) == win.group(4):
                pass
            elif T.shortened(rr):
                res.add(Finding(rule, fn, "splice-complete", "the kept child markers are spliced through `%s`: a kept child's marker is dropped or moved" % rr[-60:], loc=T.loc(n)))
                continue
            # slice offset: child_markers[a..b]
            idxs = [x for x in T.nodes(mp["recv"], "index")]
            off = None
            if win and win.group(2) == win.group(4):
                off, hi = win.group(2), win.group(3)
            elif idxs:
                rng = T.peel(idxs[0]["idx"])
                if rng.get("k") == "struct":
                    f = {x["name"]: x["e"] for x in rng["fields"]}
                    off = T.render(f["start"]) if "start" in f else "0"
                    hi = T.render(f["end"]) if "end" in f else None
            if off is None:
                res.cannot(rule, fn, "splice:" + src_txt[:60], "cannot determine the offset of the spliced slice", T.loc(n))
                continue
            I = A.Interp(P)
            I.lazy_locals = True

            def run_(J):
                env = {}
                if not J.match_pat(mclo["params"][0]["pat"], A.Tuple([A.Sym("range"), A.Sym("pair")]), env):
                    raise A.Cannot("map closure parameter")
                return J.ev(mclo["body"], env)
            try:
                outs = I.explore(run_)
            except A.Cannot as e:
                res.cannot(rule, fn, "splice-map", str(e), T.loc(mp))
                continue
            okk = True
            why = ""
            for o in outs:
                v = o["value"]
                if not isinstance(v, A.Tuple) or len(v.items) != 2:
                    okk, why = False, "map closure returns %s" % A.show(v)[:80]
                    break
                pv = v.items[1]
                if isinstance(pv, A.Variant) and pv.name == "None":
                    # completeness: a partner that is kept (off <= p < hi) must keep its pair index
                    d = o["decisions"]
                    below = any((k_ == "ord(%s, %s)" % tuple(sorted(["pair.some", off])) and _lt(k_, v_, "pair.some", off)) for k_, v_ in d.items())
                    above = hi is not None and any((k_ == "ord(%s, %s)" % tuple(sorted(["pair.some", hi])) and _le(k_, v_, hi, "pair.some")) for k_, v_ in d.items())
                    has_partner = any(k_ == "is_some(pair)" and v_ is True for k_, v_ in d.items()) or any("pair.some" in k_ for k_ in d)
                    if has_partner and not below and not above:
                        okk, why = False, "a partner inside the kept slice (%s <= p < %s) loses its pair index (decisions %s)" % (off, hi, {k_: v_ for k_, v_ in d.items() if k_.startswith("ord(")})
                        break
                    continue
                if isinstance(pv, A.Variant) and pv.name == "Some":
                    lin = linear.linear_of_term(A.show(pv.args[0]))
                    want = {"pair.some": 1, off: -1, "1": 1}
                    cur = [nm for nm in currents.values() if lin and lin.get(nm) == 1]
                    if lin is None or not cur or any(lin.get(k_) != v_ for k_, v_ in want.items()) or len(lin) != 4:
                        okk, why = False, "rebased index is `%s`, expected p - %s + current + 1" % (A.show(pv.args[0]), off)
                        break
                    # guard: offset <= p < hi on this path
                    d = o["decisions"]
                    lo_ok = any((k_ == "ord(%s, %s)" % tuple(sorted(["pair.some", off])) and _le(k_, v_, off, "pair.some")) for k_, v_ in d.items())
                    hi_ok = hi is None or any((k_ == "ord(%s, %s)" % tuple(sorted(["pair.some", hi])) and _lt(k_, v_, "pair.some", hi)) for k_, v_ in d.items())
                    if not (lo_ok and hi_ok):
                        okk, why = False, "a rebased index is produced without the guard %s <= p < %s (partner absorbed into head/tail)" % (off, hi)
                        break
                else:
                    okk, why = False, "pair component is %s" % A.show(pv)[:80]
                    break
            if okk:
                res.holds(rule, fn, "splice-rebased", "children[%s..%s] mapped with p -> p - %s + current + 1 (guarded)" % (off, hi, off))
            else:
                res.add(Finding(rule, fn, "splice-rebased", "child markers are spliced with a wrong index map: " + why, loc=T.loc(mp)))
    res.floor(rule, "marker insertions into the accumulator of merge_markers", sites, 4)
    # head / tail indices around a splice: [push(head, current + n + 1), extend(children[off..hi]), push(tail, current)]
    for blk in T.nodes(clo["body"], "block"):
        seq = []
        for st in blk["stmts"]:
            if st["k"] != "expr":
                continue
            e = T.peel(st["e"])
            if e.get("k") == "mcall" and T.local_of(T.peel_ref(e["recv"])) == acc_id and e["name"] in ("push", "extend"):
                seq.append(e)
        if not any(e["name"] == "extend" for e in seq):
            continue
        names = [e["name"] for e in seq]
        if names != ["push", "extend", "push"]:
            res.add(Finding(rule, fn, "pair-shape:" + ",".join(names), "an unwrap pair must be emitted as head, spliced children, tail (found %s)" % names, loc=T.loc(blk)))
            continue
        ext = seq[1]
        idxs = [x for x in T.nodes(ext["args"][0], "index")]
        rng = T.peel(idxs[0]["idx"]) if idxs else None
        if rng is None or rng.get("k") != "struct":
            continue
        f = {x["name"]: T.render(x["e"]) for x in rng["fields"]}
        off, hi = f.get("start", "0"), f.get("end")
        cur = list(currents.values())

        def idx_lin(push):
            a = T.peel(push["args"][0])
            i = T.peel(a["es"][1]) if a.get("k") == "tuple" and len(a["es"]) == 2 else None
            if i is None or i.get("k") != "call" or len(i["args"]) != 1:
                return None
            return linear.linear_form(i["args"][0])
        hl, tl = idx_lin(seq[0]), idx_lin(seq[2])
        want_head = [linear.combine(linear.combine({c: 1, "1": 1}, {hi: 1}, 1), {off: 1}, -1) for c in cur]
        want_tail = [{c: 1} for c in cur]
        if hl in want_head and tl in want_tail:
            res.holds(rule, fn, "pair-indices", "head -> current + (%s - %s) + 1, tail -> current" % (hi, off))
        else:
            res.add(Finding(rule, fn, "pair-indices", "head/tail pair indices do not point at each other: head=%s tail=%s, expected head = current + (%s - %s) + 1 and tail = current"
                            % (linear.show(hl) if hl else None, linear.show(tl) if tl else None, hi, off), loc=T.loc(blk)))


def _le(key, val, a, b):
    """decision `ord(x, y)`=val establishes a <= b ?"""
    x, y = key[4:-1].split(", ", 1)
    if (x, y) == (a, b):
        return val in ("<", "=")
    if (x, y) == (b, a):
        return val in (">", "=")
    return False


def _lt(key, val, a, b):
    x, y = key[4:-1].split(", ", 1)
    if (x, y) == (a, b):
        return val == "<"
    if (x, y) == (b, a):
        return val == ">"
    return False


def every_line_visited(ctx, res, rule):
    """`every surviving inner line is shifted`: the walk over the lines of the block goes from one line start to the next by a
    *non-pausing* line-break scan from the current line start, stops only at the end of the block (or of the text), and a line
    that has a non-blank character gets a range unless two of the range's candidate endpoints coincide (nothing to take)."""
    import re as _re
    P = ctx.lib
    b = P.fn("BlockIndentRemover::format")
    fn = fshort(b)
    loc = T.loc(b["tree"])
    loops = [n for n in T.nodes(b["tree"]) if n.get("k") in ("loop", "for")]
    if len(loops) != 1 or loops[0].get("k") != "loop":
        res.cannot(rule, fn, "line-walk", "expected one `while` / `loop` over the lines of the block", loc)
        return
    loop = loops[0]
    I = A.Interp(P, max_paths=4000)
    I.lazy_locals = True

    def run(J):
        env = {}
        if "while_cond" in loop and not J.cond(loop["while_cond"], env):
            raise A._Break(None)
        return J.ev(loop["body"], env)
    try:
        outs = I.explore(run)
    except A.Cannot as e:
        res.cannot(rule, fn, "line-walk", str(e), loc)
        return
    ps = [p_["pat"].get("name") for p_ in b["params"]]
    end = ps[3] if len(ps) == 4 else "end_byte_pos"
    curs = {e[1] for o in outs for e in o["effects"] if e[0] == "assign"}
    if len(curs) != 1:
        res.cannot(rule, fn, "line-walk", "the line cursor (the one local assigned in the walk) was not identified: %s" % sorted(map(str, curs)), loc)
        return
    cur = str(list(curs)[0])
    scan = "find_next_line_break_pos(content, bytes, %s, false)" % cur
    nxt = "(%s.some + 1)" % scan

    def rel(d, a, b_):
        """the decided ordering of a against b_ ('<', '=', '>') or None"""
        if "ord(%s, %s)" % (a, b_) in d:
            return d["ord(%s, %s)" % (a, b_)]
        v = d.get("ord(%s, %s)" % (b_, a))
        return {"<": ">", ">": "<", "=": "="}.get(v)
    def _two_terms(k):
        m_ = re.match(r"^ord\((.*)\)$", k)
        if not m_:
            return False
        depth = 0
        for i_, ch in enumerate(m_.group(1)):
            depth += ch in "([{"
            depth -= ch in ")]}"
            if ch == "," and depth == 0:
                return m_.group(1)[:i_].strip() != m_.group(1)[i_ + 1:].strip()
        return False
    # the two amounts: the tag's own indentation (measured by a pausing backward scan from the start of the block) and the
    # common shift (a saturating difference)
    ofs_name = len_name = None
    for s_ in T.nodes(b["tree"], "let"):
        if s_["pat"].get("p") == "bind" and s_.get("init") is not None:
            r_ = T.render(s_["init"])
            if "find_prev_line_break_pos(" in r_ and ps[2] in r_:
                ofs_name = s_["pat"]["name"]
            if ".saturating_sub(" in r_:
                len_name = s_["pat"]["name"]
    n = 0
    for o in outs:
        d = o["decisions"]
        label = ",".join("%s" % v for v in d.values())[:60]
        bad = None
        other = [k for k in d if "find_next_line_break_pos(" in k and scan not in k]
        if other:
            bad = "walks the lines with `%s`, not with a non-pausing scan from the current line start" % _re.findall(r"find_next_line_break_pos\([^()]*\)", other[0])[:1]
        w = rel(d, cur, end)
        has_next = d.get("is_some(%s)" % scan)
        e_ = rel(d, nxt, end)
        if bad:
            pass
        elif o["exit"] == "break":
            if not (w in ("=", ">") or has_next is False or e_ == ">"):
                bad = "leaves the walk although the current line starts inside the block and the next line start does not lie behind its end (decisions %s)" % dict(d)
        elif o["exit"] in ("fall", "continue"):
            asg = [A.show(e[2]) for e in o["effects"] if e[0] == "assign" and str(e[1]) == cur]
            pushes = [e for e in o["effects"] if e[0] == "push"]
            if w != "<" or has_next is not True or e_ not in ("<", "="):
                bad = "goes on although the current line start is not inside the block / no further line break was found / the next line starts behind the end of the block"
            elif asg != [nxt]:
                bad = "continues at %s, not at the start of the next line `%s`" % (asg, nxt)
            elif d.get("is_some(find_next_char_pos(content, bytes, %s))" % cur) is True and not pushes and not any(v == "=" for k, v in d.items() if k.startswith("ord(")) and not any(e[0] == "same" for e in o["effects"]):
                bad = "leaves a line with a non-blank character without a range although no two candidate endpoints coincide"
            elif pushes and ofs_name and len_name:
                got = [A.show(e[2]) for e in pushes]

                def shaped(g_):
                    # A = (<line start> + OFS), N = find_next_char_pos(.., <line start>).some; A..(A + L) | A..N | N..(N + L) | N..N
                    m_ = re.search(r"find_next_char_pos\([^()]*(?:\([^()]*\))?[^()]*, (\w+)\)\.some", g_)
                    ls_ = [m_.group(1)] if m_ else re.findall(r"\((\w+) \+ %s\)" % re.escape(ofs_name), g_)[:1]
                    if not ls_:
                        return False
                    a_ = "(%s + %s)" % (ls_[0], ofs_name)
                    nbs = set(re.findall(r"find_next_char_pos\((?:[^()]|\([^()]*\))*, %s\)\.some" % re.escape(ls_[0]), g_)) or {"<none>"}
                    if len(nbs) != 1:
                        return False
                    nb = list(nbs)[0]
                    return g_ in {"%s..(%s + %s)" % (a_, a_, len_name), "%s..%s" % (a_, nb), "%s..(%s + %s)" % (nb, nb, len_name), "%s..%s" % (nb, nb)}
                if any(not shaped(g_) for g_ in got):
                    bad = "takes the range %s from a line; a line gives up `line start + indentation of the tag` .. `+ the common shift`, each clamped to its first non-blank" % got
        else:
            bad = "leaves the walk by `%s`" % o["exit"]
        if bad:
            res.add(Finding(rule, fn, "line-walk:" + label, "line walk of the block " + bad, loc=T.loc(loop)))
        else:
            n += 1
            res.holds(rule, fn, "line-walk:" + label)
    res.floor(rule, "paths of one step of the line walk", n, 10)
    n_push = sum(1 for o in outs if any(e[0] == "push" for e in o["effects"]))
    res.floor(rule, "paths of the line walk on which a line gives up a range", n_push, 1)



def dedent_ranges_reach_deletion(ctx, res, rule):
    """The dedent happens at all: `formatter::format` visits every removed position in order, asks every block formatter for
    the block between a head and its tail, collects what they return, and `merge_ranges` takes *every* collected range into
    the list that is deleted (its outer loop runs while new ranges remain)."""
    P = ctx.lib
    b = P.fn("formatter::format")
    fn = fshort(b)
    loc = T.loc(b["tree"])
    ps = [p_["pat"].get("name") for p_ in b["params"]]
    if len(ps) != 4:
        res.cannot(rule, fn, "params", "format(content, removed_pos, formatters, structure_formatters) expected", loc)
        return
    rp, sf = ps[1], ps[3]
    # every removed position
    lets = {s_["pat"]["name"]: T.render(s_["init"]) for s_ in T.nodes(b["tree"], "let") if s_["pat"].get("p") == "bind" and s_.get("init") is not None}
    trav = [T.render(n["iter"]) for n in T.nodes(b["tree"], "for")] + [T.render(n["recv"]) for n in T.nodes(b["tree"], "mcall") if n["name"] in ("fold", "for_each", "map") and rp in T.render(n["recv"])]
    trav = [lets.get(t_, t_) for t_ in trav]
    main = [t_ for t_ in trav if t_.startswith(rp)]
    if main and all(not T.shortened(t_) for t_ in main) and any(t_ in ("%s.iter()" % rp, rp, "%s.iter().enumerate()" % rp) for t_ in main):
        res.holds(rule, fn, "all-positions", main[0])
    else:
        res.add(Finding(rule, fn, "all-positions", "the removed positions are traversed through %s, not all of `%s` in order" % (main or trav, rp), loc=loc))
    # every block formatter, result collected
    calls = [(n, par) for n, par in T.walk(b["tree"]) if n.get("k") == "mcall" and n["name"] == "format" and len(n["args"]) == 3]
    okf = False
    for n, par in calls:
        over = [T.render(q["recv"]) for q in par if q.get("k") == "mcall" and q["name"] in ("fold", "flat_map", "map", "for_each") and sf in T.render(q["recv"])] + \
               [T.render(q["iter"]) for q in par if q.get("k") == "for" and sf in T.render(q["iter"])]
        kept = any(q.get("k") == "mcall" and q["name"] in ("extend", "push", "append", "flat_map", "collect") for q in par)
        if over and over[0] in ("%s.iter()" % sf, sf) and kept:
            okf = True
    if okf:
        res.holds(rule, fn, "all-block-formatters", "%s.iter(), results collected" % sf)
    else:
        res.add(Finding(rule, fn, "all-block-formatters", "the block formatters are not all asked (`%s.iter()`) with their ranges collected: an unwrapped block is not dedented" % sf, loc=loc))
    # merge_ranges takes every new range
    m = P.fn("formatter::merge_ranges")
    mps = [p_["pat"].get("name") for p_ in m["params"]]
    new = mps[1] if len(mps) == 2 else None
    newl = {new} | {s_["pat"]["name"] for s_ in T.nodes(m["tree"], "let") if s_["pat"].get("p") == "bind" and s_.get("init") is not None and T.render(s_["init"]) == new}
    outer = [l_ for l_ in T.nodes(m["tree"], "loop") if "while_cond" in l_] + [f_ for f_ in T.nodes(m["tree"], "for")]
    conds = [T.render(l_["while_cond"]) if "while_cond" in l_ else "for " + T.render(l_["iter"]) for l_ in outer]
    ok_forms = set()
    for nm in newl:
        ok_forms |= {"!%s.is_empty()" % nm, "let Some(new_range) = %s.pop()" % nm, "(%s.len() > 0)" % nm, "for %s.into_iter().rev()" % nm}
    if any(c_ in ok_forms or (c_.startswith("let Some(") and any(c_.endswith("= %s.pop()" % nm) for nm in newl)) for c_ in conds):
        res.holds(rule, fshort(m), "all-new-ranges", [c_ for c_ in conds][0][:60])
    else:
        res.add(Finding(rule, fshort(m), "all-new-ranges", "merge_ranges does not run while new ranges remain (loop conditions: %s): dedent ranges never reach the deletion" % conds, loc=T.loc(m["tree"])))
