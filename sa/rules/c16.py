"""C16 - list rendering: JSON schema by types, colour non-interference, byte 0."""
import re

from .. import absint as A
from .. import tree as T
from ..report import Finding
from . import deletion, fshort
from . import c15

LEVEL = "other"

ESC = "\x1b"


def run(ctx, res):
    P = ctx.lib
    res.explanation = (
        "Clauses decided: R1 the JSON form is fixed by types - ListItem{line_range: Option<(usize,usize)>, "
        "annotated_code_block: String, current_status: ItemStatus{Ready,Pending}} derives Serialize with no serde attribute, the "
        "JSON branch is serde_json::to_string(build_list(..)) in both entry points with Some(line map), and build_list maps "
        "is_removal to Ready/Pending; R2 colour non-interference - build_list and build_pretty_string call "
        "build_pretty_string_item with identical arguments except the literal `coloring`; inside, `coloring` only selects the "
        "colour strings, which flow only into push_str and capacity computations; every colour constant is ESC [ digits m and "
        "no other constant contains ESC; R3 the backward scanner examines byte 0 (files whose first byte is a line break).  "
        "R4 the code block is pushed through an unconditional replace(tab, four spaces); R5 no other text-rewriting operation is applied to listed text.  Not decided: columns, widths, marker placement (rendering arithmetic).")
    res.trusted += ["serde_json serialises a derived struct as an object with its field names, a unit variant as its name", "driver fact extraction and the abstract interpreter"]
    schema(ctx, res, "C16.R1")
    colour(ctx, res, "C16.R2")
    deletion.byte0_examined(ctx, res, "C16.R3")
    tabs_expanded(ctx, res, "C16.R4")
    verbatim_lines(ctx, res, "C16.R5")


def tabs_expanded(ctx, res, rule):
    """The code block is pushed into the item through `.replace("\\t", TABSPACE)` unconditionally, with TABSPACE = 4 spaces."""
    from .. import oblig
    P = ctx.lib
    b = P.fn("list::build_pretty_string_item")
    fn = fshort(b)
    tabspace = [v for bd in P.facts["bodies"] if bd["kind"].startswith("Const") and bd["def_path"].endswith("list::TABSPACE") for v in [T.lit_value(bd["tree"])]]
    if tabspace == ["    "]:
        res.holds(rule, "code::list", "tabspace-const", "four spaces")
    else:
        res.add(Finding(rule, "code::list", "tabspace-const", "TABSPACE is %r, tabs must expand to four spaces" % (tabspace,), loc=T.loc(b["tree"])))
    cb = [s for s in T.nodes(b["tree"], "let") if s["pat"]["p"] == "tuple" and any(x.get("name") == "code_block" for x in s["pat"]["pats"])]
    if not cb:
        res.cannot(rule, fn, "code-block", "local `code_block` not found", T.loc(b["tree"]))
        return
    cid = [x["id"] for x in cb[0]["pat"]["pats"] if x.get("name") == "code_block"][0]
    uses = [(n, par) for n, par in T.walk(b["tree"]) if n.get("k") == "path" and T.local_of(n) == cid]
    okk = len(uses) >= 1
    for n, par in uses:
        p = par[-1]
        i = len(par) - 1
        while p.get("k") in ("addr_of",) or (p.get("k") == "unary" and p.get("op") == "*"):
            i -= 1
            p = par[i]
        rep = p.get("k") == "mcall" and p["name"] == "replace" and T.lit_value(p["args"][0]) == "\t" and T.render(p["args"][1]).endswith("TABSPACE")
        conditional = any(q.get("k") in ("if", "match") for q in par[: i])
        if not rep or conditional:
            okk = False
            res.add(Finding(rule, fn, "tab-expansion:" + T.render(p)[:60], "the code block reaches the item through `%s`%s: tabs must be expanded to TABSPACE unconditionally"
                            % (T.render(p)[:80], " under a condition" if conditional else ""), loc=T.loc(n)))
    if okk:
        res.holds(rule, fn, "tab-expansion", "code_block.replace(\"\\t\", TABSPACE), unconditional")


TEXT_TRANSFORMS = {"trim", "trim_end", "trim_start", "trim_matches", "trim_end_matches", "trim_start_matches", "to_lowercase", "to_uppercase",
                   "to_ascii_lowercase", "to_ascii_uppercase", "replacen", "strip_prefix", "strip_suffix", "split_whitespace", "escape_default", "escape_debug",
                   "chars", "char_indices", "bytes", "truncate", "pop", "remove", "retain", "drain", "rev"}


def verbatim_lines(ctx, res, rule):
    """The listed lines are the source lines: in the list renderers no text-transforming operation is applied to strings
    (the only rewriting allowed is the tab expansion checked by R4 and the insertion of colour / marker / number strings)."""
    P = ctx.lib
    n_str = 0
    for name in ("list::build_pretty_string_item", "list::build_pretty_string", "list::build_list"):
        b = P.fn(name)
        for n in T.nodes(b["tree"], "mcall"):
            rty = (n["recv"].get("aty") or n["recv"].get("ty") or "").replace("&mut ", "").lstrip("&")
            if rty not in ("str", "std::string::String"):
                continue
            n_str += 1
            if n["name"] in TEXT_TRANSFORMS or (n["name"] == "replace" and T.lit_value(n["args"][0]) != "\t"):
                res.add(Finding(rule, fshort(b), "text-transform:" + T.render(n)[-60:], "`%s` rewrites listed text: the item would no longer show the source lines verbatim "
                                "(and the JSON form could differ from the colour-stripped pretty form)" % T.render(n)[-90:], loc=T.loc(n)))
    res.floor(rule, "string operations inspected in the list renderers", n_str, 20)
    if not [f for f in res.findings if f.rule == rule]:
        res.holds(rule, "code::list", "verbatim-lines", "%d string operations, none rewrites text" % n_str)


def schema(ctx, res, rule):
    P = ctx.lib
    li = [a for p, a in P.adts.items() if p.endswith("list::ListItem")]
    st = [a for p, a in P.adts.items() if p.endswith("list::ItemStatus")]
    if not li or not st:
        res.cannot(rule, "code::list", "types", "ListItem / ItemStatus not found")
        return
    li, st = li[0], st[0]
    fields = [(f["name"], f["ty"]) for f in li["variants"][0]["fields"]]
    want = [("line_range", "std::option::Option<(usize, usize)>"), ("annotated_code_block", "std::string::String"), ("current_status", "code::list::ItemStatus")]
    if fields == want:
        res.holds(rule, "code::list::ListItem", "fields", str(fields))
    else:
        res.add(Finding(rule, "code::list::ListItem", "fields", "ListItem fields are %s, the documented JSON object is %s" % (fields, want), loc="%s:%d" % tuple(li["sp"][:2])))
    vs = [(v["name"], len(v["fields"])) for v in st["variants"]]
    if vs == [("Ready", 0), ("Pending", 0)]:
        res.holds(rule, "code::list::ItemStatus", "variants", str(vs))
    else:
        res.add(Finding(rule, "code::list::ItemStatus", "variants", "ItemStatus variants are %s, expected unit variants Ready, Pending" % vs, loc="%s:%d" % tuple(st["sp"][:2])))
    for adt in (li, st):
        nm = adt["def_path"].split("::")[-1]
        ser = [i for i in P.impls if (i.get("trait") or "").endswith("Serialize") and i["self_ty"].endswith(nm) and i.get("derived")]
        if ser:
            res.holds(rule, "code::list::" + nm, "derive-serialize")
        else:
            res.add(Finding(rule, "code::list::" + nm, "derive-serialize", "%s has no derived Serialize impl (hand-written serialisation is not analysed)" % nm, loc="%s:%d" % tuple(adt["sp"][:2])))
        # the JSON keys / variant names are read off the *generated* serialize body (covers rename, rename_all, skip, flatten ..)
        sb = [b_ for b_ in P.facts["bodies"] if b_["kind"] == "AssocFn" and "Serialize for" in b_["def_path"] and b_["def_path"].endswith("%s>::serialize" % adt["def_path"].replace("crate::", ""))]
        if len(sb) != 1:
            res.cannot(rule, "code::list::" + nm, "generated-serialize", "generated serialize body not found")
            continue
        keys, variants_, other = [], [], []
        for n in T.nodes(sb[0]["tree"]):
            if n.get("k") not in ("call", "mcall"):
                continue
            cn = (T.cname(n) or "").split("::")[-1]
            if not cn.startswith("serialize"):
                continue
            args = ([n["recv"]] if n.get("k") == "mcall" else []) + n["args"]
            if cn == "serialize_field":
                keys.append((T.lit_value(args[1]), T.render(T.peel_ref(args[2]))))
            elif cn == "serialize_unit_variant":
                variants_.append(T.lit_value(args[3]))
            elif cn in ("serialize_struct", "end"):
                pass
            else:
                other.append(cn)
        if adt is li:
            wantk = [(f_, "self." + f_) for f_, _ in want]
            if keys == wantk and not other:
                res.holds(rule, "code::list::" + nm, "generated-keys", str([k for k, _ in keys]))
            else:
                res.add(Finding(rule, "code::list::" + nm, "generated-keys", "the generated serialiser writes keys %s (other calls %s); the documented object has %s"
                                % (keys, other, [k for k, _ in wantk]), loc="%s:%d" % tuple(adt["sp"][:2])))
        else:
            if variants_ == ["Ready", "Pending"] and not other and not keys:
                res.holds(rule, "code::list::" + nm, "generated-variants", str(variants_))
            else:
                res.add(Finding(rule, "code::list::" + nm, "generated-variants", "the generated serialiser writes the status as %s %s, expected the strings Ready / Pending"
                                % (variants_, other), loc="%s:%d" % tuple(adt["sp"][:2])))
    # JSON branch of both entry points
    et = c15.entry_terms(ctx)
    for name in ("list", "list_all"):
        b, terms = et[name]
        t = terms.get("ListFormat::JSON", "")
        if re.match(r"^Ok\(serde_json::to_string\(build_list\(content, .*, Some\(build_line_map\(content\)\)\)\)\.ok\)$", t):
            res.holds(rule, fshort(b), "json-branch")
        else:
            res.add(Finding(rule, fshort(b), "json-branch", "the JSON branch is not serde_json::to_string(build_list(content, markers, Some(line map))): %s" % t[:300], loc=T.loc(b["tree"])))
        t2 = terms.get("ListFormat::PrettyString", "")
        if re.match(r"^Ok\(build_pretty_string\(content, .*, Some\(build_line_map\(content\)\)\)\)$", t2):
            res.holds(rule, fshort(b), "pretty-branch")
        else:
            res.add(Finding(rule, fshort(b), "pretty-branch", "the pretty branch is not build_pretty_string(content, markers, Some(line map)): %s" % t2[:300], loc=T.loc(b["tree"])))
        # both branches render the same marker list
        m1 = re.match(r"^Ok\(serde_json::to_string\(build_list\(content, (.*), Some\(", t)
        m2 = re.match(r"^Ok\(build_pretty_string\(content, (.*), Some\(", t2)
        if m1 and m2 and m1.group(1) == m2.group(1):
            res.holds(rule, fshort(b), "same-markers-both-formats")
        else:
            res.add(Finding(rule, fshort(b), "same-markers-both-formats", "JSON and pretty forms are rendered from different marker lists", loc=T.loc(b["tree"])))
    # build_list: status mapping and item construction
    bl = P.fn("list::build_list")
    maps = [n for n in T.nodes(bl["tree"], "mcall") if n["name"] == "map" and T.render(n["recv"]) == "markers.iter()"]
    if len(maps) != 1:
        res.cannot(rule, fshort(bl), "map", "build_list is not a map over markers.iter()", T.loc(bl["tree"]))
        return
    clo = T.peel(maps[0]["args"][0])
    I = A.Interp(P)
    I.lazy_locals = True

    def run_(J):
        env = {}
        if not J.match_pat(clo["params"][0]["pat"], A.Tuple([A.Tuple([A.Sym("range"), A.Sym("idx")]), A.Sym("is_removal", "bool")]), env):
            raise A.Cannot("closure parameter")
        return J.ev(clo["body"], env)
    try:
        outs = I.explore(run_)
    except A.Cannot as e:
        res.cannot(rule, fshort(bl), "closure", str(e), T.loc(bl["tree"]))
        return
    okk = len(outs) >= 2 and {o["decisions"].get("is_removal") for o in outs} == {True, False}
    for o in outs:
        v = o["value"]
        if not isinstance(v, A.Struct):
            okk = False
            continue
        ready = o["decisions"].get("is_removal")
        stv = A.show(v.fields.get("current_status"))
        if (ready is True and not stv.endswith("Ready")) or (ready is False and not stv.endswith("Pending")):
            okk = False
        lrs = A.show(v.fields.get("line_range"))
        if lrs not in ("None", "Some(get_line_range(line_map.some, range))"):
            okk = False
    if okk:
        res.holds(rule, fshort(bl), "status-mapping", "is_removal -> Ready, otherwise Pending")
    else:
        res.add(Finding(rule, fshort(bl), "status-mapping", "build_list does not map is_removal=true to Ready and false to Pending: %s" % [(dict(o["decisions"]), A.show(o["value"])[:120]) for o in outs][:2], loc=T.loc(bl["tree"])))
    # collect() of the map is returned
    if T.render(T.peel(bl["tree"])).rstrip(" }").endswith(".collect()"):
        res.holds(rule, fshort(bl), "all-items-collected")
    else:
        res.add(Finding(rule, fshort(bl), "all-items-collected", "build_list does not return the collected map over all markers", loc=T.loc(bl["tree"])))


def colour(ctx, res, rule):
    P = ctx.lib
    item = P.fn("list::build_pretty_string_item")
    fn = fshort(item)
    loc = T.loc(item["tree"])
    # (a) sibling call sites differ only in the literal `coloring`
    calls = []
    for name in ("list::build_list", "list::build_pretty_string"):
        b = P.fn(name)
        cs = [n for n in T.nodes(b["tree"], "call") if (T.callee(n) or "") == item["def_path"]]
        if len(cs) != 1:
            res.cannot(rule, fshort(b), "item-call", "expected one call of build_pretty_string_item", T.loc(b["tree"]))
            return
        calls.append((b, cs[0]))
    pnames = [p["pat"]["name"] for p in item["params"]]
    ci = pnames.index("coloring") if "coloring" in pnames else None
    if ci is None:
        res.cannot(rule, fn, "param", "no `coloring` parameter", loc)
        return
    a0 = [T.render(a) for a in calls[0][1]["args"]]
    a1 = [T.render(a) for a in calls[1][1]["args"]]
    same = all(x == y for i, (x, y) in enumerate(zip(a0, a1)) if i != ci)
    lits = (T.lit_value(calls[0][1]["args"][ci]), T.lit_value(calls[1][1]["args"][ci]))
    if same and lits == (False, True):
        res.holds(rule, "code::list", "sibling-call-sites", "args equal except coloring: JSON=false, pretty=true")
    else:
        res.add(Finding(rule, "code::list", "sibling-call-sites", "build_list and build_pretty_string render items with different arguments (besides the colour flag): %s vs %s" % (a0, a1), loc=T.loc(calls[0][1])))
    # line_range computed identically
    lr = []
    for b, c in calls:
        for s in T.nodes(b["tree"], "let"):
            if s["pat"]["p"] == "bind" and s["pat"]["name"] == "line_range" and s.get("init") is not None:
                lr.append(T.render(s["init"]))
    if len(lr) == 2 and lr[0] == lr[1]:
        res.holds(rule, "code::list", "sibling-line-range", lr[0])
    else:
        res.add(Finding(rule, "code::list", "sibling-line-range", "line ranges are computed differently for the two forms: %s" % lr, loc=loc))
    # (b) inside the item renderer: `coloring` only selects the colour strings
    cid = item["params"][ci]["pat"]["id"]
    uses = [(n, par) for n, par in T.walk(item["tree"]) if T.local_of(n) == cid and n.get("k") == "path"]
    sel = None
    if len(uses) == 1:
        n, par = uses[0]
        p = par[-1] if par else None
        if p is not None and p.get("k") == "if" and T.peel(p["cond"]) is n:
            sel = p
    if sel is None:
        res.add(Finding(rule, fn, "coloring-use", "`coloring` is used %d time(s) / not only as the condition selecting the colour strings: the code block could differ between "
                        "the JSON and the pretty form" % len(uses), loc=loc))
        return
    then_t, else_t = T.peel(sel["then"]), T.peel(sel["els"]) if sel.get("els") else None
    if else_t is None or then_t.get("k") != "tuple" or else_t.get("k") != "tuple" or len(then_t["es"]) != len(else_t["es"]):
        res.cannot(rule, fn, "coloring-select", "colour selection is not `if coloring {(..)} else {(..)}`", T.loc(sel))
        return
    if all(T.lit_value(e) == "" for e in else_t["es"]):
        res.holds(rule, fn, "uncoloured-strings-empty")
    else:
        res.add(Finding(rule, fn, "uncoloured-strings-empty", "without colouring the inserted strings are not all empty: %s" % T.render(else_t), loc=T.loc(else_t)))
    consts = {}
    for bd in P.facts["bodies"]:
        if bd["kind"].startswith("Const") and "code::list::" in bd["def_path"]:
            v = T.lit_value(bd["tree"])
            consts[bd["def_path"]] = v
    colour_consts = set()
    okc = True
    for e in then_t["es"]:
        for n in T.nodes(e):
            if n.get("k") == "path" and n["res"].get("r") == "def" and n["res"].get("dk", "").startswith("Const"):
                colour_consts.add(n["res"]["path"])
            elif n.get("k") == "path" and n["res"].get("r") == "local":
                if n["res"]["name"] != "is_removal":
                    okc = False
            elif n.get("k") in ("if", "blockexpr", "block", "expr", "tuple"):
                continue
            else:
                okc = False
    if not okc:
        res.add(Finding(rule, fn, "coloured-strings-constants", "the coloured strings are not constants (chosen at most by is_removal): %s" % T.render(then_t)[:160], loc=T.loc(then_t)))
    for pth in sorted(colour_consts):
        v = consts.get(pth)
        if isinstance(v, str) and re.match(r"^\x1b\[[0-9;]*m$", v):
            res.holds(rule, "code::list", "colour-const:" + pth.split("::")[-1], repr(v))
        else:
            res.add(Finding(rule, "code::list", "colour-const:" + pth.split("::")[-1], "colour constant is %r, not an SGR escape sequence ESC [ digits m: stripping colour codes "
                            "would not recover the uncoloured text" % (v,), loc=loc))
    for pth, v in consts.items():
        if pth not in colour_consts and isinstance(v, str) and ESC in v:
            res.add(Finding(rule, "code::list", "escape-in-const:" + pth.split("::")[-1], "a non-colour constant contains ESC: %r" % v, loc=loc))
    res.floor(rule, "colour constants", len(colour_consts), 4)
    # (c) the locals bound from the selection flow only into push_str / capacity computations
    bound = []
    for s in T.nodes(item["tree"], "let"):
        if s.get("init") is not None and T.peel(s["init"]) is sel and s["pat"]["p"] == "tuple":
            bound = [p for p in s["pat"]["pats"] if p["p"] == "bind"]
    if len(bound) != len(then_t["es"]):
        res.cannot(rule, fn, "colour-locals", "the selected colour strings are not bound by a tuple pattern", T.loc(sel))
        return
    ids = {p["id"]: p["name"] for p in bound}
    nuse = [0]

    def flows(body, ids, depth):
        bfn = fshort(body)
        for n, par in T.walk(body["tree"]):
            if n.get("k") != "path" or T.local_of(n) not in ids:
                continue
            nuse[0] += 1
            nm = ids[T.local_of(n)]
            ctx_ok = False
            # climb: push_str(arg), .len() inside with_capacity(..), a plain `{}` placeholder of format!, or an argument of a
            # helper of this crate whose parameter is used in the same ways (followed to depth 3)
            chain = list(par)
            p = chain[-1]
            while p.get("k") in ("addr_of",) or (p.get("k") == "unary" and p.get("op") == "*"):
                chain = chain[:-1]
                p = chain[-1]
            fmt = [q for q in chain if q.get("k") == "call" and (T.cname(q) or "") in ("std::fmt::format", "alloc::fmt::format")]
            if p.get("k") == "mcall" and p["name"] == "push_str" and any(T.peel_ref(a) is n for a in p["args"]):
                ctx_ok = True
            elif p.get("k") == "mcall" and p["name"] == "len" and T.peel_ref(p["recv"]) is n:
                if any(q.get("k") == "call" and (T.cname(q) or "").endswith("String::with_capacity") for q in chain):
                    ctx_ok = True
            elif fmt:
                snip = fmt[-1].get("snip") or ""
                m = re.match(r'^format!\(\s*"((?:[^"\\]|\\.)*)"', snip, re.S)
                if m and all(re.match(r"^\{[A-Za-z_0-9]*\}$", ph) for ph in re.findall(r"\{[^{}]*\}", m.group(1).replace("{{", "").replace("}}", ""))):
                    ctx_ok = True
                    p = fmt[-1]
            elif p.get("k") == "call" and depth < 3:
                callee = P.bodies.get(T.callee(p) or "")
                idx = [k for k, a in enumerate(p["args"]) if T.peel_ref(a) is n]
                if callee is not None and len(idx) == 1 and callee["params"][idx[0]]["pat"]["p"] == "bind":
                    cp = callee["params"][idx[0]]["pat"]
                    flows(callee, {cp["id"]: "%s(as %s in %s)" % (nm.split("(")[0], cp["name"], fshort(callee))}, depth + 1)
                    res.holds(rule, bfn, "colour-flow:%s:helper %s" % (nm, fshort(callee)))
                    continue
            site = "colour-flow:%s:%s" % (nm, (p.get("snip") or T.render(p))[:50])
            if ctx_ok:
                res.holds(rule, bfn, site)
            else:
                res.add(Finding(rule, bfn, site, "colour string `%s` flows into `%s`: colouring may change more than the inserted escape codes" % (nm, T.render(p)[:100]), loc=T.loc(n)))

    flows(item, ids, 0)
    nuse = nuse[0]
    res.floor(rule, "uses of the colour strings", nuse, 8)
