"""C16 - list rendering: JSON schema by types, colour non-interference, byte 0."""
import re

from .. import absint as A
from .. import tree as T
from ..report import Finding
from . import deletion, fshort
from . import c15

LEVEL = "other"

ESC = "\x1b"


def run(ctx, res):
    P = ctx.lib
    res.explanation = (
        "Clauses decided: R1 the JSON form is fixed by types - ListItem{line_range: Option<(usize,usize)>, "
        "annotated_code_block: String, current_status: ItemStatus{Ready,Pending}} derives Serialize with no serde attribute, the "
        "JSON branch is serde_json::to_string(build_list(..)) in both entry points with Some(line map), and build_list maps "
        "is_removal to Ready/Pending; R2 colour non-interference - build_list and build_pretty_string call "
        "build_pretty_string_item with identical arguments except the literal `coloring`; inside, `coloring` only selects the "
        "colour strings, which flow only into push_str and capacity computations; every colour constant is ESC [ digits m and "
        "no other constant contains ESC; R3 the backward scanner examines byte 0 (files whose first byte is a line break).  "
        "R4 the code block is pushed through an unconditional replace(tab, four spaces); R5 no other text-rewriting operation (trim / case / escape / split*) is applied to listed text; R6 / R6b the tab count that widens a marker column is taken over the marker's own line prefix (non-pausing line start) and counts exactly the tabs; R7 line map and find_line; R8 the frame: padding* `_start` line-break code-block padding* `‾end`, appended unconditionally and in this order, each padding from its own marker's counts; R9 the shown text is one contiguous chain of content slices from the first line's start to the last line's end (bounds evaluated by the interpreter), the highlighted part is the region itself, the numbers run over first..=last taking one line each, the line range is (line of first byte, line of last byte).  R10 the widths: the padding in front of `_start` adds up (as a linear form over start, end, the line starts, the tab counts and the number-column offset, local definitions read through) to offset + (start - line start) + 3 x tabs, the padding in front of `‾end` to offset + (end - 1 - line start of the last line) + 3 x tabs, the offset is 0 without line numbers and otherwise the width of the number column read off the format string (width argument + literal text).  Not decided: line numbers with more digits than the number column, non-ASCII text to the left of a marker (excluded by the property), a tab as the last removed character.")
    res.trusted += ["serde_json serialises a derived struct as an object with its field names, a unit variant as its name", "driver fact extraction and the abstract interpreter"]
    schema(ctx, res, "C16.R1")
    colour(ctx, res, "C16.R2")
    deletion.byte0_examined(ctx, res, "C16.R3")
    tabs_expanded(ctx, res, "C16.R4")
    verbatim_lines(ctx, res, "C16.R5")
    marker_tab_counts(ctx, res, "C16.R6")
    line_map_rule(ctx, res, "C16.R7")
    frame(ctx, res, "C16.R8")
    shown_lines(ctx, res, "C16.R9")
    tab_counter(ctx, res, "C16.R6b")
    padding_widths(ctx, res, "C16.R10")


def frame(ctx, res, rule):
    """`framed by a _start marker .. and an ‾end marker`: the text appended to the item, in order, is
    padding* `_start` line-break  code-block  padding* `‾end` (colour strings, which are empty or SGR codes by R2, aside).
    Decides the presence and order of the frame's pieces, not the width of the padding."""
    P = ctx.lib
    b = P.fn("list::build_pretty_string_item")
    fn = fshort(b)
    loc = T.loc(b["tree"])
    blk = T.peel(b["tree"])
    while blk.get("k") == "blockexpr":
        blk = blk["block"]
    rid = T.local_of(T.peel(blk["tail"])) if blk.get("tail") is not None else None
    if rid is None:
        res.cannot(rule, fn, "frame", "the item is not returned as a local string that the pieces are appended to", loc)
        return
    # aliases: `let out = &mut result` (a re-inlined helper's parameter)
    alias = {rid}
    for s_ in T.nodes(b["tree"], "let"):
        if s_["pat"].get("p") == "bind" and s_.get("init") is not None and T.local_of(T.peel_ref(s_["init"])) in alias:
            alias.add(s_["pat"]["id"])
    colour_ids = set()
    for s_ in T.nodes(b["tree"], "let"):
        i_ = T.peel(s_["init"]) if s_.get("init") is not None else {}
        if s_["pat"].get("p") == "tuple" and i_.get("k") == "if" and T.render(i_["cond"]) == "coloring":
            colour_ids |= {q["id"] for q in s_["pat"]["pats"] if q.get("p") == "bind"}
    pieces = []
    pad_texts = []
    frame_nodes = []
    ctx._c16_frame = frame_nodes
    for n, par in T.walk(b["tree"]):
        if n.get("k") == "path" and T.local_of(n) in alias:
            p_ = par[-1] if par else {}
            i = len(par) - 1
            while p_.get("k") == "addr_of" or (p_.get("k") == "unary" and p_.get("op") == "*"):
                i -= 1
                p_ = par[i]
            if p_.get("k") == "let" or (n is T.peel(blk["tail"])):
                continue
            if p_.get("k") == "mcall" and T.peel_ref(p_["recv"]) is n and p_["name"] in ("push_str", "push") and len(p_["args"]) == 1:
                arg = p_["args"][0]
            elif p_.get("k") == "assign_op" and p_.get("op") in ("+", "+=") and T.peel_ref(p_["l"]) is n:
                arg = p_["r"]
            elif p_.get("k") == "mcall" and T.peel_ref(p_["recv"]) is n and p_["name"] in ("len", "capacity", "is_empty", "as_str"):
                continue
            else:
                res.cannot(rule, fn, "frame-use:" + T.render(p_)[:60], "the item string is used through `%s`: the appended pieces cannot be listed" % T.render(p_)[:80], T.loc(n))
                return
            cond = [q.get("k") for q in par[:i] if q.get("k") in ("if", "match", "loop", "for", "closure")]
            a = T.peel_ref(arg)
            r = T.render(a)
            v = T.lit_value(a)
            if cond:
                kind = "?(%s)" % cond[0]
            elif v in ("\n",):
                kind = "N"
            elif v == "_start":
                kind = "S"
            elif v == "\u203eend":
                kind = "E"
            elif T.local_of(a) in colour_ids or v == "":
                kind = "c"
            elif a.get("k") == "mcall" and a["name"] == "repeat" and (T.lit_value(T.peel_ref(a["recv"])) in (" ", "    ") or
                                                                       (T.peel_ref(a["recv"]).get("k") == "mcall" and T.peel_ref(a["recv"])["name"] in ("to_string", "to_owned") and
                                                                        T.lit_value(T.peel_ref(T.peel_ref(a["recv"])["recv"])) in (" ", "    "))):
                kind = "P"
            elif a.get("k") == "mcall" and a["name"] == "replace" and "code_block" in r:
                kind = "B"
            else:
                kind = "?(%s)" % r[:40]
            pieces.append(kind)
            pad_texts.append((kind, r))
            frame_nodes.append((kind, a))
    seq = "".join(k for k in pieces if k != "c") if all(len(k) == 1 for k in pieces) else " ".join(pieces)
    # the padding in front of a marker is computed from that marker's own line (R6 says over which text): the tab count taken
    # up to `start` does not pad the end marker and vice versa
    ps_ = [p_["pat"] for p_ in b["params"]]
    own = {}
    if len(ps_) >= 3 and all(p_.get("p") == "bind" for p_ in ps_[:3]):
        for s_ in T.nodes(b["tree"], "let"):
            if s_["pat"].get("p") == "bind" and s_.get("init") is not None:
                cs = [c_ for c_ in T.nodes(s_["init"], "call") if T.short_path(T.callee(c_) or "").endswith("count_tabspace")]
                if len(cs) == 1:
                    r_ = T.render(cs[0]["args"][0])
                    own[s_["pat"]["name"]] = "start" if r_.endswith("..%s]" % ps_[1]["name"]) else ("end" if r_.endswith("..%s]" % ps_[2]["name"]) else None)
    crossed = []
    seen_block = False
    for kind, txt in pad_texts:
        if kind == "B":
            seen_block = True
        elif kind == "P":
            for nm, side in own.items():
                if side and re.search(r"\b%s\b" % re.escape(nm), txt) and side != ("end" if seen_block else "start"):
                    crossed.append((nm, "end" if seen_block else "start"))
    if crossed:
        res.add(Finding(rule, fn, "frame-padding", "the padding in front of the `%s` marker is computed from `%s`, the tab count of the other marker's line" % (crossed[0][1], crossed[0][0]), loc=loc))
    if re.match(r"^P*SNBP*E$", seq):
        res.holds(rule, fn, "frame", "appended pieces: %s" % " ".join(pieces))
    else:
        res.add(Finding(rule, fn, "frame", "the pieces appended to a list item are [%s] (P padding, c colour, S `_start`, N line break, B code block, E `\u203eend`); "
                        "the property requires padding* `_start` line-break code-block padding* `\u203eend`" % " ".join(pieces), loc=loc))


def frame_ids(b):
    """the returned string of build_pretty_string_item and its aliases (the frame, C16.R8) - not the shown text"""
    blk = T.peel(b["tree"])
    while blk.get("k") == "blockexpr":
        blk = blk["block"]
    rid = T.local_of(T.peel(blk["tail"])) if blk.get("tail") is not None else None
    ids = {rid}
    for s_ in T.nodes(b["tree"], "let"):
        if s_["pat"].get("p") == "bind" and s_.get("init") is not None and T.local_of(T.peel_ref(s_["init"])) in ids:
            ids.add(s_["pat"]["id"])
    return ids


def shown_lines(ctx, res, rule):
    """`shows exactly the source lines from its first to its last line, each prefixed by its number`:
    (a) the shown text runs from the start of the line that holds the region's first byte (previous line break + 1, or 0, by a
    non-pausing scan from `start`) to the end of the line that holds its last byte (next line break from `end - 1`, or the end
    of the text); (b) it is assembled from contiguous slices of the content that begin and end there (the middle one cut into
    lines only to wrap each in colour strings), followed by one line break; (c) the numbers run over first..=last of the line
    range, one line of that text per number; (d) the line range is (line of `range.start`, line of `range.end - 1`)."""
    P = ctx.lib
    b = P.fn("list::build_pretty_string_item")
    fn = fshort(b)
    loc = T.loc(b["tree"])
    ps = [p_["pat"] for p_ in b["params"]]
    if len(ps) < 3 or any(p_.get("p") != "bind" for p_ in ps[:3]):
        res.cannot(rule, fn, "params", "build_pretty_string_item(content, start, end, ..) expected", loc)
        return
    cname, sname, ename = ps[0]["name"], ps[1]["name"], ps[2]["name"]
    lets = {}
    for s_ in T.nodes(b["tree"], "let"):
        if s_["pat"].get("p") == "bind" and s_.get("init") is not None:
            lets.setdefault(s_["pat"]["name"], []).append(s_)

    def defn(name):
        return T.render(lets[name][0]["init"]) if name in lets and len(lets[name]) == 1 and "Mut" not in lets[name][0]["pat"].get("mode", "") else None
    FP = "code::utils::line_break_pos_finder::find_prev_line_break_pos"
    FN_ = "code::utils::line_break_pos_finder::find_next_line_break_pos"
    first_forms = {"%s(%s, bytes, %s, false).map(|v| (v + 1)).unwrap_or(0)" % (FP, cname, sname), "%s(%s, bytes, %s, false).map_or(0, |v| (v + 1))" % (FP, cname, sname)}
    last_forms = {"%s(%s, bytes, (%s - 1), false).unwrap_or(%s.len())" % (FN_, cname, ename, cname), "%s(%s, bytes, (%s - 1), false).unwrap_or_else(|| %s.len())" % (FN_, cname, ename, cname)}
    # (b) the assembled text: the slices of the content that are appended (directly, through a helper that was re-inlined, or
    # line by line in a loop / iterator chain) form one contiguous chain from the first line's start to the last line's end
    def eval_paths(e):
        I = A.Interp(P)
        I.lazy_locals = True
        try:
            return {(tuple(sorted((k, str(v)) for k, v in o["decisions"].items())), A.show(o["value"])) for o in I.explore(lambda J: J.ev(e, {})) if o["exit"] == "fall"}
        except A.Cannot:
            return None
    prev = "find_prev_line_break_pos(%s, bytes, %s, false)" % (cname, sname)
    nextl = "find_next_line_break_pos(%s, bytes, (%s - 1), false)" % (cname, ename)
    want_first = {((("is_some(%s)" % prev, "True"),), "(%s.some + 1)" % prev), ((("is_some(%s)" % prev, "False"),), "0")}
    want_last = {((("is_some(%s)" % nextl, "True"),), "%s.some" % nextl), ((("is_some(%s)" % nextl, "False"),), "%s.len()" % cname)}
    slices = []
    for x, par in T.walk(b["tree"]):
        if x.get("k") != "index" or T.render(T.peel_ref(x["base"])) != cname or T.peel(x["idx"]).get("k") != "struct":
            continue
        f = {z["name"]: T.render(z["e"]) for z in T.peel(x["idx"])["fields"]}
        if set(f) != {"start", "end"}:
            continue
        users = [q for q in par if (q.get("k") == "mcall" and q["name"] == "push_str") or q.get("k") == "for" or (q.get("k") == "let" and q.get("forwarded"))]
        measured = [q for q in par if (q.get("k") == "call" and (T.callee(q) or "").endswith(("count_tabspace", "::with_capacity"))) or (q.get("k") == "mcall" and q["name"] in ("len", "count") and
                    any(c_.get("k") == "call" and (T.callee(c_) or "").endswith("::with_capacity") for c_ in par))]
        if users and not measured and not any(q.get("k") == "let" and q.get("forwarded") for q in par):
            slices.append((f["start"], f["end"]))
    slices = sorted(set(slices))
    okb, why = True, ""
    starts = [a for a, _ in slices]
    ends = [e_ for _, e_ in slices]
    firsts = [a for a in starts if a not in ends]
    lasts = [e_ for e_ in ends if e_ not in starts]
    if not slices or len(firsts) != 1 or len(lasts) != 1 or len(set(starts)) != len(starts) or len(set(ends)) != len(ends):
        okb, why = False, "the appended slices of the content %s do not form one contiguous chain" % slices
    else:
        for nm, want, what in ((firsts[0], want_first, "begins"), (lasts[0], want_last, "ends")):
            d_ = lets.get(nm)
            got = eval_paths(d_[0]["init"]) if d_ and len(d_) == 1 and "Mut" not in d_[0]["pat"].get("mode", "") else None
            if got != want:
                okb, why = False, "the text %s at `%s` = %s, which is not the %s of the line that holds the region's %s byte" % (
                    what, nm, T.render(d_[0]["init"])[:120] if d_ else "?", "start" if what == "begins" else "end", "first" if what == "begins" else "last")
                break
    # where a slice is cut into lines to wrap each in colour strings, every line is put back once (recognised forms: a `map`
    # closure or a `for` over `content[..].lines()`; other forms are not judged)
    for x, par in T.walk(b["tree"]):
        if not okb or x.get("k") != "mcall" or x["name"] != "lines" or not any(y.get("k") == "index" and T.render(T.peel_ref(y["base"])) == cname for y in T.nodes(x["recv"])):
            continue
        var, body_ = None, None
        p1 = par[-1] if par else {}
        if p1.get("k") == "mcall" and p1["name"] == "map" and T.peel_ref(p1["recv"]) is x and T.peel(p1["args"][0]).get("k") == "closure":
            clo_ = T.peel(p1["args"][0])
            binds = [q for q in T.pat_nodes(clo_["params"][0]["pat"]) if q.get("p") == "bind"]
            var, body_ = (binds[0]["id"] if len(binds) == 1 else None), clo_["body"]
        else:
            fl = [q for q in par if q.get("k") == "for" and any(z is x for z in T.nodes(q["iter"]))]
            if fl:
                binds = [q for q in T.pat_nodes(fl[-1]["pat"]) if q.get("p") == "bind" and "str" in (q.get("ty") or "")]
                var, body_ = (binds[0]["id"] if len(binds) == 1 else None), fl[-1]["body"]
        if var is None:
            if p1.get("k") == "mcall" and T.peel_ref(p1["recv"]) is x and T.shortened("." + p1["name"] + "("):
                okb, why = False, "the lines of the highlighted part go through `%s(..)` before they are put back" % p1["name"]
            continue
        uses = 0
        for y, ypar in T.walk(body_):
            if y.get("k") == "path" and T.local_of(y) == var:
                yp = ypar[-1] if ypar else {}
                if yp.get("k") == "mcall" and yp["name"] in ("len", "is_empty") and T.peel_ref(yp["recv"]) is y:
                    continue
                uses += 1
        if uses != 1:
            okb, why = False, "a line of the highlighted part is put back %d times" % uses
    # the highlighted part is the region itself: from `start` to `end`, cut at the end of the last line
    hl = []
    for x, par in T.walk(b["tree"]):
        if x.get("k") == "mcall" and x["name"] == "lines":
            for y in T.nodes(x["recv"]):
                if y.get("k") == "index" and T.render(T.peel_ref(y["base"])) == cname and T.peel(y["idx"]).get("k") == "struct":
                    f = {z["name"]: T.render(z["e"]) for z in T.peel(y["idx"])["fields"]}
                    if set(f) == {"start", "end"} and not any(q.get("k") == "call" and (T.callee(q) or "").endswith("::with_capacity") for q in par):
                        hl.append((f["start"], f["end"]))
    for hs, he in sorted(set(hl)):
        if not okb:
            break
        ds, de = lets.get(hs), lets.get(he)
        gs = eval_paths(ds[0]["init"]) if ds and len(ds) == 1 else ({((), hs)} if hs == sname else None)
        ge = eval_paths(de[0]["init"]) if de and len(de) == 1 else ({((), he)} if he == ename else None)
        ok_s = gs == {((), sname)}
        ok_e = ge is not None and all((val == ename and any(k.startswith("ord(") and ename in k and v in ("<", "=") for k, v in dec)) or
                                      (val != ename and any(k.startswith("ord(") and ename in k and v in (">", "=") for k, v in dec)) or
                                      (val == ename and not dec) for dec, val in ge) and any(val == ename for _, val in ge)
        if not (ok_s and ok_e):
            okb, why = False, "the highlighted part is `%s..%s` (= %s .. %s), not the region `%s..%s` cut at the end of its last line" % (
                hs, he, T.render(ds[0]["init"])[:40] if ds else hs, T.render(de[0]["init"])[:40] if de else he, sname, ename)
    # .. and one line break is appended behind them
    tails = [x for x, par in T.walk(b["tree"]) if x.get("k") == "mcall" and x["name"] == "push" and T.lit_value(T.peel_ref(x["args"][0])) == "\n"
             and not any(q.get("k") in ("if", "match", "loop", "for", "closure") for q in par) and "String" in (T.peel_ref(x["recv"]).get("ty") or "")
             and T.local_of(T.peel_ref(x["recv"])) not in frame_ids(b)]
    if okb and len(tails) != 1:
        okb, why = False, "the shown text is not closed by exactly one unconditionally appended line break (%d found)" % len(tails)
    if okb:
        res.holds(rule, fn, "shown-text", "slices %s: contiguous, from the first line's start to the last line's end, then a line break" % slices)
    else:
        res.add(Finding(rule, fn, "shown-text", "the text of a list item is not exactly the source lines of the region: " + why, loc=loc))
    # (c) numbering
    incl = [x for x in T.nodes(b["tree"], "call") if T.render(x).startswith("std::ops::RangeInclusive::new(")]
    okc = len(incl) == 1 and [T.render(a_) for a_ in incl[0]["args"]] == ["line_range.0", "line_range.1"]
    if not okc and len(incl) == 1 and all(T.local_of(T.peel(a_)) is not None for a_ in incl[0]["args"]):
        # `Some((first, last)) => (first..=last)`: the two components of the line range under their own names
        ab = [T.local_of(T.peel(a_)) for a_ in incl[0]["args"]]

        def names_pair(pat, scrut):
            return T.render(scrut) == "line_range" and any(q.get("p") == "tuple" and [x.get("id") for x in q.get("pats", []) if x.get("p") == "bind"] == ab and len(q.get("pats", [])) == 2
                                                           for q in T.pat_nodes(pat))
        for x in T.nodes(b["tree"]):
            if x.get("k") == "match" and any(names_pair(a_["pat"], x["scrut"]) for a_ in x["arms"]):
                okc = True
            if x.get("k") == "let" and x.get("init") is not None and names_pair(x["pat"], x["init"]):
                okc = True
            if x.get("k") == "let_cond" and names_pair(x["pat"], x["e"]):
                okc = True
    nexts = [x for x in T.nodes(b["tree"], "mcall") if x["name"] == "next" and T.local_of(T.peel_ref(x["recv"])) is not None]
    text_ids = {T.local_of(T.peel_ref(x["recv"])) for x in T.nodes(b["tree"], "mcall") if x["name"] == "push_str"
                and any(y.get("k") == "index" and T.render(T.peel_ref(y["base"])) == cname for y in T.nodes(x["args"][0]))} - frame_ids(b)
    line_iters = [s_ for ss in lets.values() for s_ in ss if T.peel(s_["init"]).get("k") == "mcall" and T.peel(s_["init"])["name"] == "lines"
                  and T.local_of(T.peel_ref(T.peel(s_["init"])["recv"])) in text_ids]
    if okc and len(line_iters) == 1 and len(nexts) == 1 and T.local_of(T.peel_ref(nexts[0]["recv"])) == line_iters[0]["pat"]["id"]:
        res.holds(rule, fn, "numbering", "first..=last, one line of the text per number")
    else:
        res.add(Finding(rule, fn, "numbering", "the numbered lines are not `line_range.0..=line_range.1`, each taking the next line of the shown text "
                        "(ranges: %s, next() sites: %d)" % ([[T.render(a_) for a_ in x["args"]] for x in incl], len(nexts)), loc=loc))
    # (d) the line range
    g = P.fn("list::get_line_range")
    gt = T.peel(g["tree"])
    while gt.get("k") == "blockexpr" and not gt["block"].get("stmts"):
        gt = T.peel(gt["block"]["tail"])
    want = "(code::utils::line_map::find_line(line_map, range.start), code::utils::line_map::find_line(line_map, (range.end - 1)))"
    if T.render(gt) == want:
        res.holds(rule, fshort(g), "line-range", "(line of range.start, line of range.end - 1)")
    else:
        res.add(Finding(rule, fshort(g), "line-range", "the line range of a region is `%s`, not (line of its first byte, line of its last byte)" % T.render(gt)[:160], loc=T.loc(g["tree"])))


def tab_counter(ctx, res, rule):
    """`columns counted with tab = 4`: what widens a marker's column is the number of tab characters in the slice (R6 says
    which slice) - `count_tabspace` adds one per character (or byte) equal to the tab and nothing otherwise, starting from 0."""
    P = ctx.lib
    b = P.fn("blank_counter::count_tabspace")
    fn = fshort(b)
    loc = T.loc(b["tree"])
    body = T.peel(b["tree"])
    while body.get("k") in ("blockexpr", "block"):
        blk_ = body["block"] if body.get("k") == "blockexpr" else body
        if blk_.get("tail") is None or any(not ((s_.get("k") == "let" and s_.get("forwarded")) or (s_.get("k") == "expr" and T.render(s_["e"]) == "()")) for s_ in blk_.get("stmts", [])):
            break
        body = T.peel(blk_["tail"])        # (a re-inlined helper: its parameter lets are read through)
    r = T.render(body)
    folds = [n for n in T.nodes(body, "mcall") if n["name"] == "fold" and len(n["args"]) == 2 and T.peel(n["args"][1]).get("k") == "closure"]
    filts = [n for n in T.nodes(body, "mcall") if n["name"] == "filter" and len(n["args"]) == 1 and T.peel(n["args"][0]).get("k") == "closure"]
    src_ok = re.search(r"\b\w+\.(chars|bytes)\(\)", r) is not None and not T.shortened(r.split(".filter(")[0].split(".fold(")[0]) and not T.shortened(r.rsplit(")", 1)[0].rsplit("|", 1)[-1] if ".filter(" in r else "")
    verdict = None
    I = A.Interp(P)
    I.lazy_locals = True
    try:
        if len(folds) == 1 and not filts and r.endswith(")") and src_ok:
            clo = T.peel(folds[0]["args"][1])

            def run(J):
                env = {}
                J.match_pat(clo["params"][0]["pat"], A.Sym("acc"), env)
                J.match_pat(clo["params"][1]["pat"], A.Sym("v"), env)
                return J.ev(clo["body"], env)
            outs = I.explore(run)
            got = {(tuple(sorted((k, str(v)) for k, v in o["decisions"].items())), A.show(o["value"])) for o in outs}
            want = [{((("eq('\\t', v)", "True"),), "(acc + 1)"), ((("eq('\\t', v)", "False"),), "acc")},
                    {((("eq(v, '\\t')", "True"),), "(acc + 1)"), ((("eq(v, '\\t')", "False"),), "acc")}]
            seed0 = T.lit_value(folds[0]["args"][0]) == 0
            verdict = (got in want and seed0, "fold: %s, seed %s" % (sorted(got), T.render(folds[0]["args"][0])))
        elif len(filts) == 1 and not folds and r.endswith(".count()") and src_ok:
            clo = T.peel(filts[0]["args"][0])

            def run(J):
                env = {}
                J.match_pat(clo["params"][0]["pat"], A.Sym("v"), env)
                return J.ev(clo["body"], env)
            outs = I.explore(run)
            got = {(tuple(sorted((k, str(v)) for k, v in o["decisions"].items())), A.show(o["value"])) for o in outs}
            keys = {k for dec, _ in got for k, _ in dec}
            okk = len(keys) == 1 and list(keys)[0] in ("eq('\\t', v)", "eq(v, '\\t')", "eq(9, v)", "eq(v, 9)", "ord(9, v)", "ord(v, 9)") \
                and all((val == "true") == (dict(dec)[list(keys)[0]] in ("True", "=")) for dec, val in got)
            verdict = (okk, "filter: %s" % sorted(got))
    except A.Cannot as e:
        res.cannot(rule, fn, "tab-counter", str(e), loc)
        return
    if verdict is None and re.match(r"^\w+\.matches\('\\t'\)\.count\(\)$", r):
        verdict = (True, "matches('\\t').count()")
    if verdict is None:
        res.cannot(rule, fn, "tab-counter", "count_tabspace is neither a fold over the characters nor `filter(..).count()`: `%s`" % r[:120], loc)
    elif verdict[0]:
        res.holds(rule, fn, "tab-counter", verdict[1][:200])
    else:
        res.add(Finding(rule, fn, "tab-counter", "count_tabspace does not count exactly the tab characters of its argument (%s)" % verdict[1][:300], loc=loc))


def marker_tab_counts(ctx, res, rule):
    """Columns are counted with tab = 4 *to the left of the marker*: the tabs that widen a marker's column are those between
    the start of its line and the marker position - `count_tabspace(&content[line start..start])` for `_start`,
    `count_tabspace(&content[start of the last line..end])` for the end marker - where the line start is the byte after the
    previous line break (or 0)."""
    P = ctx.lib
    b = P.fn("list::build_pretty_string_item")
    fn = fshort(b)
    loc = T.loc(b["tree"])
    ps = [p_["pat"] for p_ in b["params"]]
    if len(ps) < 3 or any(p_.get("p") != "bind" for p_ in ps[:3]):
        res.cannot(rule, fn, "params", "build_pretty_string_item(content, start, end, ..) expected", loc)
        return
    cid, sid, eid = ps[0]["id"], ps[1]["id"], ps[2]["id"]
    lets = {s_["pat"]["id"]: s_ for s_ in T.nodes(b["tree"], "let") if s_["pat"].get("p") == "bind" and s_.get("init") is not None}

    def line_start_of(lid, marker):
        """Is local `lid` the start of the line that holds `marker` (param start, or end - 1)?"""
        s_ = lets.get(lid)
        if s_ is None or "Mut" in s_["pat"].get("mode", ""):
            return False
        calls = [n for n in T.nodes(s_["init"], "call") if T.short_path(T.callee(n) or "").endswith("find_prev_line_break_pos")]
        if len(calls) != 1 or len(calls[0]["args"]) != 4 or T.lit_value(calls[0]["args"][3]) is not False:
            return False            # (a pausing scan gives up at the first non-blank: the line start would be 0)
        a2 = T.peel_ref(calls[0]["args"][2])
        seed_ok = (T.local_of(a2) == sid) if marker == "start" else (a2.get("k") == "binary" and a2["op"] == "-" and T.local_of(a2["l"]) == eid and T.lit_value(a2["r"]) == 1)
        r = T.render(s_["init"])
        plus_one_or_zero = ("+ 1)" in r) and (".unwrap_or(0)" in r or "None => 0" in r or "map_or(0," in r or "else { 0 }" in r)
        return seed_ok and plus_one_or_zero
    found = {}
    for n in T.nodes(b["tree"], "call"):
        if not T.short_path(T.callee(n) or "").endswith("count_tabspace"):
            continue
        a0 = T.peel_ref(n["args"][0])
        idx = T.peel(a0["idx"]) if a0.get("k") == "index" else {}
        fe = {f["name"]: T.peel_ref(f["e"]) for f in idx.get("fields", [])} if idx.get("k") == "struct" else {}
        which = None
        if a0.get("k") == "index" and T.local_of(T.peel_ref(a0["base"])) == cid and set(fe) == {"start", "end"}:
            hi = T.local_of(fe["end"])
            lo = T.local_of(fe["start"])
            if hi == sid and line_start_of(lo, "start"):
                which = "start"
            elif hi == eid and line_start_of(lo, "end"):
                which = "end"
        if which is None:
            res.add(Finding(rule, fn, "tab-count:" + T.render(n)[:70], "tabs are counted over `%s`, not over the text between the start of the marker's line and the marker: "
                            "the marker column is off by three per miscounted tab" % T.render(a0)[:80], loc=T.loc(n)))
        else:
            found[which] = found.get(which, 0) + 1
            res.holds(rule, fn, "tab-count:" + which, T.render(a0)[:80])
    for which in ("start", "end"):
        if found.get(which, 0) != 1:
            res.add(Finding(rule, fn, "tab-count-missing:" + which, "no (or more than one) tab count for the `%s` marker over its own line prefix" % which, loc=loc))


def line_map_rule(ctx, res, rule):
    """Line numbers are 1-based counts of '\\n': build_line_map records the byte position of every '\\n' and of nothing else."""
    P = ctx.lib
    b = P.fn("line_map::build_line_map")
    fn = fshort(b)
    loc = T.loc(b["tree"])
    body = T.peel(b["tree"])
    cn = b["params"][0]["pat"].get("name")
    ok = None
    why = ""
    # (position, unit) pairs of the text: characters with their byte offsets, or - a line feed being one byte that never occurs
    # inside a multi-byte sequence - the bytes with their indices
    srcs = {x % cn for x in ("%s.char_indices()", "%s.bytes().enumerate()", "%s.as_bytes().iter().enumerate()", "%s.as_bytes().iter().copied().enumerate()")}
    NL = ("'\\n'", "10")
    folds = [n for n in T.nodes(b["tree"], "mcall") if n["name"] == "fold" and T.render(n["recv"]) in srcs]
    fors = [n for n in T.nodes(b["tree"], "for") if T.render(n["iter"]) in srcs]
    filt = [n for n in T.nodes(b["tree"], "mcall") if n["name"] == "filter" and T.render(n["recv"]) in srcs]
    mi = [n for n in T.nodes(b["tree"], "mcall") if n["name"] == "match_indices" and T.render(n["recv"]) == cn]
    if len(folds) + len(fors) == 1:
        # one step of the traversal on a symbolic character: an entry is pushed iff the character is '\n', and it is its position
        if folds:
            clo = T.peel(folds[0]["args"][1])
            pats, stepbody = [clo["params"][0]["pat"], clo["params"][1]["pat"]], clo["body"]
            accpat, itempat = pats
        else:
            accs = [s_["pat"] for s_ in T.nodes(b["tree"], "let") if s_["pat"].get("p") == "bind" and "Mut" in s_["pat"].get("mode", "") and "Vec<usize>" in (s_.get("pty") or "")]
            if len(accs) != 1:
                res.cannot(rule, fn, "line-map", "result list not found", loc)
                return
            accpat, itempat, stepbody = accs[0], fors[0]["pat"], fors[0]["body"]
        vecs = []
        I = A.Interp(P)

        def step(J):
            env = {}
            vecs.append(A.VecV([]))
            if not J.match_pat(accpat, vecs[-1], env) or not J.match_pat(itempat, A.Tuple([A.Sym("pos"), A.Sym("c")]), env):
                raise A.Cannot("step parameters")
            return J.ev(stepbody, env)
        try:
            outs = I.explore(step)
        except A.Cannot as e:
            res.cannot(rule, fn, "line-map", str(e), loc)
            return
        ok = len(outs) in (2, 3) and len(vecs) == len(outs)
        for o, v in zip(outs, vecs):
            d = dict(o["decisions"])
            pushed = [A.show(x) for x in v.items]
            keys_nl = {"eq(%s, c)" % x for x in NL} | {"eq(c, %s)" % x for x in NL}
            ord_keys = {"ord(c, 10)", "ord(10, c)"}
            is_nl = (len(d) == 1 and set(d) <= keys_nl and list(d.values()) == [True]) or (len(d) == 1 and set(d) <= ord_keys and list(d.values()) == ["="])
            not_nl = (len(d) == 1 and set(d) <= keys_nl and list(d.values()) == [False]) or (len(d) == 1 and set(d) <= ord_keys and list(d.values())[0] in ("<", ">"))
            if is_nl:
                ok = ok and pushed == ["pos"]
            elif not_nl:
                ok = ok and pushed == []
            else:
                ok = False
                why = "the decision to record a line break depends on %s" % list(d.keys())
    elif len(filt) == 1:
        pred = A.canon_pred(A.Interp(P), A.Closure(T.peel(filt[0]["args"][0]), {}))
        chain = [p_ for n_, par in T.walk(b["tree"]) for p_ in par if n_ is filt[0]]
        maps = [p_ for p_ in chain if p_.get("k") == "mcall" and p_["name"] == "map"]
        first = False
        if len(maps) == 1:
            mc = T.peel(maps[0]["args"][0])
            if mc.get("k") == "closure" and len(mc["params"]) == 1 and mc["params"][0]["pat"].get("p") == "tuple":
                first = T.local_of(T.peel(mc["body"])) == mc["params"][0]["pat"]["pats"][0].get("id")
        ok = pred in ({"{eq($e.1, %s)}" % x for x in NL} | {"{eq(%s, $e.1)}" % x for x in NL} | {"{=:ord($e.1, 10)}", "{=:ord(10, $e.1)}"}) and first
        why = "filter predicate %s / projection" % pred
    elif len(mi) == 1:
        lit = T.lit_value(mi[0]["args"][0])
        chain = [p_ for n_, par in T.walk(b["tree"]) for p_ in par if n_ is mi[0]]
        maps = [p_ for p_ in chain if p_.get("k") == "mcall" and p_["name"] == "map"]
        first = False
        if len(maps) == 1:
            mc = T.peel(maps[0]["args"][0])
            if mc.get("k") == "closure" and len(mc["params"]) == 1 and mc["params"][0]["pat"].get("p") == "tuple":
                first = T.local_of(T.peel(mc["body"])) == mc["params"][0]["pat"]["pats"][0].get("id")
        ok = lit == "\n" and first
        why = "match_indices(%r)" % (lit,)
    if ok is None:
        res.cannot(rule, fn, "line-map", "the traversal that records line breaks was not recognised", loc)
    elif ok:
        res.holds(rule, fn, "line-map", "one entry per '\\n': its byte position")
    else:
        res.add(Finding(rule, fn, "line-map", "build_line_map does not record exactly the byte positions of the '\\n' characters (%s): line numbers of listed regions shift" % (why or "other entries / other positions"), loc=loc))
    # find_line: 1 + number of recorded line breaks *before* the position (the byte of a line break is the last byte of its
    # line: an item that starts or ends with a line break starts / ends on that line) - decided by evaluating the function on small
    # concrete line maps (all positions 0..7 against the maps [], [0], [2,5], [0,1], [3,3]) with concrete iterator models
    fb = P.fn("line_map::find_line")

    def conc(v):
        if isinstance(v, A.VecV) and v.base is None:
            return v
        raise A.Cannot("iterator over an unknown list")
    models = {
        "core::slice::iter": lambda I_, a, n, env: conc(a[0]),
        "std::iter::Iterator::position": lambda I_, a, n, env: next((A.Variant("Some", [A.Lit(i)]) for i, x in enumerate(conc(a[0]).items) if I_.truth(I_.apply(a[1], [x]))), A.Variant("None")),
        "std::iter::Iterator::take_while": lambda I_, a, n, env: A.VecV(list(__import__("itertools").takewhile(lambda x: I_.truth(I_.apply(a[1], [x])), conc(a[0]).items))),
        "std::iter::Iterator::filter": lambda I_, a, n, env: A.VecV([x for x in conc(a[0]).items if I_.truth(I_.apply(a[1], [x]))]),
        "std::iter::Iterator::count": lambda I_, a, n, env: A.Lit(len(conc(a[0]).items)),
        "std::iter::Iterator::enumerate": lambda I_, a, n, env: A.VecV([A.Tuple([A.Lit(i), x]) for i, x in enumerate(conc(a[0]).items)]),
        "std::iter::Iterator::rev": lambda I_, a, n, env: A.VecV(list(reversed(conc(a[0]).items))),
        "core::slice::len": lambda I_, a, n, env: A.Lit(len(conc(a[0]).items)),
        "std::vec::Vec::len": lambda I_, a, n, env: A.Lit(len(conc(a[0]).items)),
        "core::slice::partition_point": lambda I_, a, n, env: A.Lit(len(list(__import__("itertools").takewhile(lambda x: I_.truth(I_.apply(a[1], [x])), conc(a[0]).items)))),
    }
    bad = None
    rows = 0
    try:
        for lm in ([], [0], [2, 5], [0, 1], [3, 3]):
            for needle in range(8):
                outs = A.Interp(P, models=models).explore(lambda J: J.call_fn_body(fb, [A.VecV([A.Lit(x) for x in lm]), A.Lit(needle)]))
                rows += 1
                want = 1 + sum(1 for x in lm if x < needle)      # a line break belongs to the line it ends
                got = [o["value"].v if isinstance(o["value"], A.Lit) else A.show(o["value"]) for o in outs]
                if got != [want] and bad is None:
                    bad = (lm, needle, got, want)
    except A.Cannot as e:
        res.cannot(rule, fshort(fb), "find-line", str(e), T.loc(fb["tree"]))
        return
    if bad is None:
        res.holds(rule, fshort(fb), "find-line", "1 + number of line breaks before the position (%d concrete rows)" % rows)
    else:
        res.add(Finding(rule, fshort(fb), "find-line", "find_line(%s, %d) evaluates to %s, the line number is %d (1 + line breaks before the position; a line break belongs to the line it ends)" % bad, loc=T.loc(fb["tree"])))


def tabs_expanded(ctx, res, rule):
    """The code block is pushed into the item through `.replace("\\t", TABSPACE)` unconditionally, with TABSPACE = 4 spaces."""
    from .. import oblig
    P = ctx.lib
    b = P.fn("list::build_pretty_string_item")
    fn = fshort(b)
    tabspace = [v for bd in P.facts["bodies"] if bd["kind"].startswith("Const") and bd["def_path"].endswith("list::TABSPACE") for v in [T.lit_value(bd["tree"])]]
    if tabspace == ["    "]:
        res.holds(rule, "code::list", "tabspace-const", "four spaces")
    else:
        res.add(Finding(rule, "code::list", "tabspace-const", "TABSPACE is %r, tabs must expand to four spaces" % (tabspace,), loc=T.loc(b["tree"])))
    cb = [s for s in T.nodes(b["tree"], "let") if s["pat"]["p"] == "tuple" and any(x.get("name") == "code_block" for x in s["pat"]["pats"])]
    if not cb:
        res.cannot(rule, fn, "code-block", "local `code_block` not found", T.loc(b["tree"]))
        return
    cid = [x["id"] for x in cb[0]["pat"]["pats"] if x.get("name") == "code_block"][0]
    uses = [(n, par) for n, par in T.walk(b["tree"]) if n.get("k") == "path" and T.local_of(n) == cid]
    okk = len(uses) >= 1
    for n, par in uses:
        p = par[-1]
        i = len(par) - 1
        while p.get("k") in ("addr_of",) or (p.get("k") == "unary" and p.get("op") == "*"):
            i -= 1
            p = par[i]
        rep = p.get("k") == "mcall" and p["name"] == "replace" and T.lit_value(p["args"][0]) == "\t" and T.render(p["args"][1]).endswith("TABSPACE")
        conditional = any(q.get("k") in ("if", "match") for q in par[: i])
        if not rep or conditional:
            okk = False
            res.add(Finding(rule, fn, "tab-expansion:" + T.render(p)[:60], "the code block reaches the item through `%s`%s: tabs must be expanded to TABSPACE unconditionally"
                            % (T.render(p)[:80], " under a condition" if conditional else ""), loc=T.loc(n)))
    if okk:
        res.holds(rule, fn, "tab-expansion", "code_block.replace(\"\\t\", TABSPACE), unconditional")


TEXT_TRANSFORMS = {"trim", "trim_end", "trim_start", "trim_matches", "trim_end_matches", "trim_start_matches", "to_lowercase", "to_uppercase",
                   "to_ascii_lowercase", "to_ascii_uppercase", "replacen", "strip_prefix", "strip_suffix", "split_whitespace", "escape_default", "escape_debug",
                   "chars", "char_indices", "bytes", "truncate", "pop", "remove", "retain", "drain", "rev"}


LINE_SPLITTERS = {"split", "rsplit", "split_terminator", "rsplit_terminator", "split_inclusive", "splitn", "rsplitn", "split_once", "rsplit_once"}


def verbatim_lines(ctx, res, rule):
    """The listed lines are the source lines: in the list renderers no text-transforming operation is applied to strings
    (the only rewriting allowed is the tab expansion checked by R4 and the insertion of colour / marker / number strings)."""
    P = ctx.lib
    n_str = 0
    for name in ("list::build_pretty_string_item", "list::build_pretty_string", "list::build_list"):
        b = P.fn(name)
        for n in T.nodes(b["tree"], "mcall"):
            rty = (n["recv"].get("aty") or n["recv"].get("ty") or "").replace("&mut ", "").lstrip("&")
            if rty not in ("str", "std::string::String"):
                continue
            n_str += 1
            if n["name"] in LINE_SPLITTERS:
                # one notion of "line" in the renderers: `lines()` (which also drops the '\r' of a CR LF break) - a pass that splits on
                # '\n' alone keeps the '\r', and once a colour code follows it the later `lines()` cannot strip it any more
                res.add(Finding(rule, fshort(b), "line-splitter:" + T.render(n)[-50:], "`%s` splits the listed text by another notion of line than `lines()`: on CR LF "
                                "documents the coloured pretty form and the JSON form of the same item differ" % T.render(n)[-80:], loc=T.loc(n)))
                continue
            if n["name"] in TEXT_TRANSFORMS or (n["name"] == "replace" and T.lit_value(n["args"][0]) != "\t"):
                res.add(Finding(rule, fshort(b), "text-transform:" + T.render(n)[-60:], "`%s` rewrites listed text: the item would no longer show the source lines verbatim "
                                "(and the JSON form could differ from the colour-stripped pretty form)" % T.render(n)[-90:], loc=T.loc(n)))
    res.floor(rule, "string operations inspected in the list renderers", n_str, 20)
    if not [f for f in res.findings if f.rule == rule]:
        res.holds(rule, "code::list", "verbatim-lines", "%d string operations, none rewrites text" % n_str)


def schema(ctx, res, rule):
    P = ctx.lib
    li = [a for p, a in P.adts.items() if p.endswith("list::ListItem")]
    st = [a for p, a in P.adts.items() if p.endswith("list::ItemStatus")]
    if not li or not st:
        res.cannot(rule, "code::list", "types", "ListItem / ItemStatus not found")
        return
    li, st = li[0], st[0]
    fields = [(f["name"], f["ty"]) for f in li["variants"][0]["fields"]]
    want = [("line_range", "std::option::Option<(usize, usize)>"), ("annotated_code_block", "std::string::String"), ("current_status", "code::list::ItemStatus")]
    if fields == want:
        res.holds(rule, "code::list::ListItem", "fields", str(fields))
    else:
        res.add(Finding(rule, "code::list::ListItem", "fields", "ListItem fields are %s, the documented JSON object is %s" % (fields, want), loc="%s:%d" % tuple(li["sp"][:2])))
    vs = [(v["name"], len(v["fields"])) for v in st["variants"]]
    if vs == [("Ready", 0), ("Pending", 0)]:
        res.holds(rule, "code::list::ItemStatus", "variants", str(vs))
    else:
        res.add(Finding(rule, "code::list::ItemStatus", "variants", "ItemStatus variants are %s, expected unit variants Ready, Pending" % vs, loc="%s:%d" % tuple(st["sp"][:2])))
    for adt in (li, st):
        nm = adt["def_path"].split("::")[-1]
        ser = [i for i in P.impls if (i.get("trait") or "").endswith("Serialize") and i["self_ty"].endswith(nm) and i.get("derived")]
        if ser:
            res.holds(rule, "code::list::" + nm, "derive-serialize")
        else:
            res.add(Finding(rule, "code::list::" + nm, "derive-serialize", "%s has no derived Serialize impl (hand-written serialisation is not analysed)" % nm, loc="%s:%d" % tuple(adt["sp"][:2])))
        # the JSON keys / variant names are read off the *generated* serialize body (covers rename, rename_all, skip, flatten ..)
        sb = [b_ for b_ in P.facts["bodies"] if b_["kind"] == "AssocFn" and "Serialize for" in b_["def_path"] and b_["def_path"].endswith("%s>::serialize" % adt["def_path"].replace("crate::", ""))]
        if len(sb) != 1:
            res.cannot(rule, "code::list::" + nm, "generated-serialize", "generated serialize body not found")
            continue
        keys, variants_, other = [], [], []
        for n in T.nodes(sb[0]["tree"]):
            if n.get("k") not in ("call", "mcall"):
                continue
            cn = (T.cname(n) or "").split("::")[-1]
            if not cn.startswith("serialize"):
                continue
            args = ([n["recv"]] if n.get("k") == "mcall" else []) + n["args"]
            if cn == "serialize_field":
                keys.append((T.lit_value(args[1]), T.render(T.peel_ref(args[2]))))
            elif cn == "serialize_unit_variant":
                variants_.append(T.lit_value(args[3]))
            elif cn in ("serialize_struct", "end"):
                pass
            else:
                other.append(cn)
        if adt is li:
            wantk = [(f_, "self." + f_) for f_, _ in want]
            if keys == wantk and not other:
                res.holds(rule, "code::list::" + nm, "generated-keys", str([k for k, _ in keys]))
            else:
                res.add(Finding(rule, "code::list::" + nm, "generated-keys", "the generated serialiser writes keys %s (other calls %s); the documented object has %s"
                                % (keys, other, [k for k, _ in wantk]), loc="%s:%d" % tuple(adt["sp"][:2])))
        else:
            if variants_ == ["Ready", "Pending"] and not other and not keys:
                res.holds(rule, "code::list::" + nm, "generated-variants", str(variants_))
            else:
                res.add(Finding(rule, "code::list::" + nm, "generated-variants", "the generated serialiser writes the status as %s %s, expected the strings Ready / Pending"
                                % (variants_, other), loc="%s:%d" % tuple(adt["sp"][:2])))
    # JSON branch of both entry points
    et = c15.entry_terms(ctx)
    for name in ("list", "list_all"):
        b, terms = et[name]
        t = terms.get("ListFormat::JSON", "")
        if re.match(r"^Ok\(serde_json::to_string\(build_list\(content, .*, Some\(build_line_map\(content\)\)\)\)\.ok\)$", t):
            res.holds(rule, fshort(b), "json-branch")
        else:
            res.add(Finding(rule, fshort(b), "json-branch", "the JSON branch is not serde_json::to_string(build_list(content, markers, Some(line map))): %s" % t[:300], loc=T.loc(b["tree"])))
        t2 = terms.get("ListFormat::PrettyString", "")
        if re.match(r"^Ok\(build_pretty_string\(content, .*, Some\(build_line_map\(content\)\)\)\)$", t2):
            res.holds(rule, fshort(b), "pretty-branch")
        else:
            res.add(Finding(rule, fshort(b), "pretty-branch", "the pretty branch is not build_pretty_string(content, markers, Some(line map)): %s" % t2[:300], loc=T.loc(b["tree"])))
        # both branches render the same marker list
        m1 = re.match(r"^Ok\(serde_json::to_string\(build_list\(content, (.*), Some\(", t)
        m2 = re.match(r"^Ok\(build_pretty_string\(content, (.*), Some\(", t2)
        if m1 and m2 and m1.group(1) == m2.group(1):
            res.holds(rule, fshort(b), "same-markers-both-formats")
        else:
            res.add(Finding(rule, fshort(b), "same-markers-both-formats", "JSON and pretty forms are rendered from different marker lists", loc=T.loc(b["tree"])))
    # build_list: status mapping and item construction
    bl = P.fn("list::build_list")
    maps = [n for n in T.nodes(bl["tree"], "mcall") if n["name"] == "map" and T.render(n["recv"]) == "markers.iter()"]
    if len(maps) != 1:
        res.cannot(rule, fshort(bl), "map", "build_list is not a map over markers.iter()", T.loc(bl["tree"]))
        return
    clo = T.peel(maps[0]["args"][0])
    I = A.Interp(P)
    I.lazy_locals = True

    def run_(J):
        env = {}
        if not J.match_pat(clo["params"][0]["pat"], A.Tuple([A.Tuple([A.Sym("range"), A.Sym("idx")]), A.Sym("is_removal", "bool")]), env):
            raise A.Cannot("closure parameter")
        return J.ev(clo["body"], env)
    try:
        outs = I.explore(run_)
    except A.Cannot as e:
        res.cannot(rule, fshort(bl), "closure", str(e), T.loc(bl["tree"]))
        return
    okk = len(outs) >= 2 and {o["decisions"].get("is_removal") for o in outs} == {True, False}
    for o in outs:
        v = o["value"]
        if not isinstance(v, A.Struct):
            okk = False
            continue
        ready = o["decisions"].get("is_removal")
        stv = A.show(v.fields.get("current_status"))
        if (ready is True and not stv.endswith("Ready")) or (ready is False and not stv.endswith("Pending")):
            okk = False
        lrs = A.show(v.fields.get("line_range"))
        if lrs not in ("None", "Some(get_line_range(line_map.some, range))"):
            okk = False
    if okk:
        res.holds(rule, fshort(bl), "status-mapping", "is_removal -> Ready, otherwise Pending")
    else:
        res.add(Finding(rule, fshort(bl), "status-mapping", "build_list does not map is_removal=true to Ready and false to Pending: %s" % [(dict(o["decisions"]), A.show(o["value"])[:120]) for o in outs][:2], loc=T.loc(bl["tree"])))
    # collect() of the map is returned
    if T.render(T.peel(bl["tree"])).rstrip(" }").endswith(".collect()"):
        res.holds(rule, fshort(bl), "all-items-collected")
    else:
        res.add(Finding(rule, fshort(bl), "all-items-collected", "build_list does not return the collected map over all markers", loc=T.loc(bl["tree"])))


def colour(ctx, res, rule):
    P = ctx.lib
    item = P.fn("list::build_pretty_string_item")
    fn = fshort(item)
    loc = T.loc(item["tree"])
    # (a) sibling call sites differ only in the literal `coloring`
    calls = []
    for name in ("list::build_list", "list::build_pretty_string"):
        b = P.fn(name)
        cs = [n for n in T.nodes(b["tree"], "call") if (T.callee(n) or "") == item["def_path"]]
        if len(cs) != 1:
            res.cannot(rule, fshort(b), "item-call", "expected one call of build_pretty_string_item", T.loc(b["tree"]))
            return
        calls.append((b, cs[0]))
    pnames = [p["pat"]["name"] for p in item["params"]]
    ci = pnames.index("coloring") if "coloring" in pnames else None
    if ci is None:
        res.cannot(rule, fn, "param", "no `coloring` parameter", loc)
        return
    a0 = [T.render(a) for a in calls[0][1]["args"]]
    a1 = [T.render(a) for a in calls[1][1]["args"]]
    same = all(x == y for i, (x, y) in enumerate(zip(a0, a1)) if i != ci)
    lits = (T.lit_value(calls[0][1]["args"][ci]), T.lit_value(calls[1][1]["args"][ci]))
    if same and lits == (False, True):
        res.holds(rule, "code::list", "sibling-call-sites", "args equal except coloring: JSON=false, pretty=true")
    else:
        res.add(Finding(rule, "code::list", "sibling-call-sites", "build_list and build_pretty_string render items with different arguments (besides the colour flag): %s vs %s" % (a0, a1), loc=T.loc(calls[0][1])))
    # both forms render every marker, in order
    for b_, c_ in calls:
        trav = None
        for x, par in T.walk(b_["tree"]):
            if x is c_:
                ms = [q for q in par if q.get("k") == "mcall" and q["name"] in ("map", "for_each", "fold") and any(z is c_ for a_ in q["args"] for z in T.nodes(a_))]
                fl = [q for q in par if q.get("k") == "for"]
                trav = T.render(ms[0]["recv"]) if ms else (T.render(fl[0]["iter"]) if fl else None)
        if trav is not None and trav.startswith(("markers.iter()", "markers")) and not T.shortened(trav) and not re.search(r"\.zip\(.*(saturating_sub|- 1)", trav):
            res.holds(rule, fshort(b_), "all-markers-rendered", trav[:60])
        else:
            res.add(Finding(rule, fshort(b_), "all-markers-rendered", "the items are rendered from `%s`, not from every marker in order" % (trav or "?")[:80], loc=T.loc(c_)))
    # line_range computed identically
    lr = []
    for b, c in calls:
        for s in T.nodes(b["tree"], "let"):
            if s["pat"]["p"] == "bind" and s["pat"]["name"] == "line_range" and s.get("init") is not None:
                lr.append(T.render(s["init"]))
    if len(lr) == 2 and lr[0] == lr[1]:
        res.holds(rule, "code::list", "sibling-line-range", lr[0])
    else:
        res.add(Finding(rule, "code::list", "sibling-line-range", "line ranges are computed differently for the two forms: %s" % lr, loc=loc))
    # (b) inside the item renderer: `coloring` only selects the colour strings
    cid = item["params"][ci]["pat"]["id"]
    uses = [(n, par) for n, par in T.walk(item["tree"]) if T.local_of(n) == cid and n.get("k") == "path"]
    sel = None
    if len(uses) == 1:
        n, par = uses[0]
        p = par[-1] if par else None
        if p is not None and p.get("k") == "if" and T.peel(p["cond"]) is n:
            sel = p
    if sel is None:
        res.add(Finding(rule, fn, "coloring-use", "`coloring` is used %d time(s) / not only as the condition selecting the colour strings: the code block could differ between "
                        "the JSON and the pretty form" % len(uses), loc=loc))
        return
    then_t, else_t = T.peel(sel["then"]), T.peel(sel["els"]) if sel.get("els") else None
    if else_t is None or then_t.get("k") != "tuple" or else_t.get("k") != "tuple" or len(then_t["es"]) != len(else_t["es"]):
        res.cannot(rule, fn, "coloring-select", "colour selection is not `if coloring {(..)} else {(..)}`", T.loc(sel))
        return
    if all(T.lit_value(e) == "" for e in else_t["es"]):
        res.holds(rule, fn, "uncoloured-strings-empty")
    else:
        res.add(Finding(rule, fn, "uncoloured-strings-empty", "without colouring the inserted strings are not all empty: %s" % T.render(else_t), loc=T.loc(else_t)))
    consts = {}
    for bd in P.facts["bodies"]:
        if bd["kind"].startswith("Const") and "code::list::" in bd["def_path"]:
            v = T.lit_value(bd["tree"])
            consts[bd["def_path"]] = v
    colour_consts = set()
    okc = True
    for e in then_t["es"]:
        for n in T.nodes(e):
            if n.get("k") == "path" and n["res"].get("r") == "def" and n["res"].get("dk", "").startswith("Const"):
                colour_consts.add(n["res"]["path"])
            elif n.get("k") == "path" and n["res"].get("r") == "local":
                if n["res"]["name"] != "is_removal":
                    okc = False
            elif n.get("k") in ("if", "blockexpr", "block", "expr", "tuple"):
                continue
            else:
                okc = False
    if not okc:
        res.add(Finding(rule, fn, "coloured-strings-constants", "the coloured strings are not constants (chosen at most by is_removal): %s" % T.render(then_t)[:160], loc=T.loc(then_t)))
    for pth in sorted(colour_consts):
        v = consts.get(pth)
        if isinstance(v, str) and re.match(r"^\x1b\[[0-9;]*m$", v):
            res.holds(rule, "code::list", "colour-const:" + pth.split("::")[-1], repr(v))
        else:
            res.add(Finding(rule, "code::list", "colour-const:" + pth.split("::")[-1], "colour constant is %r, not an SGR escape sequence ESC [ digits m: stripping colour codes "
                            "would not recover the uncoloured text" % (v,), loc=loc))
    for pth, v in consts.items():
        if pth not in colour_consts and isinstance(v, str) and ESC in v:
            res.add(Finding(rule, "code::list", "escape-in-const:" + pth.split("::")[-1], "a non-colour constant contains ESC: %r" % v, loc=loc))
    res.floor(rule, "colour constants", len(colour_consts), 4)
    # (c) the locals bound from the selection flow only into push_str / capacity computations
    bound = []
    for s in T.nodes(item["tree"], "let"):
        if s.get("init") is not None and T.peel(s["init"]) is sel and s["pat"]["p"] == "tuple":
            bound = [p for p in s["pat"]["pats"] if p["p"] == "bind"]
    if len(bound) != len(then_t["es"]):
        res.cannot(rule, fn, "colour-locals", "the selected colour strings are not bound by a tuple pattern", T.loc(sel))
        return
    ids = {p["id"]: p["name"] for p in bound}
    nuse = [0]

    def flows(body, ids, depth):
        bfn = fshort(body)
        for n, par in T.walk(body["tree"]):
            if n.get("k") != "path" or T.local_of(n) not in ids:
                continue
            if any(q.get("k") == "let" and q.get("forwarded") for q in par):
                continue        # the defining `let` of a local that is read through (sa/forward.py): judged at its uses
            nuse[0] += 1
            nm = ids[T.local_of(n)]
            ctx_ok = False
            # climb: push_str(arg), .len() inside with_capacity(..), a plain `{}` placeholder of format!, or an argument of a
            # helper of this crate whose parameter is used in the same ways (followed to depth 3)
            chain = list(par)
            p = chain[-1]
            while p.get("k") in ("addr_of",) or (p.get("k") == "unary" and p.get("op") == "*"):
                chain = chain[:-1]
                p = chain[-1]
            fmt = [q for q in chain if q.get("k") == "call" and (T.cname(q) or "") in ("std::fmt::format", "alloc::fmt::format")]
            if p.get("k") == "mcall" and p["name"] == "push_str" and any(T.peel_ref(a) is n for a in p["args"]):
                ctx_ok = True
            elif p.get("k") == "mcall" and p["name"] == "len" and T.peel_ref(p["recv"]) is n:
                if any(q.get("k") == "call" and (T.cname(q) or "").endswith("String::with_capacity") for q in chain):
                    ctx_ok = True
            elif fmt:
                snip = fmt[-1].get("snip") or ""
                m = re.match(r'^format!\(\s*"((?:[^"\\]|\\.)*)"', snip, re.S)
                if m and all(re.match(r"^\{[A-Za-z_0-9]*\}$", ph) for ph in re.findall(r"\{[^{}]*\}", m.group(1).replace("{{", "").replace("}}", ""))):
                    ctx_ok = True
                    p = fmt[-1]
            elif p.get("k") == "call" and depth < 3:
                callee = P.bodies.get(T.callee(p) or "")
                idx = [k for k, a in enumerate(p["args"]) if T.peel_ref(a) is n]
                if callee is not None and len(idx) == 1 and callee["params"][idx[0]]["pat"]["p"] == "bind":
                    cp = callee["params"][idx[0]]["pat"]
                    flows(callee, {cp["id"]: "%s(as %s in %s)" % (nm.split("(")[0], cp["name"], fshort(callee))}, depth + 1)
                    res.holds(rule, bfn, "colour-flow:%s:helper %s" % (nm, fshort(callee)))
                    continue
            site = "colour-flow:%s:%s" % (nm, (p.get("snip") or T.render(p))[:50])
            if ctx_ok:
                res.holds(rule, bfn, site)
            else:
                res.add(Finding(rule, bfn, site, "colour string `%s` flows into `%s`: colouring may change more than the inserted escape codes" % (nm, T.render(p)[:100]), loc=T.loc(n)))

    flows(item, ids, 0)
    nuse = nuse[0]
    res.floor(rule, "uses of the colour strings", nuse, 8)


def padding_widths(ctx, res, rule):
    """`a _start marker in the column of the first removed character and an ‾end marker in the column of the last one (columns
    counted with tab = 4, for ASCII text to the left of the marker)`: with ASCII text the column of byte p on a line starting at
    L, shown behind a number column of width W, is W + (p - L) + 3 * tabs(content[L..p]).  The padding pieces that `frame` (R8)
    listed in front of each marker are summed as a linear form (unit string length x repeat count, immutable local definitions
    read through) and compared with that column; W is the second component of the (code block, offset) pair: 0 without line
    numbers, the width of the formatted number column with them."""
    from .. import linear
    P = ctx.lib
    b = P.fn("list::build_pretty_string_item")
    fn = fshort(b)
    loc = T.loc(b["tree"])
    nodes_ = getattr(ctx, "_c16_frame", None)
    if not nodes_:
        res.cannot(rule, fn, "padding", "the pieces of the frame were not listed (see C16.R8)", loc)
        return
    ps_ = [p_["pat"] for p_ in b["params"]]
    if len(ps_) < 3 or not all(p_.get("p") == "bind" for p_ in ps_[:3]):
        res.cannot(rule, fn, "padding", "parameters (content, start, end) not recognised", loc)
        return
    start_id, end_id = ps_[1]["id"], ps_[2]["id"]
    defs = {}
    ofs_let = None
    for s_ in T.nodes(b["tree"], "let"):
        if s_.get("init") is None:
            continue
        if s_["pat"].get("p") == "bind" and s_["pat"].get("mode") == "BindingMode(No, Not)":
            defs[s_["pat"]["id"]] = s_["init"]
        i_ = T.peel(s_["init"])
        if s_["pat"].get("p") == "tuple" and len(s_["pat"]["pats"]) == 2 and s_["pat"]["pats"][1].get("p") == "bind" \
                and s_["pat"]["pats"][1].get("ty") == "usize" and (
                    (i_.get("k") == "if" and "line_range" in T.render(i_["cond"])) or
                    (i_.get("k") == "match" and "line_range" in T.render(i_["scrut"]) and len(i_.get("arms", [])) == 2)):
            ofs_let = s_
    names = {}

    def lin_of(n, depth=0):
        n = T.peel(n)
        k = n.get("k")
        if k == "lit" and isinstance(n["v"][0], int) and not isinstance(n["v"][0], bool):
            return {"1": n["v"][0]} if n["v"][0] else {}
        if k == "path" and str((n.get("res") or {}).get("dk", "")).startswith(("Const", "AssocConst")):
            cv = const_value(P, n["res"].get("path"))
            if cv is not None:
                return {"1": cv} if cv else {}
        if k == "binary" and n["op"] in ("+", "-") and not n.get("overloaded"):
            a_, b_ = lin_of(n["l"], depth), lin_of(n["r"], depth)
            return None if a_ is None or b_ is None else linear.combine(a_, b_, 1 if n["op"] == "+" else -1)
        if k == "binary" and n["op"] == "*" and not n.get("overloaded"):
            for x, y in ((n["l"], n["r"]), (n["r"], n["l"])):
                c = T.lit_value(x)
                if isinstance(c, int) and not isinstance(c, bool):
                    f = lin_of(y, depth)
                    return None if f is None else {k_: c * v_ for k_, v_ in f.items() if c * v_}
            return None
        lid = T.local_of(n)
        if lid is not None:
            if lid == start_id:
                return {"start": 1}
            if lid == end_id:
                return {"end": 1}
            d = defs.get(lid)
            if d is not None and depth < 8:
                dd = T.peel(d)
                if dd.get("k") in ("binary", "lit", "path") and (dd.get("k") != "binary" or dd["op"] in ("+", "-", "*")):
                    return lin_of(d, depth + 1)
                if dd.get("k") == "call" and T.short_path(T.callee(dd) or "").endswith("count_tabspace") and len(dd["args"]) == 1:
                    key = "tabs[%s]" % T.render(T.peel_ref(dd["args"][0]))
                    names[key] = dd
                    return {key: 1}
            return {"$" + T.render(n): 1}
        if k == "call" and T.short_path(T.callee(n) or "").endswith("count_tabspace") and len(n["args"]) == 1:
            key = "tabs[%s]" % T.render(T.peel_ref(n["args"][0]))
            names[key] = n
            return {key: 1}
        return {"$" + T.render(n): 1}

    def unit_len(a):
        r_ = T.peel_ref(a["recv"])
        v = T.lit_value(r_)
        if v is None and r_.get("k") == "mcall" and r_["name"] in ("to_string", "to_owned"):
            v = T.lit_value(T.peel_ref(r_["recv"]))
        return len(v) if isinstance(v, str) and set(v) == {" "} else None

    sums = {"S": {}, "E": {}}
    seen_block = False
    bad = None
    for kind, a in nodes_:
        if kind == "B":
            seen_block = True
        elif kind == "P":
            u = unit_len(a)
            f = lin_of(a["args"][0]) if len(a.get("args") or []) == 1 else None
            if u is None or f is None:
                bad = T.render(a)[:70]
                break
            side = "E" if seen_block else "S"
            sums[side] = linear.combine(sums[side], {k_: u * v_ for k_, v_ in f.items()}, 1)
    if bad:
        res.cannot(rule, fn, "padding:" + bad, "the width of the padding `%s` is not a linear form of the item's quantities" % bad, loc)
        return
    ofs_key = None
    if ofs_let is not None:
        ofs_key = "$" + ofs_let["pat"]["pats"][1]["name"]
    for side, marker, pos, minus1 in (("S", "_start", "start", 0), ("E", "\u203eend", "end", -1)):
        tot = dict(sums[side])
        tabs = [k_ for k_ in tot if k_.startswith("tabs[")]
        m = re.match(r"^tabs\[\w+\[(\w+)\.\.(\w+)\]\]$", tabs[0]) if len(tabs) == 1 else None
        want = None
        if m and m.group(2) == pos:
            want = {tabs[0]: 3, pos: 1, "$" + m.group(1): -1}
            if minus1:
                want["1"] = minus1
            if ofs_key:
                want[ofs_key] = 1
        if want is not None and tot == want:
            res.holds(rule, fn, "padding-width:" + marker, "sum of the padding = " + linear.show(tot))
        else:
            res.add(Finding(rule, fn, "padding-width:" + marker,
                            "the padding in front of `%s` adds up to [%s]; the column of the %s removed character (tab = 4, behind the number column) is "
                            "offset + (%s%s - line start) + 3 x tabs(line start..%s)" % (marker, linear.show(tot), "first" if pos == "start" else "last", pos, " - 1" if minus1 else "", pos), loc=loc))
    # the offset: 0 without line numbers, the width of the number column with them
    if ofs_let is None:
        res.cannot(rule, fn, "offset", "the (code block, offset) pair selected by `line_range` was not found", loc)
        return
    i_ = T.peel(ofs_let["init"])

    def tail_tuple(blk):
        blk = T.peel(blk)
        while blk is not None and blk.get("k") in ("blockexpr", "block"):
            blk = blk["block"] if blk.get("k") == "blockexpr" else (T.peel(blk["tail"]) if blk.get("tail") is not None else None)
        return blk if blk is not None and blk.get("k") == "tuple" and len(blk.get("es", blk.get("elems", []))) == 2 else None
    if i_.get("k") == "match":
        some_arm = [a_ for a_ in i_["arms"] if "Some" in T.render({"k": "match", "scrut": i_["scrut"], "arms": [a_]}).split("=>")[0]]
        none_arm = [a_ for a_ in i_["arms"] if a_ not in some_arm]
        if len(some_arm) != 1 or len(none_arm) != 1:
            res.cannot(rule, fn, "offset", "the arms of the (code block, offset) selection are not Some / None", T.loc(ofs_let))
            return
        then_, els_ = some_arm[0]["body"], none_arm[0]["body"]
    else:
        then_, els_ = i_["then"], i_.get("els")
    th, el = tail_tuple(then_), tail_tuple(els_) if els_ is not None else None
    if th is None or el is None:
        res.cannot(rule, fn, "offset", "the branches of the (code block, offset) selection are not pairs", T.loc(ofs_let))
        return
    elems = lambda t: t.get("es", t.get("elems"))
    none_ofs = lin_of(elems(el)[1])
    if none_ofs == {}:
        res.holds(rule, fn, "offset:none", "without line numbers the offset is 0")
    else:
        res.add(Finding(rule, fn, "offset:none", "without line numbers the marker offset is `%s`, not 0: the markers leave the column of the removed text" % T.render(elems(el)[1]), loc=T.loc(ofs_let)))
    some_ofs = lin_of(elems(th)[1])
    snips = []
    for n, _ in T.walk(then_):
        sn = n.get("snip")
        if sn and sn.startswith("format!") and sn not in snips:
            snips.append(sn)
    col = [sn for sn in snips if re.search(r"\$\}|\{:[<>^]?\d+\}", sn)]
    if len(col) != 1:
        res.cannot(rule, fn, "offset:some", "the number column is not produced by one width-formatted `format!` (found %d)" % len(col), T.loc(ofs_let))
        return
    w = format_width(col[0], lambda name: const_by_name(P, name))
    if w is None:
        res.cannot(rule, fn, "offset:some", "the width of `%s` could not be read off its format string" % col[0][:70], T.loc(ofs_let))
        return
    if w == some_ofs:
        res.holds(rule, fn, "offset:some", "number column width = %s = offset" % linear.show(w))
    else:
        res.add(Finding(rule, fn, "offset:some", "the number column `%s` is %s wide but the markers are shifted by %s" % (col[0][:80], linear.show(w), linear.show(some_ofs or {})), loc=T.loc(ofs_let)))


def const_value(P, path, depth=0):
    """Integer value of a constant whose initialiser is built from literals, other constants, + - *; None otherwise."""
    if path in T.CONSTS and isinstance(T.CONSTS[path], int) and not isinstance(T.CONSTS[path], bool):
        return T.CONSTS[path]
    b = P.bodies.get(path)
    if b is None or depth > 6:
        return None

    def ev(n):
        n = T.peel(n)
        k = n.get("k")
        if k == "lit" and isinstance(n["v"][0], int) and not isinstance(n["v"][0], bool):
            return n["v"][0]
        if k == "path" and str((n.get("res") or {}).get("dk", "")).startswith(("Const", "AssocConst")):
            return const_value(P, n["res"].get("path"), depth + 1)
        if k == "binary" and n["op"] in ("+", "-", "*"):
            a_, b_ = ev(n["l"]), ev(n["r"])
            if a_ is None or b_ is None:
                return None
            return a_ + b_ if n["op"] == "+" else (a_ - b_ if n["op"] == "-" else a_ * b_)
        return None
    return ev(b["tree"])


def const_by_name(P, name):
    name = name.split("::")[-1]
    vs = {const_value(P, p_) for p_, b in P.bodies.items() if (b.get("kind") or "").startswith(("Const", "AssocConst")) and p_.split("::")[-1] == name}
    return vs.pop() if len(vs) == 1 else None


def format_width(snip, const=lambda name: None):
    """Width of the text a `format!("..", args)` call produces, as a linear form, when every placeholder is either
    width-formatted (`{:w$}`, `{:8}`; content assumed not wider) or a string literal argument; None if it cannot be told."""
    m = re.match(r'^format!\(\s*"((?:[^"\\]|\\.)*)"\s*(?:,(.*))?\)$', snip, re.S)
    if not m:
        return None
    fmt, rest = m.group(1), m.group(2) or ""
    args, depth, cur = [], 0, ""
    instr = False
    for ch in rest:
        if ch == '"':
            instr = not instr
        if not instr and ch in "([{":
            depth += 1
        if not instr and ch in ")]}":
            depth -= 1
        if ch == "," and depth == 0 and not instr:
            args.append(cur.strip())
            cur = ""
        else:
            cur += ch
    if cur.strip():
        args.append(cur.strip())
    named = {}
    positional = []
    for a in args:
        m2 = re.match(r"^(\w+)\s*=\s*(.+)$", a, re.S)
        if m2 and not a.startswith('"'):
            named[m2.group(1)] = m2.group(2).strip()
        else:
            positional.append(a)

    def lin_text(t):
        out = {}
        for sign, tok in re.findall(r"([+-]?)\s*([\w:]+)", t.replace(" ", "")):
            if not re.sub(r"[+\-\s\w:]", "", t) == "":
                return None
            sg = -1 if sign == "-" else 1
            if tok.isdigit():
                out["1"] = out.get("1", 0) + sg * int(tok)
            elif const(tok) is not None:
                out["1"] = out.get("1", 0) + sg * const(tok)
            else:
                key = tok.split("::")[-1]
                out[key] = out.get(key, 0) + sg
        return {k_: v_ for k_, v_ in out.items() if v_}
    total = {}
    i = 0
    nxt = 0
    while i < len(fmt):
        ch = fmt[i]
        if ch == "\\":
            total["1"] = total.get("1", 0) + 1
            i += 2
            continue
        if ch == "{" and fmt[i:i + 2] == "{{" or ch == "}" and fmt[i:i + 2] == "}}":
            total["1"] = total.get("1", 0) + 1
            i += 2
            continue
        if ch == "{":
            j = fmt.index("}", i)
            spec = fmt[i + 1:j]
            name, _, f_ = spec.partition(":")
            if name == "":
                argi = nxt
                nxt += 1
            mw = re.match(r"^[<>^]?(?:(\d+)|(\w+)\$)$", f_) if f_ else None
            if mw:
                if mw.group(1):
                    wl = {"1": int(mw.group(1))}
                else:
                    src = named.get(mw.group(2), mw.group(2))      # `{i:WIDTH$}` captures an identifier in scope
                    wl = lin_text(src)
                if wl is None:
                    return None
                for k_, v_ in wl.items():
                    total[k_] = total.get(k_, 0) + v_
            elif f_ == "" and name == "" and argi < len(positional) and re.match(r'^"[^"\\]*"$', positional[argi]):
                total["1"] = total.get("1", 0) + len(positional[argi]) - 2
            elif f_ == "" and re.match(r'^(?:\{\w*\}|\\n|\\r)*$', fmt[i:]):
                break       # the line's own text (and its line break) follow the column: `{:w$} |{l}\n`
            else:
                return None
            i = j + 1
            continue
        total["1"] = total.get("1", 0) + 1
        i += 1
    return {k_: v_ for k_, v_ in total.items() if v_}
