"""C04 - no-op identity when nothing is ready."""
from .. import absint as A
from .. import tree as T
from ..report import Finding
from . import common, fshort

LEVEL = "other"


def run(ctx, res):
    P = ctx.lib
    res.explanation = (
        "R1 (DT): no item reaches the ready list without a positive evaluator verdict (rows of the element table with "
        "verdict=0 / skip / unregistered / unbuilt / empty).  R2 (SQ): in formatter::format every push/extend/insert into a "
        "range vector is inside the loop over removed positions (or consumes only vectors filled there), so with no removal no "
        "formatter range exists; clean passes get_removed_pos(markers of remove) to format.  R3 (DT): every non-pair return of "
        "the unwrap builder is an empty range and the `!range.is_empty()` filter sits before both pushes.  With R1-R3 an input "
        "with no ready element yields no marker, no removed position and no deletion: the structural argument is the whole "
        "argument, modulo the C05/C06 tables that define `ready`.")
    res.trusted += ["String::replace_range over an empty list of ranges leaves the string unchanged (loops are vacuous)",
                    "driver fact extraction and the abstract interpreter"]
    rows, bad = common.element_rows(ctx, res, "C04.R1", lambda r: not (r["elem"] and not r["skip"] and r["registered"] and r["verdict"] and r["built"] and not r["empty"]),
                                    "no ready item without a positive verdict and a non-empty range")
    res.extra["table_rows"] = rows
    format_ranges_control_dependent(ctx, res, "C04.R2")
    common.marker_extents(ctx, res, "C04.R3", parts=("empty",))


def format_ranges_control_dependent(ctx, res, rule):
    P = ctx.lib
    b = P.fn("code::formatter::format")
    fn = fshort(b)
    loc = T.loc(b["tree"])
    # format(content, removed_pos, formatters, structure_formatters): the removed positions are the second parameter
    if len(b["params"]) < 2 or b["params"][1]["pat"]["p"] != "bind" or "usize" not in (b["params"][1].get("ty") or ""):
        res.cannot(rule, fn, "params", "the removed-positions parameter (2nd) was not found", loc)
        return
    params = {"removed_pos": b["params"][1]["pat"]["id"]}
    # vectors of ranges declared in the function
    range_vecs = {}
    for s in T.nodes(b["tree"], "let"):
        if s["pat"]["p"] == "bind" and "Vec<std::ops::Range<usize>>" in s.get("pty", "") and s.get("init") is not None and T.render(s["init"]) == "std::vec::Vec::new()":
            range_vecs[s["pat"]["id"]] = s["pat"]["name"]
    res.floor(rule, "range vectors declared empty in format()", len(range_vecs), 1)
    # the loop over removed positions
    loops = [n for n in T.nodes(b["tree"], "for") if _iter_root(n["iter"], b) == params["removed_pos"]]
    if len(loops) != 1:
        res.cannot(rule, fn, "loop", "expected exactly one loop over removed_pos, found %d" % len(loops), loc)
        return
    loop = loops[0]
    inside = {id(x) for x in T.nodes(loop["body"])}
    MUT = ("push", "insert", "extend", "append", "extend_from_slice", "resize", "push_str")
    filled_in_loop = set()
    sites = 0
    # pass 1: mutations inside the loop
    for n, parents in T.walk(b["tree"]):
        if n.get("k") != "mcall" or n["name"] not in MUT:
            continue
        lid = T.local_of(T.peel_ref(n["recv"]))
        if lid in range_vecs and id(n) in inside:
            filled_in_loop.add(lid)
    for n, parents in T.walk(b["tree"]):
        if n.get("k") == "mcall" and n["name"] in MUT:
            lid = T.local_of(T.peel_ref(n["recv"]))
            if lid not in range_vecs:
                # pushes into closure-local accumulators inside the loop are fine; others are not range vectors
                continue
            sites += 1
            if id(n) in inside:
                res.holds(rule, fn, "fill:" + T.render(n)[:80])
            else:
                res.add(Finding(rule, fn, "fill:" + T.render(n)[:80], "a range is added to `%s` outside the loop over removed positions: "
                                "whitespace tidying would run without any removal" % range_vecs[lid], loc=T.loc(n)))
        if n.get("k") == "call":
            c = T.callee(n)
            if c and c in P.bodies and id(n) not in inside:
                # helper calls that receive `&mut ranges`: their other arguments must be loop-filled vectors / the vector itself
                muts = [a for a in n["args"] if T.peel(a).get("k") == "addr_of" and T.peel(a).get("mut") and T.local_of(T.peel(a)["e"]) in range_vecs]
                if not muts:
                    continue
                sites += 1
                bad = []
                for a in n["args"]:
                    if a in muts:
                        continue
                    lid = T.local_of(T.peel_ref(a))
                    if lid is None or lid not in filled_in_loop:
                        bad.append(T.render(a))
                if bad:
                    res.add(Finding(rule, fn, "merge:" + T.render(n)[:80], "`%s` feeds %s into the range list outside the loop over removed "
                                    "positions" % (T.short_path(c), bad), loc=T.loc(n)))
                else:
                    res.holds(rule, fn, "merge:" + T.render(n)[:80], "only loop-filled vectors are merged")
    res.floor(rule, "range-vector fill / merge sites in format()", sites, 4)
    # the deletion fold consumes exactly a declared range vector
    folds = [n for n in T.nodes(b["tree"], "mcall") if n["name"] == "fold" and id(n) not in inside]
    # ... or, spelled as a statement loop, `for r in <vec>.. { s.replace_range(r, "") }`
    dfors = [n for n in T.nodes(b["tree"], "for") if id(n) not in inside and n is not loop
             and any(x["name"] == "replace_range" for x in T.nodes(n["body"], "mcall"))]
    if len(folds) == 1 and not dfors and _iter_root(folds[0]["recv"], b) in range_vecs:
        res.holds(rule, fn, "delete-loop-source", T.render(folds[0]["recv"]))
    elif not folds and len(dfors) == 1 and _iter_root(dfors[0]["iter"], b) in range_vecs:
        res.holds(rule, fn, "delete-loop-source", T.render(dfors[0]["iter"]))
    else:
        res.add(Finding(rule, fn, "delete-loop-source", "the deletion loop does not iterate one of the range vectors filled in the removed-position loop", loc=loc))
    # clean(): format(&removed, &get_removed_pos(&markers)) with markers returned by remover.remove
    c = P.fn("chiritori::clean")
    outs = A.Interp(P).explore(lambda J: J.call_fn_body(c, [A.Sym("content"), A.Sym("delimiters"), A.Sym("config")]))
    v = A.show(outs[0]["value"]) if len(outs) == 1 else "?"
    import re
    m = re.match(r"^format\((.+)\.0, get_removed_pos\((.+)\.1\), (.+), (.+)\)$", v)
    if m and m.group(1) == m.group(2) and ".remove(" in m.group(1):
        res.holds(rule, fshort(c), "clean-wiring", "format(remove(..).0, get_removed_pos(remove(..).1), ..)")
    else:
        res.add(Finding(rule, fshort(c), "clean-wiring", "clean does not format exactly the text and the markers returned by Remover::remove: %s" % v[:300], loc=T.loc(c["tree"])))


def _iter_root(n, body):
    """Local id at the root of an iterator expression (x.iter(), x.into_iter().rev(), a local bound to one)."""
    n = T.peel_ref(n)
    seen = 0
    while seen < 8:
        seen += 1
        if n.get("k") == "mcall" and n["name"] in ("iter", "into_iter", "rev", "iter_mut", "enumerate", "by_ref"):
            n = T.peel_ref(n["recv"])
            continue
        lid = T.local_of(n)
        if lid is not None:
            # a local bound to an iterator expression
            for s in T.nodes(body["tree"], "let"):
                if s["pat"]["p"] == "bind" and s["pat"]["id"] == lid and s.get("init") is not None and T.peel_ref(s["init"]).get("k") == "mcall":
                    n = T.peel_ref(s["init"])
                    break
            else:
                return lid
            continue
        return None
    return None
