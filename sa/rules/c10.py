"""C10 - only token linearity: every token / child list flows into the tree exactly once on every path."""
import re
from .. import absint as A
from .. import tree as T
from ..report import Finding
from . import fshort
from . import c06

LEVEL = "other"


def run(ctx, res):
    P = ctx.lib
    res.explanation = (
        "Only the structural half of the last sentence of the property is decided: (R1, linear must-flow) every path through "
        "one iteration of parser::tree's loop is enumerated by abstract interpretation; on each path the fetched token is "
        "placed exactly once (as a Text part, as Element.start_token, or handed back as the closer) and the child list filled "
        "by the recursive call is consumed exactly once (Element.children or spliced into the parts).  `Option::map_or(d, f)` "
        "is modelled as match for flow (the eagerly built default is discarded when the tag parses).  (R2) tag names are "
        "compared exactly (closing-prefix operations reviewed).  (R7) the token cursor moves by one, the recursion starts at the moved cursor and the "
        "cursor continues where it stopped; (R8) an element is built exactly when opener and returned closer agree in name, otherwise the closer is "
        "handed up; (R9 / R10) the opener is on the list of open elements - for a shared stack of names: push, recursive call, pop on every path.  "
        "Not decided: demotion of crossing tags beyond the placement of their tokens, document order of siblings.")
    res.trusted += ["driver fact extraction and the abstract interpreter", "Vec::extend appends all items in order"]
    b = P.fn("parser::tree")
    fn = fshort(b)
    loc = T.loc(b["tree"])
    loops = [n for n in T.nodes(b["tree"], "loop")]
    if len(loops) != 1:
        res.cannot("C10.R1", fn, "loop", "expected one token loop, found %d" % len(loops), loc)
        return
    loop = loops[0]
    helpers = [x["def_path"] for x in P.user_bodies() if x["kind"] == "Fn" and fshort(x).startswith("parser::") and x is not b and fshort(x) != "parser::parse"
               and not any((T.callee(c) or "") == x["def_path"] for c in T.nodes(x["tree"], "call"))]
    I = A.Interp(P, max_paths=4000, inline=helpers)
    I.lazy_locals = True

    def run_(J):
        env = {}
        for p in b["params"]:
            if p["pat"]["p"] == "bind":
                env[p["pat"]["id"]] = A.Sym(p["pat"]["name"], p["ty"])
        # `while let Some(t) = tokens.get(cursor) { .. }`: the condition (which fetches the token) belongs to the iteration
        if "while_cond" in loop and not J.cond(loop["while_cond"], env):
            raise A._Break(None)
        return J.ev(loop["body"], env)
    try:
        outs = I.explore(run_)
    except A.Cannot as e:
        res.cannot("C10.R1", fn, "loop-body", str(e), loc)
        return
    TOK = "tokens.get(cursor).some"
    outs = shared_name_stack(res, fn, loc, b, outs)
    outp = [p["pat"]["id"] for p in b["params"] if p["pat"]["p"] == "bind" and p["ty"].startswith("&mut std::vec::Vec<") and "ContentPart" in p["ty"]]
    if len(outp) != 1:
        res.cannot("C10.R1", fn, "out-param", "expected one `&mut Vec<ContentPart>` parameter", loc)
        return
    parts_id = outp[0]
    n_paths = 0
    kinds = {}
    r5_ok, r5_bad = set(), set()
    for o in outs:
        d = o["decisions"]
        if d.get("is_some(tokens.get(cursor))") is not True:
            # end of input: nothing fetched, must leave the loop
            if o["exit"] not in ("break", "return"):
                res.add(Finding("C10.R1", fn, "end-of-input", "the loop continues after the last token", loc=loc))
            continue
        n_paths += 1
        # where did the token go?
        placed = 0
        childs = 0
        child_syms = set()
        sinks = []
        for e in o["effects"]:
            if e[0] == "call" and e[1].endswith("tree"):
                # recursive call: `children` is now the symbol out(tree(..))
                pass
        # children symbol: any Sym starting with out(tree(
        def collect(v, acc):
            if isinstance(v, A.Sym) and v.term.startswith("out(tree("):
                acc.add(v.term)
            elif isinstance(v, A.Variant):
                for a in v.args:
                    collect(a, acc)
            elif isinstance(v, A.Tuple):
                for a in v.items:
                    collect(a, acc)
            elif isinstance(v, A.Struct):
                for a in v.fields.values():
                    collect(a, acc)
            elif isinstance(v, A.VecV):
                for a in v.items:
                    collect(a, acc)
        recursed = any(e[0] == "call" and e[1].split("::")[-1] == "tree" for e in o["effects"])
        flows = []
        for e in o["effects"]:
            # only the *parameter* that receives the parts (an inner local may shadow its name)
            if e[0] in ("extend", "push") and T.local_of(T.peel_ref(e[3]["recv"])) == parts_id:
                flows.append(e[2])
        if o["exit"] in ("break", "return") and o["value"] is not None:
            flows.append(o["value"])
        for v in flows:
            placed += A.contains_sym(v, TOK)
            collect(v, child_syms)
        for v in flows:
            for cs in child_syms:
                childs += A.contains_sym(v, cs)
        # path label: independent of line numbers
        label = ",".join("%s=%s" % (_short(k), v) for k, v in d.items() if k != "is_some(tokens.get(cursor))")
        site = "path:" + (label or "text-token")
        if placed != 1:
            res.add(Finding("C10.R1", fn, site + ":token", "on this path the fetched token is placed %d times in the tree / result (must be exactly once)" % placed,
                            loc=loc, detail={"decisions": {k: str(v) for k, v in d.items()}, "flows": [A.show(v)[:300] for v in flows]}))
        else:
            res.holds("C10.R1", fn, site + ":token")
        if recursed:
            if childs != 1:
                res.add(Finding("C10.R1", fn, site + ":children", "on this path the child list filled by the recursive call is consumed %d times "
                                "(must be exactly once): children would be %s" % (childs, "dropped" if childs == 0 else "duplicated"),
                                loc=loc, detail={"decisions": {k: str(v) for k, v in d.items()}, "flows": [A.show(v)[:300] for v in flows]}))
            else:
                res.holds("C10.R1", fn, site + ":children")
        kinds[site] = (placed, childs if recursed else None)
        # R3: an opening tag is always descended into (otherwise it can never pair with its closing tag)
        parsed_key = [k for k in d if k.startswith("is_some(parse(") or k.startswith("is_some(element_parser::parse(")]
        is_elem = any(d[k] is True for k in parsed_key)
        returned_as_closer = o["exit"] in ("break", "return") and isinstance(o["value"], A.Tuple) and len(o["value"].items) == 2 and isinstance(o["value"].items[1], A.Variant) and o["value"].items[1].name == "Some"
        if is_elem and not returned_as_closer:
            if recursed:
                res.holds("C10.R3", fn, site + ":descent")
            else:
                res.add(Finding("C10.R3", fn, site + ":descent", "on this path a parsed tag is neither returned as the closer of an ancestor nor descended into: an opening tag that is "
                                "not descended can never pair with its closing tag (well-formed elements stop being recognised)", loc=loc,
                                detail={"decisions": {k: str(v) for k, v in d.items()}}))
        # R5: whether an Element token is treated as a tag is decided by element_parser::parse alone - the decision that
        # follows `the token is an Element` must be the parse result (a further condition in between makes well-formed tags text)
        keys = list(d.keys())
        vk = [i for i, k in enumerate(keys) if k.startswith("variant(") and "kind)" in k and str(d[k]).endswith("Element")]
        if vk:
            nxt = keys[vk[0] + 1] if vk[0] + 1 < len(keys) else None
            if nxt is not None and (nxt.startswith("is_some(parse(") or nxt.startswith("is_some(element_parser::parse(")):
                r5_ok.add(site)
            else:
                r5_bad.add(_short(nxt or "<none>"))
        if len(res.samples) < 8:
            res.samples.append({"path": label or "text-token", "token_placed": placed, "children_consumed": childs if recursed else None, "exit": o["exit"]})
    progress_and_pairing(res, fn, loc, outs, parts_id)
    # R6: a closing tag is normalised in the same way where it is *recognised* as the closer of an open element (ancestor
    # test) and where it is *paired* with its opener: otherwise `<//a>` is recognised as closing `a` by one and rejected by
    # the other, every level unwinds and the rest of the document is lost.  Decided on the slash-count abstraction of the
    # closer's name (k leading slashes, k = 1, 2, 3) from the terms of the two comparisons.
    anc, pair = set(), set()
    for o in outs:
        for k in o["decisions"]:
            m1 = re.search(r"parse\(.+?\)\.some\.name((?:\.[a-z_]+\([^()]*\)|\.some)*)\)?\}\)$", k) if k.startswith("any(") else None
            if m1 and "$e.name" in k:
                anc.add(m1.group(1))
            if k.startswith("eq(") and "tree(" in k and ".name" in k and re.search(r"parse\(.+?\)\.some\.name", k):
                m2 = re.search(r"tree\([^\n]*?\)\.1\.some(?:\.1)?\.name((?:\.[a-z_]+\([^()]*\)|\.some)*)", k)
                if m2:
                    pair.add(m2.group(1))

    def slashes(chain, k):
        opt = False
        for op, arg in re.findall(r"\.([a-z_]+)(?:\(([^()]*)\))?", chain):
            if op == "trim_start_matches" and arg == "'/'":
                k = 0
            elif op == "strip_prefix" and arg == "'/'":
                if k == 0:
                    return None
                k -= 1
                opt = True
            elif op == "some":
                opt = False
            else:
                raise ValueError(op)
        return k
    def site_norm(forms, k):
        """Slashes left on a closer's name with k >= 1 leading slashes at a comparison site.  `strip_prefix('/').unwrap_or(name)`
        shows up as two forms: the stripped one, and the plain name on the path where nothing could be stripped (k = 0 only)."""
        strip = [f for f in forms if "strip_prefix('/')" in f or "trim_start_matches('/')" in f]
        plain = [f for f in forms if f not in strip]
        if len(strip) != 1 or any(x != "" for x in plain):
            raise ValueError("forms %s" % sorted(forms))
        return slashes(strip[0], k)
    if anc and pair and len(anc) <= 2 and len(pair) <= 2:
        a_, p_ = sorted(anc)[-1], sorted(pair)[-1]
        try:
            diff = [k for k in (1, 2, 3) if site_norm(anc, k) != site_norm(pair, k)]
            many = [k for k in (1, 2, 3) if site_norm(anc, k) != k - 1 or site_norm(pair, k) != k - 1]
        except ValueError as e:
            diff = many = None
            res.cannot("C10.R6", fn, "closer-normalisation", "name operation `%s` is not modelled" % e, loc)
        if diff == [] and many == []:
            res.holds("C10.R6", fn, "closer-normalisation", "ancestor test `name%s` and pairing `name%s` both drop exactly one leading slash" % (a_, p_))
        elif diff:
            res.add(Finding("C10.R6", fn, "closer-normalisation", "a closing tag with %d leading slashes is normalised as `name%s` where it is recognised as the closer of an open "
                            "element but as `name%s` where it is paired with its opener: the two disagree, every level unwinds and the rest of the document is dropped" % (diff[0], a_, p_), loc=loc))
        elif many:
            res.add(Finding("C10.R6", fn, "closer-normalisation", "a closing tag is `/` + name: with %d leading slashes the closer's name is reduced to `name%s` (all of them are dropped): "
                            "`<//name>` closes the open element `name` instead of being a stray tag" % (many[0], a_), loc=loc))
    else:
        res.cannot("C10.R6", fn, "closer-normalisation", "ancestor test / pairing comparison not identified (%d / %d forms)" % (len(anc), len(pair)), loc)
    for cond in sorted(r5_bad):
        res.add(Finding("C10.R5", fn, "tag-iff-parsed:" + cond, "an Element token is subject to the condition `%s` before (or instead of) element_parser::parse: "
                        "a well-formed tag can be kept as text" % cond, loc=loc))
    if r5_ok and not r5_bad:
        res.holds("C10.R5", fn, "tag-iff-parsed", "%d paths: the decision after `token is an Element` is the result of element_parser::parse" % len(r5_ok))
    res.extra["paths"] = n_paths
    res.floor("C10.R1", "loop-body paths with a fetched token", n_paths, 6)
    res.floor("C10.R1", "paths through the recursive branch", sum(1 for v in kinds.values() if v[1] is not None), 3)
    # parse() seeds the recursion with all tokens from index 0 and returns the filled list
    pb = P.fn("parser::parse")
    outs2 = A.Interp(P).explore(lambda J: J.call_fn_body(pb, [A.Sym("tokens")]))
    calls = [e for o in outs2 for e in o["effects"] if e[0] == "call" and e[1].split("::")[-1] == "tree"]
    ok = len(outs2) == 1 and len(calls) == 1 and A.show(calls[0][2][0]) == "tokens" and A.show(calls[0][2][1]) == "0" and A.show(outs2[0]["value"]).startswith("out(tree(")
    if ok:
        res.holds("C10.R1", fshort(pb), "seed", "tree(tokens, 0, &mut parts, []) and parts returned")
    else:
        res.add(Finding("C10.R1", fshort(pb), "seed", "parse() does not start the traversal at token 0 / does not return the filled list", loc=T.loc(pb["tree"])))
    # R4: ancestors are matched by their full name against the closer's name without its prefix
    want = "any(parent_elements.iter(), {eq($e.name, parse(tokens.get(cursor).some).some.name.strip_prefix('/').some)})"
    # the lookup on the path where nothing could be stripped although the name starts with '/' does not exist
    preds = {k for o in outs for k in o["decisions"] if k.startswith("any(parent_elements.iter()")
             and not any(re.match(r"^is_some\((.+)\.strip_prefix\('/'\)\)$", k2) and v2 is False
                         and o["decisions"].get(re.match(r"^is_some\((.+)\.strip_prefix\('/'\)\)$", k2).group(1) + ".starts_with('/')") is True
                         for k2, v2 in o["decisions"].items())}
    def _canon_lookup(k):
        # any alternative spelling that removes exactly one leading slash of the closer's name is the same lookup
        m_ = re.match(r"^(any\(parent_elements\.iter\(\), \{eq\(\$e\.name, parse\(.+?\)\.some\.name)((?:\.[a-z_]+\([^()]*\)|\.some)*)(\)\}\))$", k)
        if not m_:
            return k
        try:
            if all(slashes(m_.group(2), kk) == kk - 1 for kk in (1, 2, 3)):
                return m_.group(1) + ".strip_prefix('/').some" + m_.group(3)
        except ValueError:
            pass
        return k
    def _drop_infeasible_disjunct(k):
        # `strip_prefix('/').unwrap_or(name)` written inside the predicate: two guarded disjuncts; the one for "nothing to
        # strip" cannot be taken under the enclosing `name.starts_with('/')` test
        m_ = re.match(r"^any\(parent_elements\.iter\(\), \{(.+)\}\)$", k)
        if not m_ or " | " not in m_.group(1):
            return k
        keep = []
        for d_ in m_.group(1).split(" | "):
            g = re.match(r"^(!?)is_some\((.+)\.strip_prefix\('/'\)\) & (.+)$", d_)
            if not g:
                return k
            starts = g.group(2) + ".starts_with('/')"
            if not all(o["decisions"].get(starts) is True for o in outs if k in o["decisions"]):
                return k
            if g.group(1) == "!":
                continue
            keep.append(g.group(3))
        return "any(parent_elements.iter(), {%s})" % " | ".join(keep) if keep else k
    preds = {_canon_lookup(_drop_infeasible_disjunct(k)) for k in preds}
    if preds == {want}:
        res.holds("C10.R4", fn, "ancestor-lookup", "any(|p| p.name == closer.name without its '/')")
    else:
        res.add(Finding("C10.R4", fn, "ancestor-lookup", "the ancestor lookup is %s; a closing tag must be matched against the *full* names of the open ancestors (a stray closing tag "
                        "kept on the stack must not be closable by another stray closing tag)" % sorted(preds), loc=loc))
    # R2 name discipline inside the parser
    cnt = 0
    for (b_, n, cls, detail, origin) in c06.name_uses(P):
        if not fshort(b_).startswith("parser::"):
            continue
        cnt += 1
        site = "%s:%s" % (n.get("name") or n["res"]["name"], detail)
        if cls == "banned":
            m = re.search(r"\.(\w+)\((.*)\)$", detail)
            if m and m.group(1) in ("starts_with", "trim_start_matches", "strip_prefix") and m.group(2) == repr("/"):
                res.holds("C10.R2", fshort(b_), site, "reviewed closing-prefix operation")
            else:
                res.add(Finding("C10.R2", fshort(b_), site, "tag name used through `%s` (not an exact comparison)" % detail, loc=T.loc(n)))
        else:
            res.holds("C10.R2", fshort(b_), site)
    res.floor("C10.R2", "tag-name uses in the parser module", cnt, 3)


def shared_name_stack(res, fn, loc, b, outs):
    """The open ancestors kept as one shared `&mut Vec<&str>` of names (pushed before the recursive call, popped after it)
    instead of a list of elements cloned per level: the ancestor test `names.iter().any(|n| *n == x)` is read as the test on
    the per-level list, *provided* the stack is restored on every path (R10): what touches it on a path is exactly
    push(opener's name), the recursive call, pop - in that order - or nothing at all."""
    names = [p_["pat"] for p_ in b["params"] if p_["pat"].get("p") == "bind" and re.match(r"^&mut std::vec::Vec<&(?:'\w+ )?str>$", p_.get("ty") or "")]
    if len(names) != 1 or any(p_["pat"].get("name") == "parent_elements" for p_ in b["params"]):
        return outs
    nid, nname = names[0]["id"], names[0]["name"]
    n_ok = 0
    for o in outs:
        seq = []
        for e in o["effects"]:
            node = e[3] if len(e) > 3 and isinstance(e[3], dict) else {}
            on_stack = node.get("k") == "mcall" and T.local_of(T.peel_ref(node["recv"])) == nid
            if e[0] == "push" and on_stack:
                seq.append("push:" + A.show(e[2]))
            elif e[0] == "call" and str(e[1]).split("::")[-1] == "tree":
                seq.append("call")
            elif e[0] == "call" and on_stack and str(e[1]).split("::")[-1] in ("iter", "len", "is_empty", "last", "contains", "as_slice"):
                continue
            elif on_stack:
                seq.append("%s" % str(e[1]).split("::")[-1])
        label = ",".join("%s=%s" % (_short(k), v) for k, v in o["decisions"].items() if k != "is_some(tokens.get(cursor))") or "text-token"
        if seq == [] or (len(seq) == 3 and seq[0] == "push:parse(tokens.get(cursor).some).some.name" and seq[1:] == ["call", "pop"]):
            n_ok += 1
            res.holds("C10.R10", fn, "stack-restored:" + label)
        else:
            res.add(Finding("C10.R10", fn, "stack-restored:" + label, "the shared stack of open names is touched by %s on this path; it must be push(opener's name), the recursive call, pop - or "
                            "nothing: otherwise an ancestor is lost or a closed element stays open for the rest of the document" % seq, loc=loc))
    # the test on the shared stack, read as the test on the per-level list
    for o in outs:
        d2 = type(o["decisions"])()
        for k, v in o["decisions"].items():
            k2 = k.replace("any(%s.iter(), {eq($e, " % nname, "any(parent_elements.iter(), {eq($e.name, ").replace("any(%s.iter(), {eq(*$e, " % nname, "any(parent_elements.iter(), {eq($e.name, ")
            k2 = re.sub(r"any\(%s\.iter\(\), \{eq\((parse\(.*), \$e\)\}\)$" % re.escape(nname), r"any(parent_elements.iter(), {eq($e.name, \1)})", k2)
            d2[k2] = v
        o["decisions"] = d2
    return outs


def progress_and_pairing(res, fn, loc, outs, parts_id):
    """R7 (progress): on every path the cursor moves by exactly one token before anything else, the recursive call starts at
    the moved cursor, the cursor then continues where the recursion stopped, and what is handed back to the caller is the
    current cursor.  R8 (pairing): when the recursion comes back with a closing tag, an element is built exactly on the paths
    where the opener's name equals the closer's name without its slash; otherwise the closer is handed further up and no
    element is built.  R9 (ancestors): the opener is on the list of open elements that the recursive call is given."""
    n7 = n8 = n9 = 0
    for o in outs:
        d = o["decisions"]
        if d.get("is_some(tokens.get(cursor))") is not True and "is_some(tokens.get(cursor))" in d and o["exit"] == "fall":
            continue
        label = ",".join("%s=%s" % (_short(k), v) for k, v in d.items() if k != "is_some(tokens.get(cursor))") or "text-token"
        assigns = [A.show(e[2]) for e in o["effects"] if e[0] == "assign" and str(e[1]) == "cursor"]
        calls = [e for e in o["effects"] if e[0] == "call" and str(e[1]).split("::")[-1] == "tree"]
        bad = None
        fetched = d.get("is_some(tokens.get(cursor))") is True
        cur = "cursor"
        if fetched or assigns:
            if not assigns or assigns[0] != "(cursor + 1)":
                bad = "the cursor is not moved by exactly one token first (assignments: %s)" % (assigns or "none")
            else:
                cur = assigns[0]
                rest = assigns[1:]
                if calls:
                    if len(rest) != 1 or not re.match(r"^tree\(tokens, \(cursor \+ 1\), .*\)\.0$", rest[0]):
                        bad = "after the recursive call the cursor does not continue where the recursion stopped (assignments: %s)" % assigns
                    else:
                        cur = rest[0]
                elif rest:
                    bad = "the cursor is assigned again without a recursive call (assignments: %s)" % assigns
        if bad is None and o["exit"] in ("break", "return") and isinstance(o["value"], A.Tuple) and len(o["value"].items) == 2:
            back = A.show(o["value"].items[0])
            # (at the end of the input any position at or behind the end says the same thing to the caller)
            if back != cur and not (not fetched and back in ("cursor", "(cursor + 1)")):
                bad = "hands `%s` back to the caller as the position to continue at; the cursor stands at `%s`" % (back, cur)
        if bad:
            res.add(Finding("C10.R7", fn, "progress:" + label, "token cursor: " + bad, loc=loc))
        else:
            n7 += 1
            res.holds("C10.R7", fn, "progress:" + label)
        if not calls:
            continue
        # R9
        pushed = [A.show(e[2]) for e in o["effects"] if e[0] == "push" and T.local_of(T.peel_ref(e[3]["recv"])) != parts_id]
        if any("parse(tokens.get(cursor).some).some" in v for v in pushed):
            n9 += 1
            res.holds("C10.R9", fn, "opener-on-stack:" + label)
        else:
            res.add(Finding("C10.R9", fn, "opener-on-stack:" + label, "the opening tag is not added to the list of open elements before its children are parsed: its own closing tag "
                            "inside a nested element is no longer recognised as an ancestor's closer", loc=loc))
        # R8
        closer = [k for k in d if re.match(r"^is_some\(tree\(.*\)\.1\)$", k)]
        if not closer or d[closer[0]] is not True:
            continue
        eqs = [k for k in d if k.startswith("eq(") and "tree(" in k and ".name" in k]
        built = any(e[0] in ("extend", "push") and T.local_of(T.peel_ref(e[3]["recv"])) == parts_id and "ContentPart::Element(" in A.show(e[2]) for e in o["effects"])
        handed_up = o["exit"] in ("break", "return") and isinstance(o["value"], A.Tuple) and len(o["value"].items) == 2 and isinstance(o["value"].items[1], A.Variant) \
            and o["value"].items[1].name == "Some"
        if len(eqs) != 1:
            res.cannot("C10.R8", fn, "pairing:" + label, "the comparison of the opener's name with the returned closer's name was not found on this path (%d candidates)" % len(eqs), loc)
            continue
        same = d[eqs[0]] is True
        if same and built and not handed_up:
            n8 += 1
            res.holds("C10.R8", fn, "pairing:" + label)
        elif (not same) and handed_up and not built:
            n8 += 1
            res.holds("C10.R8", fn, "pairing:" + label)
        else:
            res.add(Finding("C10.R8", fn, "pairing:" + label, "opener and returned closer have %s names, yet %s" % (
                "equal" if same else "different", "an element is built" if built else "no element is built" + (" and the closer is handed up" if handed_up else " and the closer is dropped")), loc=loc))
    res.floor("C10.R7", "paths with a checked cursor", n7, 6)
    res.floor("C10.R8", "paths that decide the pairing", n8, 4)
    res.floor("C10.R9", "recursive descents with the opener on the stack", n9, 3)


def _short(k):
    k = k.replace("element_parser::parse(tokens.get(cursor).some)", "PARSED").replace("tokens.get(cursor).some", "T")
    if len(k) > 70:
        k = k[:34] + "…" + k[-34:]
    return k
