"""Interval rules by ordering enumeration (C02 / C03).

merge_child_markers and merge_overlapped_ranges touch range endpoints only through comparisons, min, max and
Range::contains, so their behaviour depends on the endpoints only through their relative order.  The rules below
enumerate every weak ordering of the four endpoints (representative integers 0..4) and evaluate the loop body with
the abstract interpreter - a complete decision table over the finite ordering domain, not a sample of inputs."""
import itertools
import re

from .. import absint as A
from .. import tree as T
from ..report import Finding
from . import fshort

K = 5   # representative values 0..K-1 realise every weak ordering of four endpoints


def _rng(a, b):
    return A.Struct("Range", [("start", A.Lit(a)), ("end", A.Lit(b))])


def absorb_rule(ctx, res, rule):
    """merge_child_markers: an absorbed child is covered entirely by the widened marker (no ready text survives, C03),
    and a child that is not absorbed does not overlap the marker (no byte is deleted twice, C02) - for children that
    lie behind the head's first byte (forward pass) / before the tail's last byte (reverse pass)."""
    P = ctx.lib
    b = P.fn("Remover::merge_child_markers")
    fn = fshort(b)
    loc = T.loc(b["tree"])
    fors = list(T.nodes(b["tree"], "for"))
    if len(fors) != 1:
        res.cannot(rule, fn, "loop", "expected one loop over the child markers", loc)
        return
    loop = fors[0]
    mparam = [p for p in b["params"] if p["pat"]["p"] == "bind" and "Range<usize>" in p["ty"]]
    if len(mparam) != 1:
        res.cannot(rule, fn, "marker-param", "marker parameter not found", loc)
        return
    mid = mparam[0]["pat"]["id"]
    rows = 0
    bad_cover, bad_overlap = [], []
    for ms, me, cs, ce in itertools.product(range(K), repeat=4):
        if not (ms < me and cs <= ce):
            continue
        rows += 1
        marker = _rng(ms, me)
        I = A.Interp(P)
        I.lazy_locals = True

        def run(J):
            env = {mid: marker}
            if not J.match_pat(loop["pat"], A.Tuple([_rng(cs, ce), A.Sym("pair")]), env):
                raise A.Cannot("loop pattern")
            return J.ev(loop["body"], env)
        try:
            outs = I.explore(run)
        except A.Cannot as e:
            res.cannot(rule, fn, "loop-body", str(e), loc)
            return
        if len(outs) != 1:
            res.cannot(rule, fn, "loop-body", "the loop body is not a function of the endpoint ordering (%d paths)" % len(outs), loc)
            return
        o = outs[0]
        absorbed = o["exit"] in ("fall", "continue")
        ns, ne = marker.fields["start"], marker.fields["end"]
        if not (isinstance(ns, A.Lit) and isinstance(ne, A.Lit)):
            res.cannot(rule, fn, "loop-body", "marker endpoints became symbolic", loc)
            return
        if absorbed:
            if not (ns.v == min(ms, cs) and ne.v == max(me, ce)):
                bad_cover.append(((ms, me), (cs, ce), (ns.v, ne.v)))
        else:
            if (ns.v, ne.v) != (ms, me):
                bad_cover.append(((ms, me), (cs, ce), (ns.v, ne.v)))
            overlap = cs < me and ce > ms and cs < ce
            fwd_ctx = cs > ms          # a child starts behind the first byte of the parent's opening tag
            rev_ctx = ce < me          # a child ends before the last byte of the parent's closing tag
            # the helper serves both passes: the head only ever sees children with cs > ms, the tail only children with ce < me
            if overlap and (fwd_ctx or rev_ctx):
                bad_overlap.append(((ms, me), (cs, ce)))
    res.extra.setdefault("ordering_rows", {})[fn] = rows
    if bad_cover:
        m, c, n = bad_cover[0]
        res.add(Finding(rule, fn, "absorbed-child-covered", "for marker %s and child %s (endpoint ordering) the merged marker is %s: an absorbed child must be covered entirely "
                        "(otherwise part of a ready element survives / the marker stops being head.start..max end); %d of %d orderings" % (m, c, n, len(bad_cover), rows), loc=loc))
    else:
        res.holds(rule, fn, "absorbed-child-covered", "%d endpoint orderings" % rows)
    if bad_overlap:
        m, c = bad_overlap[0]
        res.add(Finding(rule, fn, "unabsorbed-child-disjoint", "for marker %s and child %s (endpoint ordering) the child overlaps the marker but is not merged into it: the two "
                        "markers overlap and the reverse deletion removes bytes twice (text behind the element disappears); %d of %d orderings" % (m, c, len(bad_overlap), rows), loc=loc))
    else:
        res.holds(rule, fn, "unabsorbed-child-disjoint", "%d endpoint orderings" % rows)
    # both passes use this helper: forward over the children for the head, reversed for the tail
    mm = P.fn("Remover::merge_markers")
    calls = [T.render(n["args"][0]) for n in T.nodes(mm["tree"], "call") if (T.callee(n) or "").endswith("merge_child_markers")]
    if sorted(calls) == sorted(["child_markers.iter()", "child_markers.iter().rev()"]):
        res.holds(rule, fshort(mm), "both-passes", "head: children front to back; tail: children back to front")
    else:
        res.add(Finding(rule, fshort(mm), "both-passes", "the head must absorb children front to back and the tail back to front; found %s" % calls, loc=T.loc(mm["tree"])))


def _union_rule_accumulator(ctx, res, rule, b, loop, rid, acc):
    """The same merge written with an output list: `for r in ranges.drain(..) { match out.last_mut() { Some(last) if
    last.end >= r.start => last.end = max(..), _ => out.push(r) } }; *ranges = out`."""
    P = ctx.lib
    fn = fshort(b)
    loc = T.loc(b["tree"])
    aid = acc["pat"]["id"]
    it = T.peel(loop["iter"])
    root = it
    while root.get("k") == "mcall":
        if root["name"] not in ("drain", "iter", "into_iter", "cloned", "iter_mut"):
            res.cannot(rule, fn, "loop", "the merge iterates `%s`, not every range once" % T.render(it)[:60], loc)
            return
        root = T.peel_ref(root["recv"])
    if T.local_of(root) != rid or T.render(acc["init"]) not in ("std::vec::Vec::new()", "std::vec::Vec::with_capacity(ranges.len())") and not T.render(acc["init"]).startswith("std::vec::Vec::with_capacity("):
        res.cannot(rule, fn, "loop", "expected a loop over all ranges filling an initially empty list", loc)
        return
    # the list that was filled replaces the input (or is returned)
    handed = any(n.get("k") == "assign" and T.local_of(T.peel_ref(n["l"])) == rid and T.local_of(T.peel(n["r"])) == aid for n in T.nodes(b["tree"]))
    if not handed:
        res.add(Finding(rule, fn, "merged-handed-back", "the merged list is not assigned back to the input list", loc=loc))
        return

    def last_model(I_, a, n, env):
        v = a[0]
        if isinstance(v, A.VecV) and v.base is None:
            return A.Variant("Some", [v.items[-1]]) if v.items else A.Variant("None")
        raise A.Cannot("last() of an unknown list")
    models = {"core::slice::last_mut": last_model, "core::slice::last": last_model}
    rows = 0
    bad = []
    for a0, b0, a1, b1 in itertools.product(range(K), repeat=4):
        if not (a0 <= b0 and a1 <= b1):
            continue
        rows += 1
        out = A.VecV([_rng(a0, b0)])
        I = A.Interp(P, models=models)
        I.lazy_locals = True
        try:
            outs = I.explore(lambda J: J.ev(loop["body"], {aid: out, loop["pat"]["id"]: _rng(a1, b1)}))
        except A.Cannot as e:
            res.cannot(rule, fn, "loop-body", str(e), loc)
            return
        if len(outs) != 1 or outs[0]["exit"] not in ("fall", "continue"):
            res.cannot(rule, fn, "loop-body", "the merge step is not a function of the endpoint ordering", loc)
            return
        pts0 = set(range(a0, b0)) | set(range(a1, b1))
        out_pts = set()
        for r in out.items:
            s_, e_ = r.fields["start"], r.fields["end"]
            if not (isinstance(s_, A.Lit) and isinstance(e_, A.Lit)):
                res.cannot(rule, fn, "loop-body", "range endpoints became symbolic", loc)
                return
            out_pts |= set(range(s_.v, e_.v))
        if not out_pts <= pts0:
            bad.append(((a0, b0), (a1, b1), [(r.fields["start"].v, r.fields["end"].v) for r in out.items]))
    # the first range starts the list unchanged
    first = A.VecV([])
    I = A.Interp(P, models=models)
    I.lazy_locals = True
    try:
        I.explore(lambda J: J.ev(loop["body"], {aid: first, loop["pat"]["id"]: _rng(1, 3)}))
    except A.Cannot as e:
        res.cannot(rule, fn, "loop-body", str(e), loc)
        return
    if [(r.fields["start"].v, r.fields["end"].v) for r in first.items if isinstance(r, A.Struct)] != [(1, 3)]:
        res.add(Finding(rule, fn, "first-range-kept", "the first range does not start the merged list unchanged", loc=loc))
    res.extra.setdefault("ordering_rows", {})[fn] = rows
    if bad:
        x, y, z = bad[0]
        res.add(Finding(rule, fn, "merged-within-union", "merging %s with %s (endpoint ordering) yields %s, which covers positions in neither range: text between two formatter "
                        "ranges would be deleted; %d of %d orderings" % (x, y, z, len(bad), rows), loc=loc))
    else:
        res.holds(rule, fn, "merged-within-union", "%d endpoint orderings, sorted or not (accumulator form)" % rows)


def union_rule(ctx, res, rule):
    """merge_overlapped_ranges: one step of the merge never produces a range that covers a point outside the two
    ranges it combined - whatever their order (the list is not always sorted: nested block ranges arrive out of order)."""
    P = ctx.lib
    b = P.fn("formatter::merge_overlapped_ranges")
    fn = fshort(b)
    loc = T.loc(b["tree"])
    fors = list(T.nodes(b["tree"], "for"))
    if len(fors) != 1 or fors[0]["pat"]["p"] != "bind":
        res.cannot(rule, fn, "loop", "expected `for read_cursor in 1..ranges.len()`", loc)
        return
    loop = fors[0]
    rid = b["params"][0]["pat"]["id"]
    wlets = [s for s in T.nodes(b["tree"], "let") if s["pat"]["p"] == "bind" and "Mut" in s["pat"].get("mode", "") and s.get("init") is not None and T.lit_value(s["init"]) == 0]
    if len(wlets) != 1:
        accs = [s for s in T.nodes(b["tree"], "let") if s["pat"]["p"] == "bind" and "Mut" in s["pat"].get("mode", "") and s.get("init") is not None
                and "Vec<std::ops::Range<usize>>" in (s.get("pty") or "")]
        if len(accs) == 1 and not wlets:
            _union_rule_accumulator(ctx, res, rule, b, loop, rid, accs[0])
            return
        res.cannot(rule, fn, "write-cursor", "write cursor (`let mut w = 0`) not found", loc)
        return
    wid = wlets[0]["pat"]["id"]
    rows = 0
    bad = []
    for a0, b0, a1, b1 in itertools.product(range(K), repeat=4):
        if not (a0 <= b0 and a1 <= b1):
            continue
        rows += 1
        vec = A.VecV([_rng(a0, b0), _rng(a1, b1)])
        I = A.Interp(P)
        I.lazy_locals = True
        holder = {}

        def run(J):
            env = {rid: vec, wid: A.Lit(0), loop["pat"]["id"]: A.Lit(1)}
            holder["env"] = env
            return J.ev(loop["body"], env)
        try:
            outs = I.explore(run)
        except A.Cannot as e:
            res.cannot(rule, fn, "loop-body", str(e), loc)
            return
        if len(outs) != 1 or outs[0]["exit"] not in ("fall", "continue"):
            res.cannot(rule, fn, "loop-body", "the merge step is not a function of the endpoint ordering", loc)
            return
        w = holder["env"][wid]
        if not isinstance(w, A.Lit):
            res.cannot(rule, fn, "loop-body", "write cursor became symbolic", loc)
            return
        pts0 = set(range(a0, b0)) | set(range(a1, b1))
        out_pts = set()
        for r in vec.items[: w.v + 1]:
            s_, e_ = r.fields["start"], r.fields["end"]
            if not (isinstance(s_, A.Lit) and isinstance(e_, A.Lit)):
                res.cannot(rule, fn, "loop-body", "range endpoints became symbolic", loc)
                return
            out_pts |= set(range(s_.v, e_.v))
        if not out_pts <= pts0:
            bad.append(((a0, b0), (a1, b1), [(r.fields["start"].v, r.fields["end"].v) for r in vec.items[: w.v + 1]]))
    res.extra.setdefault("ordering_rows", {})[fn] = rows
    if bad:
        x, y, z = bad[0]
        res.add(Finding(rule, fn, "merged-within-union", "merging %s with %s (endpoint ordering) yields %s, which covers positions in neither range: text between two formatter "
                        "ranges would be deleted; %d of %d orderings" % (x, y, z, len(bad), rows), loc=loc))
    else:
        res.holds(rule, fn, "merged-within-union", "%d endpoint orderings, sorted or not" % rows)
    # three ranges sorted by start, two steps of the loop: what is left covers exactly the union and no two ranges of the
    # result overlap (overlapping ranges would be deleted twice over the overlap, back to front: the first deletion shifts the
    # text the second one is applied to)
    rows3 = 0
    bad3 = None
    rngs = [(a, b_) for a in range(4) for b_ in range(a, 4)]
    for r0 in rngs:
        for r1 in rngs:
            for r2 in rngs:
                if not (r0[0] <= r1[0] <= r2[0]):
                    continue
                rows3 += 1
                vec = A.VecV([_rng(*r0), _rng(*r1), _rng(*r2)])
                w = 0
                okrun = True
                for rd in (1, 2):
                    I = A.Interp(P)
                    I.lazy_locals = True
                    holder = {}

                    def run3(J, w=w, rd=rd):
                        env = {rid: vec, wid: A.Lit(w), loop["pat"]["id"]: A.Lit(rd)}
                        holder["env"] = env
                        return J.ev(loop["body"], env)
                    try:
                        outs = I.explore(run3)
                    except A.Cannot as e:
                        res.cannot(rule, fn, "three-ranges", str(e), loc)
                        return
                    wv = holder["env"][wid]
                    if len(outs) != 1 or not isinstance(wv, A.Lit):
                        okrun = False
                        break
                    w = wv.v
                if not okrun:
                    res.cannot(rule, fn, "three-ranges", "the merge step is not a function of the endpoint ordering", loc)
                    return
                got = []
                for r in vec.items[: w + 1]:
                    s_, e_ = r.fields["start"], r.fields["end"]
                    if not (isinstance(s_, A.Lit) and isinstance(e_, A.Lit)):
                        res.cannot(rule, fn, "three-ranges", "range endpoints became symbolic", loc)
                        return
                    got.append((s_.v, e_.v))
                pts = set()
                overlap = False
                for (s_, e_) in got:
                    cur = set(range(s_, e_))
                    if cur & pts:
                        overlap = True
                    pts |= cur
                want = set(range(*r0)) | set(range(*r1)) | set(range(*r2))
                # touching but not overlapping neighbours may stay separate; overlapping ones may not
                strictly = any(a_[1] > b2[0] and b2[1] > a_[0] and a_ != b2 and a_[1] > a_[0] and b2[1] > b2[0] for i_, a_ in enumerate(got) for b2 in got[i_ + 1:])
                if (pts != want or strictly) and bad3 is None:
                    bad3 = ((r0, r1, r2), got)
    res.extra.setdefault("ordering_rows", {})[fn + " (3 ranges)"] = rows3
    if bad3:
        res.add(Finding(rule, fn, "three-ranges", "merging the sorted ranges %s leaves %s: the result does not cover exactly their union with non-overlapping ranges "
                        "(overlapping ranges are then deleted twice over the overlap)" % bad3, loc=loc))
    else:
        res.holds(rule, fn, "three-ranges", "%d sorted triples: result = union, no two ranges overlap" % rows3)
    # the frame the two enumerations assume: every index from 1 is read, and exactly the first write_cursor + 1 entries are kept
    pname, wname = b["params"][0]["pat"]["name"], wlets[0]["pat"]["name"]
    it = T.render(loop["iter"])
    lens = {s_["pat"]["name"] for s_ in T.nodes(b["tree"], "let") if s_["pat"]["p"] == "bind" and s_.get("init") is not None and T.render(s_["init"]) == "%s.len()" % pname
            and "Mut" not in s_["pat"].get("mode", "")}
    if it in {"1..%s.len()" % pname} | {"1..%s" % l_ for l_ in lens}:
        res.holds(rule, fn, "frame:loop", it)
    else:
        res.add(Finding(rule, fn, "frame:loop", "the merge loop runs over `%s`, not over every index from 1 (1..%s.len()): a range that is never read is neither merged nor kept" % (it, pname), loc=T.loc(loop)))
    blk = T.peel(b["tree"])
    while blk.get("k") == "blockexpr":
        blk = blk["block"]
    stmts = [s_ for s_ in blk.get("stmts", [])] + ([{"k": "expr", "e": blk["tail"]}] if blk.get("tail") is not None else [])
    after = []
    seen = False
    for s_ in stmts:
        if any(x is loop for x in T.nodes(s_)):
            seen = True
            continue
        if seen:
            after.append(T.render(s_["e"]) if s_.get("k") == "expr" else T.render(s_.get("init") or {"k": "lit", "v": ["?"]}))
    want_t = "%s.truncate((%s + 1))" % (pname, wname)
    if after == [want_t]:
        res.holds(rule, fn, "frame:truncate", want_t)
    else:
        res.add(Finding(rule, fn, "frame:truncate", "after the merge loop the list is finished by %s, not by `%s`: a merged range is dropped or a stale one kept" % (after, want_t), loc=loc))


def _split_top(s_):
    """split `a, b` at the top-level comma"""
    depth = 0
    for i, ch in enumerate(s_):
        if ch in "([{":
            depth += 1
        elif ch in ")]}":
            depth -= 1
        elif ch == "," and depth == 0:
            return s_[:i].strip(), s_[i + 1:].strip()
    return s_, ""


def insertion_rule(ctx, res, rule):
    """merge_ranges inserts each new range into the list so that the list stays sorted by start (merge_overlapped_ranges then
    only has to look at neighbours): the backward search stops at - and only at - an entry that starts before the new range
    (or at index 0), and the new range goes directly behind that entry (to the front if there is none)."""
    P = ctx.lib
    b = P.fn("formatter::merge_ranges")
    fn = fshort(b)
    loc = T.loc(b["tree"])
    inner = [l for l in T.nodes(b["tree"], "loop") if "while_cond" not in l]
    rpos = [x for x in T.nodes(b["tree"], "mcall") if x["name"] == "rposition" and len(x["args"]) == 1 and T.peel(x["args"][0]).get("k") == "closure"]
    if not inner and len(rpos) == 1:
        # the same search as a library call: `ranges[..hi].iter().rposition(|r| r.start < new.start).map_or(0, |i| i + 1)`
        clo = T.peel(rpos[0]["args"][0])
        I = A.Interp(P)
        I.lazy_locals = True

        def runp(J):
            env = {}
            J.match_pat(clo["params"][0]["pat"], A.Sym("entry"), env)
            return J.ev(clo["body"], env)
        try:
            outs = I.explore(runp)
        except A.Cannot as e:
            res.cannot(rule, fn, "search", str(e), loc)
            return
        okp = True
        for o in outs:
            rel = None
            for k, v in o["decisions"].items():
                if re.match(r"^ord\(entry\.start, \w+\.start\)$", k):
                    rel = v
                if re.match(r"^ord\(\w+\.start, entry\.start\)$", k):
                    rel = {"<": ">", ">": "<", "=": "="}[v]
            if (A.show(o["value"]) == "true") != (rel == "<") and not (rel == "=" ):
                okp = False
        cons = T.render(rpos[0]) in T.render(b["tree"]) and re.search(r"\.rposition\(.*\)\.map_or\(0, \|\w+\| \(\w+ \+ 1\)\)", T.render(b["tree"])) is not None
        if okp and cons:
            res.holds(rule, fn, "search", "rposition(entry starts before the new range) + 1, or 0")
        else:
            res.add(Finding(rule, fn, "search", "the insertion position is not `last entry that starts before the new range` + 1 (or 0): the list is no longer sorted by start", loc=loc))
        return
    if len(inner) != 1:
        res.cannot(rule, fn, "search", "the backward search loop for the insertion position was not found (%d plain loops)" % len(inner), loc)
        return
    I = A.Interp(P)
    I.lazy_locals = True
    try:
        outs = I.explore(lambda J: J.ev(inner[0]["body"], {}))
    except A.Cannot as e:
        res.cannot(rule, fn, "search", str(e), loc)
        return
    bad = None
    n = 0
    for o in outs:
        d = o["decisions"]
        rel = None            # new_range.start against the examined entry's start
        for k, v in d.items():
            m_ = re.match(r"^ord\((\w+)\.start, (\w+)\[(\w+)\]\.start\)$", k)
            if m_:
                rel = v
            m_ = re.match(r"^ord\((\w+)\[(\w+)\]\.start, (\w+)\.start\)$", k)
            if m_:
                rel = {"<": ">", ">": "<", "=": "="}[v]
        at0 = any(re.match(r"^ord\((0, \w+|\w+, 0)\)$", k) and v == "=" for k, v in d.items())
        val = A.show(o["value"]) if o["value"] is not None else None
        if o["exit"] == "break" and val and val.startswith("Some("):
            if rel != ">" and not (rel == "=" ):
                bad = "stops at an entry although the new range does not start behind it (relation of the starts: %s)" % rel
        elif o["exit"] == "break":
            if not at0 or rel == ">":
                bad = "gives up (front insertion) although %s" % ("the examined entry starts before the new range" if rel == ">" else "index 0 has not been reached")
        elif o["exit"] in ("fall", "continue"):
            steps = [A.show(e[2]) for e in o["effects"] if e[0] == "assign"]
            if rel == ">" or len(steps) != 1 or not re.match(r"^\(\w+ - 1\)$", steps[0]):
                bad = "goes on %s" % ("past an entry that starts before the new range" if rel == ">" else "without stepping back by one (%s)" % steps)
        else:
            bad = "leaves the search by `%s`" % o["exit"]
        if bad:
            break
        n += 1
    stops = [o for o in outs if o["exit"] == "break" and o["value"] is not None and A.show(o["value"]).startswith("Some(")]
    if not bad and not stops:
        bad = "never stops at an entry (no path yields the position found): every new range is put in front"
    if bad:
        res.add(Finding(rule, fn, "search", "the search for the insertion position " + bad + ": the list is no longer sorted by start, overlapping ranges are not merged and are deleted twice", loc=T.loc(inner[0])))
    else:
        res.holds(rule, fn, "search", "%d paths of one search step" % n)
    ins = sorted(T.render(x["args"][0]) for x in T.nodes(b["tree"], "mcall") if x["name"] == "insert" and len(x["args"]) == 2)
    ok_sets = [["(cursor + 1)", "0"], ["cursor.map_or(0, |c| (c + 1))"], ["cursor.map_or(0, |cursor| (cursor + 1))"], ["cursor.map(|c| (c + 1)).unwrap_or(0)"]]
    norm = [re.sub(r"\b[a-z_]+\b", lambda m_: "cursor" if m_.group(0) not in ("map_or", "map", "unwrap_or", "c") else m_.group(0), i_) for i_ in ins]
    if ins in ok_sets or norm in ok_sets:
        res.holds(rule, fn, "insert-behind", ", ".join(ins))
    else:
        res.add(Finding(rule, fn, "insert-behind", "the new range is inserted at %s, not directly behind the entry the search stopped at (index + 1, or 0)" % ins, loc=loc))
    pops = [T.render(x) for x in T.nodes(b["tree"], "mcall") if x["name"] in ("pop", "remove", "swap_remove", "drain") and "new" in T.render(x["recv"])]
    if pops and all(p_.endswith(".pop()") for p_ in pops):
        res.holds(rule, fn, "taken-from-the-back")
    else:
        res.add(Finding(rule, fn, "taken-from-the-back", "the new ranges are taken by %s, not from the back (the search position is carried from one new range to the next, "
                        "which is only right for descending starts)" % pops, loc=loc))


def halves_disjoint(ctx, res, rule):
    """merge_markers: after the head and the tail of an unwrapped element have absorbed the child markers that touch them, the
    two are kept as a *pair* (head, spliced children, tail) only if the head ends strictly before the tail starts; otherwise
    the two were joined by a child and one fused range is pushed.  A pair of overlapping halves would be deleted twice over
    the overlap (text behind the element vanishes) - decided on the paths of the fold closure."""
    P = ctx.lib
    b = P.fn("Remover::merge_markers")
    fn = fshort(b)
    loc = T.loc(b["tree"])
    folds = [n for n in T.nodes(b["tree"], "mcall") if n["name"] == "fold" and len(n["args"]) == 2 and T.peel(n["args"][1]).get("k") == "closure"]
    if len(folds) != 1:
        res.cannot(rule, fn, "halves-disjoint", "the fold over the range trees was not found", loc)
        return
    clo = T.peel(folds[0]["args"][1])
    accs = []
    I = A.Interp(P)
    I.lazy_locals = True

    def run(J):
        env = {}
        accs.append(A.VecV([], base=A.Sym("ACC")))
        if not J.match_pat(clo["params"][0]["pat"], accs[-1], env) or not J.match_pat(clo["params"][1]["pat"], A.Sym("tree"), env):
            raise A.Cannot("closure parameters")
        return J.ev(clo["body"], env)
    try:
        outs = I.explore(run)
    except A.Cannot as e:
        res.cannot(rule, fn, "halves-disjoint", str(e), loc)
        return
    pairs = fused = bad = 0
    for o, acc in zip(outs, accs):
        paired = [x for x in acc.items if isinstance(x, A.Tuple) and len(x.items) == 2 and isinstance(x.items[1], A.Variant) and x.items[1].name == "Some"]
        if len(paired) == 2:
            pairs += 1
            h, t_ = A.show(paired[0].items[0]), A.show(paired[1].items[0])
            if "merge_child_markers(" in h or "merge_child_markers(" in t_:
                # the head absorbs from the front of the child list, the tail from its back - each into its own marker
                if not (re.search(r"\.iter\(\), tree\.range\.0\)\)$", h) and re.search(r"\.iter\(\)\.rev\(\), tree\.range\.1\.some\)\)$", t_)):
                    bad += 1
                    res.add(Finding(rule, fn, "absorb-wiring", "head and tail absorb the child markers as `%s` / `%s`; the head must absorb from the front into the opening part, "
                                    "the tail from the back into the closing part" % (h[-70:], t_[-70:]), loc=loc))
                    break
            rel = None
            for k, v in o["decisions"].items():
                if k == "ord(%s.end, %s.start)" % (h, t_):
                    rel = v
                elif k == "ord(%s.start, %s.end)" % (t_, h):
                    rel = {"<": ">", "=": "=", ">": "<"}[v]
            if rel not in ("<", "="):
                bad += 1
                res.add(Finding(rule, fn, "halves-disjoint", "head and tail are kept as a pair on a path that does not establish head.end <= tail.start (relation: %s): "
                                "overlapping halves are deleted twice over the overlap" % (rel or "not compared"), loc=loc))
                break
        elif len(paired) == 1:
            bad += 1
            res.add(Finding(rule, fn, "halves-disjoint", "only one half of an unwrapped element is pushed with a pair index", loc=loc))
            break
        elif any(isinstance(x, A.Tuple) for x in acc.items):
            fused += 1
            # one range from the head's start to the tail's end swallows the body: only when head and tail have met - the
            # head ends at or behind the tail's start, or one child was absorbed by both (the two absorb counts cross)
            one = [x for x in acc.items if isinstance(x, A.Tuple)]
            rng = one[0].items[0] if len(one) == 1 and len(one[0].items) == 2 else None
            if o["decisions"].get("is_some(tree.range.1)") is True and isinstance(rng, A.Struct) and set(rng.fields) == {"start", "end"}:
                hs, te = A.show(rng.fields["start"]), A.show(rng.fields["end"])
                h, t_ = hs[:-len(".start")] if hs.endswith(".start") else None, te[:-len(".end")] if te.endswith(".end") else None
                met = False
                for k, v in o["decisions"].items():
                    if h and t_ and k == "ord(%s.end, %s.start)" % (h, t_) and v in ("=", ">"):
                        met = True
                    if h and t_ and k == "ord(%s.start, %s.end)" % (t_, h) and v in ("=", "<"):
                        met = True
                    m_ = re.match(r"^ord\((.*)\)$", k)
                    if m_ and "merge_child_markers(" in k and ".len() - " in k:
                        # ord(end cursor, start cursor): the end cursor is `len - absorbed from the back`
                        a_, b_ = _split_top(m_.group(1))
                        if ".len() - " in a_ and ".len() - " not in b_ and v == "<":
                            met = True
                        if ".len() - " in b_ and ".len() - " not in a_ and v == ">":
                            met = True
                if not met:
                    bad += 1
                    res.add(Finding(rule, fn, "fused-only-when-met", "head and tail of an unwrapped element are replaced by one range from the head's start to the tail's end on a path that "
                                    "does not establish that they have met (head.end >= tail.start, or a child absorbed by both): the body between them is deleted "
                                    "(decisions: %s)" % list(o["decisions"].values()), loc=loc))
                    break
    if not bad:
        if pairs:
            res.holds(rule, fn, "halves-disjoint", "%d pair path(s), each under head.end <= tail.start; %d path(s) push one (fused / un-paired) range" % (pairs, fused))
        else:
            res.cannot(rule, fn, "halves-disjoint", "no path pushes a head/tail pair", loc)
