"""Interval rules by ordering enumeration (C02 / C03).

merge_child_markers and merge_overlapped_ranges touch range endpoints only through comparisons, min, max and
Range::contains, so their behaviour depends on the endpoints only through their relative order.  The rules below
enumerate every weak ordering of the four endpoints (representative integers 0..4) and evaluate the loop body with
the abstract interpreter - a complete decision table over the finite ordering domain, not a sample of inputs."""
import itertools

from .. import absint as A
from .. import tree as T
from ..report import Finding
from . import fshort

K = 5   # representative values 0..K-1 realise every weak ordering of four endpoints


def _rng(a, b):
    return A.Struct("Range", [("start", A.Lit(a)), ("end", A.Lit(b))])


def absorb_rule(ctx, res, rule):
    """merge_child_markers: an absorbed child is covered entirely by the widened marker (no ready text survives, C03),
    and a child that is not absorbed does not overlap the marker (no byte is deleted twice, C02) - for children that
    lie behind the head's first byte (forward pass) / before the tail's last byte (reverse pass)."""
    P = ctx.lib
    b = P.fn("Remover::merge_child_markers")
    fn = fshort(b)
    loc = T.loc(b["tree"])
    fors = list(T.nodes(b["tree"], "for"))
    if len(fors) != 1:
        res.cannot(rule, fn, "loop", "expected one loop over the child markers", loc)
        return
    loop = fors[0]
    mparam = [p for p in b["params"] if p["pat"]["p"] == "bind" and "Range<usize>" in p["ty"]]
    if len(mparam) != 1:
        res.cannot(rule, fn, "marker-param", "marker parameter not found", loc)
        return
    mid = mparam[0]["pat"]["id"]
    rows = 0
    bad_cover, bad_overlap = [], []
    for ms, me, cs, ce in itertools.product(range(K), repeat=4):
        if not (ms < me and cs <= ce):
            continue
        rows += 1
        marker = _rng(ms, me)
        I = A.Interp(P)
        I.lazy_locals = True

        def run(J):
            env = {mid: marker}
            if not J.match_pat(loop["pat"], A.Tuple([_rng(cs, ce), A.Sym("pair")]), env):
                raise A.Cannot("loop pattern")
            return J.ev(loop["body"], env)
        try:
            outs = I.explore(run)
        except A.Cannot as e:
            res.cannot(rule, fn, "loop-body", str(e), loc)
            return
        if len(outs) != 1:
            res.cannot(rule, fn, "loop-body", "the loop body is not a function of the endpoint ordering (%d paths)" % len(outs), loc)
            return
        o = outs[0]
        absorbed = o["exit"] in ("fall", "continue")
        ns, ne = marker.fields["start"], marker.fields["end"]
        if not (isinstance(ns, A.Lit) and isinstance(ne, A.Lit)):
            res.cannot(rule, fn, "loop-body", "marker endpoints became symbolic", loc)
            return
        if absorbed:
            if not (ns.v == min(ms, cs) and ne.v == max(me, ce)):
                bad_cover.append(((ms, me), (cs, ce), (ns.v, ne.v)))
        else:
            if (ns.v, ne.v) != (ms, me):
                bad_cover.append(((ms, me), (cs, ce), (ns.v, ne.v)))
            overlap = cs < me and ce > ms and cs < ce
            fwd_ctx = cs > ms          # a child starts behind the first byte of the parent's opening tag
            rev_ctx = ce < me          # a child ends before the last byte of the parent's closing tag
            # the helper serves both passes: the head only ever sees children with cs > ms, the tail only children with ce < me
            if overlap and (fwd_ctx or rev_ctx):
                bad_overlap.append(((ms, me), (cs, ce)))
    res.extra.setdefault("ordering_rows", {})[fn] = rows
    if bad_cover:
        m, c, n = bad_cover[0]
        res.add(Finding(rule, fn, "absorbed-child-covered", "for marker %s and child %s (endpoint ordering) the merged marker is %s: an absorbed child must be covered entirely "
                        "(otherwise part of a ready element survives / the marker stops being head.start..max end); %d of %d orderings" % (m, c, n, len(bad_cover), rows), loc=loc))
    else:
        res.holds(rule, fn, "absorbed-child-covered", "%d endpoint orderings" % rows)
    if bad_overlap:
        m, c = bad_overlap[0]
        res.add(Finding(rule, fn, "unabsorbed-child-disjoint", "for marker %s and child %s (endpoint ordering) the child overlaps the marker but is not merged into it: the two "
                        "markers overlap and the reverse deletion removes bytes twice (text behind the element disappears); %d of %d orderings" % (m, c, len(bad_overlap), rows), loc=loc))
    else:
        res.holds(rule, fn, "unabsorbed-child-disjoint", "%d endpoint orderings" % rows)
    # both passes use this helper: forward over the children for the head, reversed for the tail
    mm = P.fn("Remover::merge_markers")
    calls = [T.render(n["args"][0]) for n in T.nodes(mm["tree"], "call") if (T.callee(n) or "").endswith("merge_child_markers")]
    if sorted(calls) == sorted(["child_markers.iter()", "child_markers.iter().rev()"]):
        res.holds(rule, fshort(mm), "both-passes", "head: children front to back; tail: children back to front")
    else:
        res.add(Finding(rule, fshort(mm), "both-passes", "the head must absorb children front to back and the tail back to front; found %s" % calls, loc=T.loc(mm["tree"])))


def _union_rule_accumulator(ctx, res, rule, b, loop, rid, acc):
    """The same merge written with an output list: `for r in ranges.drain(..) { match out.last_mut() { Some(last) if
    last.end >= r.start => last.end = max(..), _ => out.push(r) } }; *ranges = out`."""
    P = ctx.lib
    fn = fshort(b)
    loc = T.loc(b["tree"])
    aid = acc["pat"]["id"]
    it = T.peel(loop["iter"])
    root = it
    while root.get("k") == "mcall":
        if root["name"] not in ("drain", "iter", "into_iter", "cloned", "iter_mut"):
            res.cannot(rule, fn, "loop", "the merge iterates `%s`, not every range once" % T.render(it)[:60], loc)
            return
        root = T.peel_ref(root["recv"])
    if T.local_of(root) != rid or T.render(acc["init"]) not in ("std::vec::Vec::new()", "std::vec::Vec::with_capacity(ranges.len())") and not T.render(acc["init"]).startswith("std::vec::Vec::with_capacity("):
        res.cannot(rule, fn, "loop", "expected a loop over all ranges filling an initially empty list", loc)
        return
    # the list that was filled replaces the input (or is returned)
    handed = any(n.get("k") == "assign" and T.local_of(T.peel_ref(n["l"])) == rid and T.local_of(T.peel(n["r"])) == aid for n in T.nodes(b["tree"]))
    if not handed:
        res.add(Finding(rule, fn, "merged-handed-back", "the merged list is not assigned back to the input list", loc=loc))
        return

    def last_model(I_, a, n, env):
        v = a[0]
        if isinstance(v, A.VecV) and v.base is None:
            return A.Variant("Some", [v.items[-1]]) if v.items else A.Variant("None")
        raise A.Cannot("last() of an unknown list")
    models = {"core::slice::last_mut": last_model, "core::slice::last": last_model}
    rows = 0
    bad = []
    for a0, b0, a1, b1 in itertools.product(range(K), repeat=4):
        if not (a0 <= b0 and a1 <= b1):
            continue
        rows += 1
        out = A.VecV([_rng(a0, b0)])
        I = A.Interp(P, models=models)
        I.lazy_locals = True
        try:
            outs = I.explore(lambda J: J.ev(loop["body"], {aid: out, loop["pat"]["id"]: _rng(a1, b1)}))
        except A.Cannot as e:
            res.cannot(rule, fn, "loop-body", str(e), loc)
            return
        if len(outs) != 1 or outs[0]["exit"] not in ("fall", "continue"):
            res.cannot(rule, fn, "loop-body", "the merge step is not a function of the endpoint ordering", loc)
            return
        pts0 = set(range(a0, b0)) | set(range(a1, b1))
        out_pts = set()
        for r in out.items:
            s_, e_ = r.fields["start"], r.fields["end"]
            if not (isinstance(s_, A.Lit) and isinstance(e_, A.Lit)):
                res.cannot(rule, fn, "loop-body", "range endpoints became symbolic", loc)
                return
            out_pts |= set(range(s_.v, e_.v))
        if not out_pts <= pts0:
            bad.append(((a0, b0), (a1, b1), [(r.fields["start"].v, r.fields["end"].v) for r in out.items]))
    # the first range starts the list unchanged
    first = A.VecV([])
    I = A.Interp(P, models=models)
    I.lazy_locals = True
    try:
        I.explore(lambda J: J.ev(loop["body"], {aid: first, loop["pat"]["id"]: _rng(1, 3)}))
    except A.Cannot as e:
        res.cannot(rule, fn, "loop-body", str(e), loc)
        return
    if [(r.fields["start"].v, r.fields["end"].v) for r in first.items if isinstance(r, A.Struct)] != [(1, 3)]:
        res.add(Finding(rule, fn, "first-range-kept", "the first range does not start the merged list unchanged", loc=loc))
    res.extra.setdefault("ordering_rows", {})[fn] = rows
    if bad:
        x, y, z = bad[0]
        res.add(Finding(rule, fn, "merged-within-union", "merging %s with %s (endpoint ordering) yields %s, which covers positions in neither range: text between two formatter "
                        "ranges would be deleted; %d of %d orderings" % (x, y, z, len(bad), rows), loc=loc))
    else:
        res.holds(rule, fn, "merged-within-union", "%d endpoint orderings, sorted or not (accumulator form)" % rows)


def union_rule(ctx, res, rule):
    """merge_overlapped_ranges: one step of the merge never produces a range that covers a point outside the two
    ranges it combined - whatever their order (the list is not always sorted: nested block ranges arrive out of order)."""
    P = ctx.lib
    b = P.fn("formatter::merge_overlapped_ranges")
    fn = fshort(b)
    loc = T.loc(b["tree"])
    fors = list(T.nodes(b["tree"], "for"))
    if len(fors) != 1 or fors[0]["pat"]["p"] != "bind":
        res.cannot(rule, fn, "loop", "expected `for read_cursor in 1..ranges.len()`", loc)
        return
    loop = fors[0]
    rid = b["params"][0]["pat"]["id"]
    wlets = [s for s in T.nodes(b["tree"], "let") if s["pat"]["p"] == "bind" and "Mut" in s["pat"].get("mode", "") and s.get("init") is not None and T.lit_value(s["init"]) == 0]
    if len(wlets) != 1:
        accs = [s for s in T.nodes(b["tree"], "let") if s["pat"]["p"] == "bind" and "Mut" in s["pat"].get("mode", "") and s.get("init") is not None
                and "Vec<std::ops::Range<usize>>" in (s.get("pty") or "")]
        if len(accs) == 1 and not wlets:
            _union_rule_accumulator(ctx, res, rule, b, loop, rid, accs[0])
            return
        res.cannot(rule, fn, "write-cursor", "write cursor (`let mut w = 0`) not found", loc)
        return
    wid = wlets[0]["pat"]["id"]
    rows = 0
    bad = []
    for a0, b0, a1, b1 in itertools.product(range(K), repeat=4):
        if not (a0 <= b0 and a1 <= b1):
            continue
        rows += 1
        vec = A.VecV([_rng(a0, b0), _rng(a1, b1)])
        I = A.Interp(P)
        I.lazy_locals = True
        holder = {}

        def run(J):
            env = {rid: vec, wid: A.Lit(0), loop["pat"]["id"]: A.Lit(1)}
            holder["env"] = env
            return J.ev(loop["body"], env)
        try:
            outs = I.explore(run)
        except A.Cannot as e:
            res.cannot(rule, fn, "loop-body", str(e), loc)
            return
        if len(outs) != 1 or outs[0]["exit"] not in ("fall", "continue"):
            res.cannot(rule, fn, "loop-body", "the merge step is not a function of the endpoint ordering", loc)
            return
        w = holder["env"][wid]
        if not isinstance(w, A.Lit):
            res.cannot(rule, fn, "loop-body", "write cursor became symbolic", loc)
            return
        pts0 = set(range(a0, b0)) | set(range(a1, b1))
        out_pts = set()
        for r in vec.items[: w.v + 1]:
            s_, e_ = r.fields["start"], r.fields["end"]
            if not (isinstance(s_, A.Lit) and isinstance(e_, A.Lit)):
                res.cannot(rule, fn, "loop-body", "range endpoints became symbolic", loc)
                return
            out_pts |= set(range(s_.v, e_.v))
        if not out_pts <= pts0:
            bad.append(((a0, b0), (a1, b1), [(r.fields["start"].v, r.fields["end"].v) for r in vec.items[: w.v + 1]]))
    res.extra.setdefault("ordering_rows", {})[fn] = rows
    if bad:
        x, y, z = bad[0]
        res.add(Finding(rule, fn, "merged-within-union", "merging %s with %s (endpoint ordering) yields %s, which covers positions in neither range: text between two formatter "
                        "ranges would be deleted; %d of %d orderings" % (x, y, z, len(bad), rows), loc=loc))
    else:
        res.holds(rule, fn, "merged-within-union", "%d endpoint orderings, sorted or not" % rows)
