"""C18 - spelling independence: parametricity clauses."""
from .. import tree as T
from ..report import Finding
from . import common, fshort
from . import c09

LEVEL = "other"


def _fns_in(P, prefixes):
    """The functions of the given modules (whatever helpers they are split into), tests excluded."""
    return [b for b in P.user_bodies() if b.get("kind") in ("Fn", "AssocFn") and b["def_path"].startswith(tuple(prefixes)) and "::tests::" not in b["def_path"]]


def run(ctx, res):
    P = ctx.lib
    kw = ctx.spec("keywords.json")
    res.explanation = (
        "Parametricity clauses (the relational statement itself is not decided): R1 no string literal in the library equals a "
        "default delimiter or tag name, and every literal compared with a tag/attribute name is a documented keyword; R2 "
        "integer literals in the tokenizer / tag parser are 0 or 1 (no hard-coded delimiter length); R3 the delimiter "
        "parameters are used only as character sequences (chars(), passed on, stored in ElementToken, stripped once); R4 "
        "evaluators are registered and looked up under the configured tag names; R5 delimiters are stripped exactly once.")
    res.trusted += ["driver fact extraction"]
    defaults = kw["cli_defaults"]
    spellings = {defaults["delimiter_start"], defaults["delimiter_end"], defaults["time_limited_tag_name"], defaults["removal_marker_tag_name"]}
    keywords = {kw["time_limited_attr"], kw["marker_attr"], kw["skip_attr"], kw["unwrap_attr"], kw["closing_prefix"]}
    nlit = 0
    for b in P.user_bodies():
        if b["kind"] not in ("Fn", "AssocFn"):
            continue
        fn = fshort(b)
        for n, par in T.walk(b["tree"]):
            if n.get("k") == "lit" and n.get("lk") == "str":
                v = n["v"][0]
                nlit += 1
                if v in spellings or any(sp and sp in v for sp in spellings if len(sp) > 3):
                    res.add(Finding("C18.R1", fn, "literal:" + repr(v), "the library contains the spelling %r of a default delimiter / tag name: behaviour would depend on the "
                                    "configured spelling" % v, loc=T.loc(n)))
                    continue
                # literal compared with a name / value
                p = par[-1] if par else {}
                while p.get("k") in ("addr_of",):
                    p = par[par.index(p) - 1] if par.index(p) > 0 else {}
                if p.get("k") == "binary" and p["op"] in ("==", "!="):
                    other = p["r"] if T.peel_ref(p["l"]) is n else p["l"]
                    if T.render(other).endswith(".name") or T.render(other).endswith(".value"):
                        if v in keywords:
                            res.holds("C18.R1", fn, "keyword:" + repr(v))
                        else:
                            res.add(Finding("C18.R1", fn, "keyword:" + repr(v), "a tag/attribute name is compared with %r, which is not a documented keyword" % v, loc=T.loc(n)))
    res.floor("C18.R1", "string literals scanned in library code", nlit, 8)
    if not [f for f in res.findings if f.rule == "C18.R1"]:
        res.holds("C18.R1", "-", "no-default-spelling", "%d string literals, none is a default delimiter or tag name" % nlit)
    # R2 integer literals
    nint = 0
    called = {c_ for x in P.user_bodies() for c_, _ in P.callees(x)}
    for b in _fns_in(P, ("crate::tokenizer::", "crate::element_parser::")):
        if b["def_path"] in getattr(P, "new_fns", set()) and b["def_path"] not in called:
            continue        # a new private function that nothing calls (named only in a debug assertion): not part of the behaviour
        for n, par in T.walk(b["tree"]):
            if n.get("k") == "lit" and n.get("lk") == "int":
                nint += 1
                hint = [q for q in par if (q.get("k") == "call" and (T.callee(q) or "").endswith(("::with_capacity", "::reserve"))) or
                        (q.get("k") == "mcall" and q["name"] in ("reserve", "reserve_exact"))]
                if n["v"][0] in (0, 1) or hint:        # a capacity hint is not a position
                    res.holds("C18.R2", fshort(b), "int:%d" % n["v"][0])
                else:
                    res.add(Finding("C18.R2", fshort(b), "int:%d" % n["v"][0], "integer literal %d in position arithmetic of the tokenizer / tag parser: a delimiter or keyword "
                                    "length is hard-coded" % n["v"][0], loc=T.loc(n)))
    res.floor("C18.R2", "integer literals in tokenizer / tag parser", nint, 4)
    # R3 delimiter parameters as opaque char sequences
    uses = 0
    for b in _fns_in(P, ("crate::tokenizer::",)):
        ids = {p["pat"]["id"]: p["pat"]["name"] for p in b["params"] if p["pat"]["p"] == "bind" and p["pat"]["name"].startswith("delimiter")}
        for n, par in T.walk(b["tree"]):
            if n.get("k") != "path" or T.local_of(n) not in ids:
                continue
            uses += 1
            p = par[-1]
            i = len(par) - 1
            while p.get("k") in ("addr_of",) or (p.get("k") == "unary" and p.get("op") == "*"):
                i -= 1
                p = par[i]
            site = "%s:%s" % (ids[T.local_of(n)], T.render(p)[:60])
            okk = False
            if p.get("k") == "mcall" and p["name"] == "chars" and T.peel_ref(p["recv"]) is n:
                okk = True
            elif p.get("k") == "call" and (T.callee(p) or "") in P.bodies:
                okk = True          # handed on to another tokenizer function (its own uses are checked there)
            elif p.get("k") is None or p.get("k") == "struct":
                okk = True          # stored in ElementToken
            if okk:
                res.holds("C18.R3", fshort(b), site)
            else:
                res.add(Finding("C18.R3", fshort(b), site, "a delimiter is used through `%s`, not as an opaque character sequence" % T.render(p)[:100], loc=T.loc(n)))
    res.floor("C18.R3", "uses of the delimiter parameters in the tokenizer", uses, 8)
    b = P.fn("element_parser::parse")
    for n, par in T.walk(b["tree"]):
        if n.get("k") == "field" and n["name"] in ("delimiter_start", "delimiter_end"):
            p = par[-1]
            if p.get("k") == "mcall" and p["name"] in ("strip_prefix", "strip_suffix") and any(T.peel_ref(a) is n for a in p["args"]):
                res.holds("C18.R3", fshort(b), "%s:%s" % (n["name"], p["name"]))
            else:
                res.add(Finding("C18.R3", fshort(b), "%s:%s" % (n["name"], T.render(p)[:60]), "the stored delimiter is used through `%s` (only a once-only strip is spelling independent)" % T.render(p)[:100], loc=T.loc(n)))
    common.registry_wiring(ctx, res, "C18.R4")
    # the lookup key is the tag name itself (no case folding / trimming between the configured name and the tag)
    info = common.element_table(ctx)
    keys = {k for o in info.get("outs", []) for k in o["decisions"] if k.startswith("is_some(get(self.removal_evaluators")}
    if keys == {"is_some(get(self.removal_evaluators, c.0.start_element.name))"}:
        res.holds("C18.R4", "code::remover::Remover::collect_removable_ranges", "lookup-key", "get(el.start_element.name)")
    else:
        res.add(Finding("C18.R4", "code::remover::Remover::collect_removable_ranges", "lookup-key", "evaluators are looked up with %s, not with the tag name as written: a configured "
                        "name of another spelling (case) would never match" % sorted(keys), loc=T.loc(info["body"]["tree"])))
    # name discipline (same classification as C06.R4): case folding / prefix matching makes behaviour spelling dependent
    from . import c06
    import re
    for (b_, n, cls, detail, origin) in c06.name_uses(P):
        if cls != "banned":
            continue
        fn_ = fshort(b_)
        m = re.search(r"\.(\w+)\((.*)\)$", detail)
        if fn_.startswith("parser::") and m and m.group(1) in ("starts_with", "trim_start_matches", "strip_prefix") and m.group(2) == repr(kw["closing_prefix"]):
            continue
        if origin != "name":
            continue              # attribute *values* are data, not spelling of the configuration
        res.add(Finding("C18.R6", fn_, "%s:%s" % (n.get("name") or n["res"]["name"], detail), "a tag/attribute name is used through `%s`: matching is no longer by the exact "
                        "configured spelling" % detail, loc=T.loc(n)))
    if not [f for f in res.findings if f.rule == "C18.R6"]:
        res.holds("C18.R6", "-", "name-discipline", "no case-folding / prefix / trimming operation on names")
    # R7: the tokenizer treats every delimiter spelling alike: a character that aborts a partial match is re-examined
    from . import c08
    from .. import report as _rep
    sub = _rep.Result("C08", "other")
    c08.run(ctx, sub)
    for f in sub.findings:
        res.add(Finding("C18.R7", f.fn, f.site, "delimiter handling depends on the spelling: " + f.message, loc=f.loc))
    if not sub.findings:
        res.holds("C18.R7", "tokenizer::get_state", "uniform-delimiter-handling", "C08 rules hold")
    # R8: no character-class predicate decides what a tag / attribute name may look like
    CLASS_PREDICATES = {"is_ascii", "is_ascii_alphabetic", "is_ascii_alphanumeric", "is_ascii_digit", "is_ascii_lowercase", "is_ascii_uppercase", "is_ascii_punctuation",
                        "is_alphabetic", "is_alphanumeric", "is_numeric", "is_lowercase", "is_uppercase", "is_ascii_graphic", "is_control", "is_ascii_hexdigit"}
    n_cls = 0
    for b_ in _fns_in(P, ("crate::tokenizer::", "crate::element_parser::", "crate::parser::")):
        for n in T.nodes(b_["tree"], "mcall"):
            if n["name"] in CLASS_PREDICATES:
                n_cls += 1
                res.add(Finding("C18.R8", fshort(b_), "char-class:" + T.render(n)[-50:], "`%s` restricts which characters a delimiter / tag / attribute spelling may use"
                                % T.render(n)[-70:], loc=T.loc(n)))
    if n_cls == 0:
        res.holds("C18.R8", "-", "no-character-class-predicates")
    c09.strip_once(ctx, res)
    for f in res.findings:
        if f.rule == "C09.R3":
            f.rule = "C18.R5"
    res.instances = [(("C18.R5" if r == "C09.R3" else r), k.replace("C09.R3", "C18.R5"), v) for r, k, v in res.instances]
