"""Deletion discipline (C02 / C14 / C12.R1): only-delete sinks, reverse application, merge before
delete, byte-class tables of the scanners, pausing call sites, whitespace-bounded ranges."""
import re

from .. import absint as A
from .. import tree as T
from ..report import Finding
from . import fshort

STRING_TYPES = ("std::string::String", "str")
PURE_STRING_OPS = {"to_string", "to_owned", "clone", "as_str", "as_ref", "borrow", "deref", "as_mut_str", "into"}

SEAM_FORMATTERS = ("IndentRemover::format", "EmptyLineRemover::format", "PrevLineBreakRemover::format", "NextLineBreakRemover::format")
SCANNERS = ("find_next_line_break_pos", "find_prev_line_break_pos")


def _base_ty(t):
    t = (t or "").strip()
    while t.startswith("&"):
        t = t[1:].strip()
        if t.startswith("mut "):
            t = t[4:]
        if t.startswith("'"):
            t = t.split(" ", 1)[1] if " " in t else t
    return t


def is_string_ty(t):
    return _base_ty(t) in STRING_TYPES


def data_path_functions(P):
    """Functions that hand the cleaned text back: clean() and, transitively, every crate function with a String in its
    return type that is called from a function already on the path (the evaluator's scratch strings are not on it:
    is_removal returns bool)."""
    root = P.fn("chiritori::clean")
    out = [root]
    seen = {root["def_path"]}
    work = [root]
    while work:
        b = work.pop()
        for c, node in P.callees(b):
            cb = P.bodies.get(c)
            if cb is None or c in seen or (cb.get("impl_of") or {}).get("derived"):
                continue
            if "std::string::String" in (cb.get("ret_ty") or ""):
                seen.add(c)
                out.append(cb)
                work.append(cb)
    return out


# ------------------------------------------------------------------------------------------------ R1 + R2

def sinks(ctx, res, rule1, rule2):
    P = ctx.lib
    fns = data_path_functions(P)
    names = sorted(fshort(b) for b in fns)
    res.extra["data_path_functions"] = names
    res.floor(rule1, "functions on the data path of the cleaned text", len(fns), 3)
    deletions = 0
    for b in fns:
        fn = fshort(b)
        for n, parents in T.walk(b["tree"]):
            k = n.get("k")
            if k == "call" and (T.cname(n) or "") in ("alloc::fmt::format", "std::fmt::format"):
                res.add(Finding(rule1, fn, "format!:" + (n.get("snip") or "")[:60], "text is synthesised with format! on the data path of the cleaned text (cleaning must only delete)", loc=T.loc(n)))
                continue
            if k == "binary" and n["op"] == "+" and is_string_ty(n["l"].get("ty")):
                res.add(Finding(rule1, fn, "concat:" + T.render(n)[:60], "string concatenation on the data path of the cleaned text", loc=T.loc(n)))
                continue
            if k != "mcall":
                continue
            rty = n["recv"].get("aty") or n["recv"].get("ty")
            if not is_string_ty(rty) and not is_string_ty(n["recv"].get("ty")):
                continue
            mutating = "ref_mut" in (n["recv"].get("adj") or []) or (n["recv"].get("ty") or "").startswith("&mut ")
            site = "%s(%s)" % (n["name"], ", ".join(T.render(a) for a in n["args"]))
            if mutating:
                if n["name"] == "replace_range" and len(n["args"]) == 2 and T.lit_value(n["args"][1]) == "":
                    deletions += 1
                    res.holds(rule1, fn, site, "deletion sink")
                    _reverse_applied(res, rule2, fn, n, parents)
                else:
                    res.add(Finding(rule1, fn, site, "`%s` mutates the text other than by deleting a range (only replace_range(_, \"\") may touch the "
                                    "cleaned text)" % T.render(n)[:120], loc=T.loc(n)))
            elif is_string_ty(n.get("ty")) or "std::borrow::Cow<" in (n.get("ty") or "") or "String" in (n.get("ty") or ""):
                if n["name"] in PURE_STRING_OPS:
                    res.holds(rule1, fn, site, "copy")
                else:
                    res.add(Finding(rule1, fn, site, "`%s` derives new text from the cleaned text (only copies and range deletions are allowed)"
                                    % T.render(n)[:120], loc=T.loc(n)))
    res.floor(rule1, "replace_range(_, \"\") deletion sinks", deletions, 2)


def _chain_has_rev(n):
    n = T.peel_ref(n)
    for _ in range(10):
        if n.get("k") != "mcall":
            return False
        if n["name"] == "rev":
            return True
        n = T.peel_ref(n["recv"])
    return False


def _reverse_applied(res, rule, fn, sink, parents):
    """The ranges are in pre-deletion coordinates: they must be applied back to front."""
    site = "reverse:" + T.render(sink)[:60]
    for i in range(len(parents) - 1, -1, -1):
        p = parents[i]
        if p.get("k") == "for":
            if _chain_has_rev(p["iter"]):
                res.holds(rule, fn, site, "for .. in %s" % T.render(p["iter"]))
            else:
                res.add(Finding(rule, fn, site, "ranges are deleted front to back (`for .. in %s` is not reversed): later ranges shift" % T.render(p["iter"]), loc=T.loc(p)))
            return
        if p.get("k") == "closure" and i > 0:
            # closure passed to fold / for_each of a reversed iterator
            for q in reversed(parents[:i]):
                if q.get("k") == "mcall" and q["name"] in ("fold", "for_each", "try_fold") and any(T.peel(a) is p for a in q["args"]):
                    if _chain_has_rev(q["recv"]):
                        res.holds(rule, fn, site, "%s.%s" % (T.render(q["recv"]), q["name"]))
                    else:
                        res.add(Finding(rule, fn, site, "ranges are deleted front to back (`%s` is not reversed): later ranges shift" % T.render(q["recv"]), loc=T.loc(q)))
                    return
            break
    res.add(Finding(rule, fn, site, "a single deletion outside any reversed loop: cannot establish back-to-front application", loc=T.loc(sink), cannot_analyse=True))


# ------------------------------------------------------------------------------------------------ R3

def merged_before_delete(ctx, res, rule):
    P = ctx.lib
    b = P.fn("code::formatter::format")
    fn = fshort(b)
    loc = T.loc(b["tree"])
    blk = T.peel(b["tree"])
    while blk.get("k") == "blockexpr":
        blk = blk["block"]
    stmts = list(blk.get("stmts", []))
    seq = []
    for s in stmts:
        seq.append(T.peel(s["e"]) if s["k"] == "expr" else s)
    if blk.get("tail") is not None:
        seq.append(T.peel(blk["tail"]))
    # deletion statement: contains the replace_range sink
    del_idx = [i for i, s in enumerate(seq) if any(x.get("k") == "mcall" and x["name"] == "replace_range" for x in T.nodes(s))]
    if len(del_idx) != 1:
        res.cannot(rule, fn, "deletion-statement", "expected one top-level deletion statement, found %d" % len(del_idx), loc)
        return
    di = del_idx[0]
    d = seq[di]
    src = None
    for x in T.nodes(d, "mcall"):
        if x["name"] in ("fold", "for_each"):
            r = T.peel_ref(x["recv"])
            while r.get("k") == "mcall":
                r = T.peel_ref(r["recv"])
            src = T.local_of(r)
    for x in T.nodes(d, "for"):
        r = T.peel_ref(x["iter"])
        while r.get("k") == "mcall":
            r = T.peel_ref(r["recv"])
        src = T.local_of(r)
    if src is None:
        res.cannot(rule, fn, "deletion-source", "cannot identify the vector of ranges that is deleted", loc)
        return

    def touches(s, lid):
        for x in T.nodes(s):
            if T.local_of(x) == lid:
                return True
        return False
    # walk backwards from the deletion: first statement touching the vector must be merge_overlapped_ranges(&mut v)
    state = "need-overlap-merge"
    merged_blocks = False
    for i in range(di - 1, -1, -1):
        s = seq[i]
        if not touches(s, src):
            continue
        c = s if s.get("k") == "call" else None
        cn = T.short_path(T.callee(c)) if c is not None and T.callee(c) else ""
        if state == "need-overlap-merge":
            if cn.endswith("merge_overlapped_ranges") and len(c["args"]) == 1 and T.local_of(T.peel_ref(c["args"][0])) == src:
                res.holds(rule, fn, "overlap-merge-precedes-deletion")
                state = "need-sorted-insert"
                continue
            res.add(Finding(rule, fn, "overlap-merge-precedes-deletion", "the last operation on the range list before the reverse deletion is `%s`, not "
                            "merge_overlapped_ranges: overlapping ranges would delete text twice" % T.render(s)[:100], loc=T.loc(s)))
            return
        if state == "need-sorted-insert":
            if cn.endswith("merge_ranges") and T.local_of(T.peel_ref(c["args"][0])) == src:
                merged_blocks = True
                res.holds(rule, fn, "block-ranges-enter-sorted")
                continue
            # anything else touching the vector before: must be the fill loop
            if s.get("k") == "for" or s.get("k") == "let":
                continue
            if any(x.get("k") == "mcall" and x["name"] in ("extend", "append", "push", "insert") and T.local_of(T.peel_ref(x["recv"])) == src for x in T.nodes(s)) and s.get("k") != "for":
                res.add(Finding(rule, fn, "block-ranges-enter-sorted", "ranges are added to the list by `%s` after the position loop without sorted insertion" % T.render(s)[:100], loc=T.loc(s)))
    if state != "need-sorted-insert":
        res.add(Finding(rule, fn, "overlap-merge-precedes-deletion", "no merge_overlapped_ranges call between filling the range list and deleting", loc=loc))
    # block ranges (second vector) must reach the list only through merge_ranges
    if not merged_blocks:
        res.info.append("%s: no merge_ranges call found (no block ranges?)" % rule)


# ------------------------------------------------------------------------------------------------ R4 scanners

def _byte_models(cls, boundary, examined):
    def get(I, a, n, env):
        examined.append(A.show(a[1]))
        I.effects.append(("examine", A.show(a[1]), [], n))
        if cls is None:
            return A.Variant("None")
        return A.Variant("Some", [cls])

    def is_boundary(I, a, n, env):
        I.effects.append(("boundary", A.show(a[1]) if len(a) > 1 else "?", [], n))
        return A.Lit(boundary)

    def index(I, a, n, env):
        # bytes[i]: the byte at i is examined; out of range is a panic (C01's business), here the scan stops
        examined.append(A.show(a[1]))
        I.effects.append(("examine", A.show(a[1]), [], n))
        if cls is None:
            raise A._Panic("index out of range")
        return cls
    return {"core::slice::get": get, "core::str::is_char_boundary": is_boundary, "index": index}


def _literal_bytes(body):
    lits = set()

    def walk_pat(p):
        if p.get("p") == "lit" and p.get("lk") == "byte":
            lits.add(p["v"][0])
        for k in ("pats",):
            for x in p.get(k, []) or []:
                walk_pat(x)
        if p.get("pat"):
            walk_pat(p["pat"])
        if p.get("sub"):
            walk_pat(p["sub"])
    for n in T.nodes(body["tree"]):
        if n.get("k") == "match":
            for a in n["arms"]:
                walk_pat(a["pat"])
        if n.get("k") == "lit" and n.get("lk") == "byte":
            lits.add(n["v"][0])
    return lits


def scan_loop(b):
    """The single scan loop of a scanner: `loop { .. cursor += 1 }`, or `for cursor in a..b` / `(a..b).rev()` (one byte per
    iteration by construction).  Returns dict(form, node, body, var, lo, hi, rev) or None."""
    loops = [n for n in T.nodes(b["tree"]) if n.get("k") in ("loop", "for")]
    if len(loops) != 1:
        return None
    n = loops[0]
    if n["k"] == "loop":
        return {"form": "loop", "node": n, "body": n["body"], "var": None}
    it = T.peel(n["iter"])
    rev = False
    if it.get("k") == "mcall" and it["name"] == "rev" and not it["args"]:
        rev = True
        it = T.peel(it["recv"])
    if it.get("k") != "struct" or "Range" not in (it["res"].get("path") or it.get("ty") or "") or n["pat"]["p"] != "bind":
        return None
    f = {x["name"]: x["e"] for x in it["fields"]}
    return {"form": "for", "node": n, "body": n["body"], "var": n["pat"], "lo": f.get("start"), "hi": f.get("end"), "rev": rev,
            "inclusive": "Inclusive" in (it["res"].get("path") or it.get("ty") or "")}


def scanner_tables(ctx, res, rule, mode="sound"):
    """Composite table (byte class, char boundary, pause flag) -> {advance, found, stop} of each scanner loop.
    mode "sound": nothing but blanks is passed while pausing, what is found is what was examined (deleting is safe);
    mode "complete": the other direction - blanks *are* passed, a line break / non-blank on a boundary *is* found, a
    non-pausing scan passes everything but a line break (a blank line is recognised as blank, wrapper lines are found)."""
    P = ctx.lib
    specs = [
        ("find_next_line_break_pos", "line_break_pos_finder::check", "linebreak"),
        ("find_prev_line_break_pos", "line_break_pos_finder::check", "linebreak"),
        ("find_next_char_pos", "char_pos_finder::check", "char"),
    ]
    tables = 0
    for fname, chk, kind in specs:
        b = P.fn(fname)
        cb = P.fn(chk, required=False) or b        # the byte classification may be a helper (`check`) or written in the scanner itself
        fn = fshort(b)
        sl = scan_loop(b)
        if sl is None:
            res.cannot(rule, fn, "loop", "expected exactly one scan loop (`loop` with a cursor, or `for` over a range / reversed range)", T.loc(b["tree"]))
            continue
        loop = sl["node"]
        lits = _literal_bytes(cb) | {32, 9, 10}
        classes = [A.Lit(x, "byte") for x in sorted(lits)] + [A.CharClass(None, excluded=lits), None]
        cursor_name = None
        rows = {}
        okrows = 0
        for cls in classes:
            for boundary in (True, False):
                for pause in ((True, False) if kind == "linebreak" else (None,)):
                    examined = []
                    I = A.Interp(P, inline=[cb["def_path"]] if cb is not b else [], models=_byte_models(cls, boundary, examined))
                    I.lazy_locals = True

                    def run(J):
                        env = {}
                        for p in b["params"]:
                            if p["pat"]["p"] == "bind":
                                if p["pat"]["name"] == "pause_on_char":
                                    env[p["pat"]["id"]] = A.Lit(pause)
                                else:
                                    env[p["pat"]["id"]] = A.Sym(p["pat"]["name"], p["ty"])
                        if sl["var"] is not None:
                            env[sl["var"]["id"]] = A.Sym(sl["var"]["name"], "usize")
                        J.last_env = env
                        return J.ev(loop["body"], env)
                    try:
                        outs = I.explore(run)
                    except A.Cannot as e:
                        res.cannot(rule, fn, "loop-body", str(e), T.loc(loop))
                        outs = []
                    cname_ = A.show(cls) if cls is not None else "<out of range>"
                    for o in outs:
                        if o["exit"] in ("break", "return") and isinstance(o["value"], A.Variant) and o["value"].name == "Some":
                            outcome = "found"
                        elif o["exit"] in ("fall", "continue"):
                            outcome = "advance"
                        else:
                            outcome = "stop"
                        key = "%s|boundary=%d|pause=%s" % (cname_, boundary, pause)
                        rows.setdefault(key, set()).add(outcome)
                        bad = None
                        is_blank = isinstance(cls, A.Lit) and cls.v in (32, 9)
                        is_nl = isinstance(cls, A.Lit) and cls.v == 10
                        reached_check = bool(examined)
                        if outcome == "found":
                            if not reached_check:
                                bad = "reports a position without examining a byte"
                            elif kind == "linebreak" and not (is_nl and boundary):
                                bad = "reports byte %s (char boundary=%s) as a line break" % (cname_, boundary)
                            elif kind == "char" and (is_blank or not boundary or cls is None):
                                bad = "reports byte %s (char boundary=%s) as the first non-blank character" % (cname_, boundary)
                            else:
                                # the reported value is the examined position
                                val = A.show(o["value"].args[0])
                                if examined and val != examined[-1]:
                                    bad = "reports `%s` but examined `%s`" % (val, examined[-1])
                        elif outcome == "advance" and reached_check:
                            if pause in (True, None) and boundary and not is_blank:
                                bad = "skips over byte %s while pausing (only ' ' and '\\t' may be skipped)" % cname_
                        elif outcome == "stop" and not any(e[0] in ("examine", "boundary") for e in o["effects"]):
                            # giving up without looking at a byte is only legitimate when the position is out of range (or, for the
                            # forward scanners, the historical `cursor == 0` exit)
                            ok_stop = False
                            for k_, v_ in o["decisions"].items():
                                m_ = re.match(r"^ord\((.+), (.+)\)$", k_)
                                if not m_:
                                    continue
                                a_, b_ = m_.group(1), m_.group(2)
                                if a_ == "bytes.len()" and b_ in ("cursor", "(cursor - 1)") and v_ in ("<", "="):
                                    ok_stop = True
                                if b_ == "bytes.len()" and a_ in ("cursor", "(cursor - 1)") and v_ in ("=", ">"):
                                    ok_stop = True
                                if (a_, b_) in (("0", "cursor"), ("cursor", "0")) and v_ == "=":
                                    ok_stop = True
                            if not ok_stop and o["decisions"]:
                                bad = "gives up without examining a byte although the position is in range (decisions: %s): a line break / character there is never found" % (
                                    {k_: v_ for k_, v_ in o["decisions"].items() if k_.startswith("ord(")})
                        if mode == "complete":
                            bad = None
                            reached_check = any(e[0] == "examine" for e in o["effects"])       # on this path
                            at_end = outcome == "stop" and any(re.match(r"^ord\((0, .+|.+, 0)\)$", k_) and v_ == "=" for k_, v_ in o["decisions"].items())
                            if at_end:
                                pass        # the examined byte was the first of the text: there is nothing further to scan
                            elif reached_check and boundary and cls is not None:
                                if is_blank and outcome != "advance":
                                    bad = "does not pass the blank byte %s (outcome: %s): a line of spaces and tabs is not recognised as blank" % (cname_, outcome)
                                elif kind == "linebreak" and is_nl and outcome != "found":
                                    bad = "does not report a line break on a char boundary (outcome: %s)" % outcome
                                elif kind == "linebreak" and not is_nl and not is_blank and pause is False and outcome != "advance":
                                    bad = "does not pass byte %s although it is not pausing (outcome: %s): the line break behind it is never found" % (cname_, outcome)
                                elif kind == "linebreak" and not is_nl and not is_blank and pause is True and outcome != "stop":
                                    bad = None if outcome == "advance" else "reports byte %s as a line break" % cname_     # (passing it is the sound table's business)
                                elif kind == "char" and not is_blank and outcome != "found":
                                    bad = "does not report the non-blank byte %s (outcome: %s)" % (cname_, outcome)
                            elif reached_check and not boundary and outcome == "stop":
                                bad = "gives up inside a multi-byte character"
                            if bad:
                                res.add(Finding(rule, fn, "complete:" + key, "scanner %s" % bad, loc=T.loc(loop)))
                            elif reached_check:
                                okrows += 1
                                res.holds(rule, fn, "complete:%s->%s" % (key, outcome))
                            continue
                        if bad:
                            res.add(Finding(rule, fn, "table:" + key, "scanner %s" % bad, loc=T.loc(loop)))
                        else:
                            okrows += 1
                            res.holds(rule, fn, "table:%s->%s" % (key, outcome))
        tables += 1
        if mode == "complete":
            continue
        res.extra.setdefault("scanner_tables", {})[fn] = {k: sorted(v) for k, v in rows.items()}
        # the cursor moves one byte at a time (no byte is skipped unexamined)
        if sl["form"] == "for":
            res.holds(rule, fn, "step:for over %s" % T.render(loop["iter"])[:40])
        for n in T.nodes(b["tree"]):
            if n.get("k") == "assign_op":
                if T.lit_value(n["r"]) == 1 and n["op"] in ("+", "-", "+=", "-="):
                    res.holds(rule, fn, "step:" + T.render(n))
                else:
                    res.add(Finding(rule, fn, "step:" + T.render(n), "scan cursor does not move by exactly one byte: bytes are skipped unexamined", loc=T.loc(n)))
            if n.get("k") == "assign":
                res.add(Finding(rule, fn, "step:" + T.render(n)[:60], "scan cursor is reassigned inside the scanner", loc=T.loc(n)))
    res.floor(rule, "scanner loops tabulated", tables, 3)
    if mode == "complete":
        return
    _indent_remover_table(ctx, res, rule)


def scanners_move(ctx, res, rule):
    """`return normally`: each of the three scanner loops moves its cursor (a `for` over a range, or a `loop` that steps the
    cursor by one somewhere in its body) - a scan that never moves does not terminate on the first blank."""
    P = ctx.lib
    for fname in ("find_next_line_break_pos", "find_prev_line_break_pos", "find_next_char_pos"):
        b = P.fn(fname)
        fn = fshort(b)
        sl = scan_loop(b)
        if sl is None:
            continue          # (the table rules report an unrecognised loop)
        if sl["form"] == "for" or any(n.get("k") == "assign_op" and T.lit_value(n["r"]) == 1 for n in T.nodes(sl["node"]["body"])):
            res.holds(rule, fn, "scan-moves")
        else:
            res.add(Finding(rule, fn, "scan-moves", "the scan cursor is never moved inside the scan loop: the scan does not terminate on a blank", loc=T.loc(sl["node"])))


def indent_found_is_returned(ctx, res, rule):
    """What the backward scan of IndentRemover finds is handed back: some return (outside the loop, or from inside it) is a
    range other than the empty (seam, seam) - otherwise the tag line's indentation is never removed."""
    P = ctx.lib
    b = P.fn("IndentRemover::format")
    fn = fshort(b)
    seam = b["params"][2]["pat"].get("name") if len(b["params"]) == 3 else None
    empty = "(%s, %s)" % (seam, seam)
    blk = T.peel(b["tree"])
    while blk.get("k") == "blockexpr":
        blk = blk["block"]
    cands = [T.peel(n["e"]) for n in T.nodes(b["tree"], "ret") if n.get("e") is not None]
    if blk.get("tail") is not None:
        cands.append(T.peel(blk["tail"]))
    tuples = [x for c_ in cands for x in T.nodes(c_) if x.get("k") == "tuple" and len(x.get("es", [])) == 2]
    if any(T.render(x) != empty for x in tuples):
        res.holds(rule, fn, "found-is-returned")
    else:
        res.add(Finding(rule, fn, "found-is-returned", "no return of IndentRemover hands back the indentation that the scan found: the tag line's indentation is never removed", loc=T.loc(b["tree"])))


def indent_begins_behind_break(ctx, res, rule):
    """IndentRemover: the indentation that is deleted begins directly behind the line break that was found - the line break
    itself stays (whole lines are deleted, lines are not joined)."""
    _indent_remover_table(ctx, res, rule, mode="begin")


def _indent_remover_table(ctx, res, rule, mode="bytes"):
    """mode "bytes": which bytes the scan may pass / accept (deleting a line break is still deleting white space);
    mode "begin": only where the reported indentation begins."""
    P = ctx.lib
    b = P.fn("IndentRemover::format")
    fn = fshort(b)
    loops = [n for n in T.nodes(b["tree"], "loop")]
    if len(loops) != 1:
        res.cannot(rule, fn, "loop", "expected one inline scan loop in IndentRemover::format", T.loc(b["tree"]))
        return
    loop = loops[0]
    seam = b["params"][2]["pat"].get("name") if len(b["params"]) == 3 else "?"     # format(&self, content, byte_pos)
    scan_id = scan_name = None
    for s_ in T.nodes(b["tree"], "let"):
        if s_["pat"]["p"] == "bind" and s_.get("init") is not None and T.render(s_["init"]) == seam and "Mut" in s_["pat"].get("mode", ""):
            scan_id, scan_name = s_["pat"]["id"], s_["pat"]["name"]
    lits = _literal_bytes(b) | {32, 9, 10}
    classes = [A.Lit(x, "byte") for x in sorted(lits)] + [A.CharClass(None, excluded=lits), None]
    n_ok = 0
    for cls in classes:
        for boundary in (True, False):
            examined = []
            I = A.Interp(P, models=_byte_models(cls, boundary, examined))
            I.lazy_locals = True
            def one_iteration(J):
                env = {}
                # `while c { body }`: the condition is part of the iteration
                if "while_cond" in loop and not J.cond(loop["while_cond"], env):
                    raise A._Break(None)
                try:
                    return J.ev(loop["body"], env)
                finally:
                    # where the scan variable stands when the iteration ends (by whatever exit)
                    J.effects.append(("final", A.show(env[scan_id]) if scan_id in env else scan_name, [], loop))
            try:
                outs = I.explore(one_iteration)
            except A.Cannot as e:
                res.cannot(rule, fn, "loop-body", str(e), T.loc(loop))
                return
            cname_ = A.show(cls) if cls is not None else "<out of range>"
            for o in outs:
                key = "%s|boundary=%d" % (cname_, boundary)
                is_blank = isinstance(cls, A.Lit) and cls.v in (32, 9)
                is_nl = isinstance(cls, A.Lit) and cls.v == 10
                bad = None
                bad_begin = None
                ex_terms = [e[1] for e in o["effects"] if e[0] == "examine"]
                ret_range = None
                if o["exit"] == "return" and isinstance(o["value"], A.Tuple) and len(o["value"].items) == 2:
                    ret_range = (A.show(o["value"].items[0]), A.show(o["value"].items[1]))
                if ret_range is not None and ret_range[1] == seam and ex_terms and ret_range[0] == "(%s + 1)" % ex_terms[-1]:
                    # `return (p + 1, seam)` from inside the loop, p the examined position: the found outcome
                    outcome = "found"
                    if not (is_nl and boundary):
                        bad = "accepts byte %s (boundary=%s) as the line break that precedes the indentation" % (cname_, boundary)
                elif ret_range is not None and ret_range[1] == seam and ex_terms and ret_range[0] == ex_terms[-1] and is_nl and boundary:
                    # `return (p, seam)`: white space only, but the line break that was found goes as well
                    outcome = "found"
                    bad_begin = "returns the range %s..%s, which begins at the line break itself, not directly behind it: the line break is deleted and two lines are joined" % ret_range
                elif ret_range is not None and ret_range != (seam, seam):
                    outcome = "stop"
                    bad = "returns the range %s..%s, which is neither empty nor (examined line break + 1)..seam" % ret_range
                elif o["exit"] == "break" and ((isinstance(o["value"], A.Lit) and o["value"].v is True) or (isinstance(o["value"], A.Variant) and o["value"].name == "Some")):
                    # `break true` (the indentation then starts where the scan variable stands) or `break Some(start of the indentation)`
                    outcome = "found"
                    final = [e[1] for e in o["effects"] if e[0] == "final"]
                    begins = A.show(o["value"].args[0]) if isinstance(o["value"], A.Variant) else (final[-1] if final else "?")
                    at_start = any(k in ("ord(0, cursor)", "ord(cursor, 0)") and v == "=" for k, v in o["decisions"].items()) and not any(e[0] == "examine" for e in o["effects"])
                    if at_start:
                        # the start of the file is a line start: nothing is examined, nothing non-blank is skipped
                        if begins not in (scan_name, "0"):
                            bad = "reports the indentation as beginning at %s at the start of the file" % begins
                    elif not examined or not (is_nl and boundary):
                        bad = "accepts byte %s (boundary=%s) as the line break that precedes the indentation" % (cname_, boundary)
                    elif not ex_terms or begins not in ("(%s + 1)" % ex_terms[-1], ex_terms[-1]):
                        bad = "reports the indentation as beginning at %s, which is not the line break found at %s or the byte behind it" % (begins, ex_terms[-1] if ex_terms else "?")
                    elif begins != "(%s + 1)" % ex_terms[-1]:
                        bad_begin = "reports the indentation as beginning at %s, the line break itself, not directly behind it: the line break is deleted and two lines are joined" % begins
                elif o["exit"] == "break" and not (o["value"] is None or A.show(o["value"]) == "()" or (isinstance(o["value"], A.Lit) and o["value"].v in (False, None)) or (isinstance(o["value"], A.Variant) and o["value"].name == "None")):
                    outcome = "stop"
                    bad = "leaves the scan with the value %s, which is neither found (true / Some(start)) nor not-found (false / None)" % A.show(o["value"])
                elif o["exit"] in ("fall", "continue"):
                    outcome = "advance"
                    final = [e[1] for e in o["effects"] if e[0] == "final"]
                    if examined and boundary and not is_blank:
                        bad = "skips over byte %s (only ' ' and '\\t' are indentation)" % cname_
                    elif scan_name and final and final[-1] != "(%s - 1)" % scan_name:
                        bad = "goes on to the next iteration with the scan position at `%s`, not one byte further back (`%s - 1`)" % (final[-1], scan_name)
                else:
                    outcome = "stop"
                if mode == "begin":
                    if bad_begin:
                        res.add(Finding(rule, fn, "begin:" + key, "inline indentation scan %s" % bad_begin, loc=T.loc(loop)))
                    elif outcome == "found":
                        n_ok += 1
                        res.holds(rule, fn, "begin:%s" % key)
                    continue
                if bad:
                    res.add(Finding(rule, fn, "table:" + key, "inline indentation scan %s" % bad, loc=T.loc(loop)))
                else:
                    n_ok += 1
                    res.holds(rule, fn, "table:%s->%s" % (key, outcome))
    if mode == "begin":
        res.floor(rule, "found outcomes of the IndentRemover scan", n_ok, 1)
        return
    res.floor(rule, "rows of the IndentRemover inline scan table", n_ok, 8)


# ------------------------------------------------------------------------------------------------ R5 pausing call sites

REVIEWED_NON_PAUSING = {
    # (function, callee) : reason
    ("BlockIndentRemover::format", "find_next_line_break_pos"): "line walk: the result is only the loop cursor; deleted ranges are bounded by min(_, first non-blank) (R6)",
    ("BlockIndentRemover::format", "find_prev_line_break_pos"): "measures indentation widths (amounts); every deleted range of this function is bounded by min(_, first non-blank) (R6b), whatever the amount",
    ("code::formatter::block_indent_remover::get_indent_len", "find_prev_line_break_pos"): "result feeds a *count* of blanks, never a range endpoint",
    ("UnwrapBlockMarkerBuilder::build", "find_next_line_break_pos"): "wrapper lines are removed whole by definition of unwrap-block",
    ("UnwrapBlockMarkerBuilder::build", "find_prev_line_break_pos"): "wrapper lines are removed whole by definition of unwrap-block",
    ("code::list::build_pretty_string_item", "find_prev_line_break_pos"): "listing only: nothing is deleted",
    ("code::list::build_pretty_string_item", "find_next_line_break_pos"): "listing only: nothing is deleted",
}


def _only_counted(b, call):
    """The position returned by a non-pausing scan is harmless if no range can be built from it: every local derived from it
    (through lets, `map` / `unwrap_or` closures, arithmetic) is used only inside arguments of the blank counters
    (`blank_counter::count*`, whose result is a number of blanks, not a position), in comparisons, or as the start of a further
    *pausing / first-non-blank* scan - and never inside a range literal, a pushed or returned value."""
    def sanitizer(n):
        return n.get("k") == "call" and "blank_counter::count" in T.short_path(T.callee(n) or "")
    lets = [s_ for s_ in T.nodes(b["tree"], "let") if s_.get("init") is not None]
    tainted = set()

    def mentions(e, skip_sanitized=True):
        for x, par in T.walk(e):
            if skip_sanitized and any(sanitizer(p_) for p_ in par):
                continue
            if x is call:
                return True
            if x.get("k") == "path" and T.local_of(x) in tainted:
                return True
        return False
    changed = True
    while changed:
        changed = False
        for s_ in lets:
            if mentions(s_["init"]):
                for x in T.pat_nodes(s_["pat"]):
                    if x.get("p") == "bind" and x["id"] not in tainted:
                        tainted.add(x["id"])
                        changed = True
        # closure parameters of combinators applied to a tainted value
        for n in T.nodes(b["tree"], "mcall"):
            if n["name"] in ("map", "and_then", "map_or", "unwrap_or_else", "filter", "is_some_and") and mentions(n["recv"]):
                for a in n["args"]:
                    a_ = T.peel(a)
                    if a_.get("k") == "closure":
                        for p_ in a_["params"]:
                            for x in T.pat_nodes(p_["pat"]):
                                if x.get("p") == "bind" and x["id"] not in tainted:
                                    tainted.add(x["id"])
                                    changed = True
        for n in T.nodes(b["tree"]):
            if n.get("k") in ("assign", "assign_op") and mentions(n["r"]):
                lid = T.local_of(T.peel_ref(n["l"]))
                if lid is not None and lid not in tainted:
                    tainted.add(lid)
                    changed = True
    idx_ranges = {id(T.peel(x["idx"])) for x in T.nodes(b["tree"], "index")}
    for n in T.nodes(b["tree"]):
        k = n.get("k")
        if k == "struct" and {f["name"] for f in n["fields"]} == {"start", "end"} and id(n) not in idx_ranges and mentions(n):
            return False
        if k == "ret" and n.get("e") is not None and mentions(n["e"]):
            return False
        if k == "mcall" and n["name"] in ("push", "extend", "insert") and any(mentions(a) for a in n["args"]):
            return False
    blk = T.peel(b["tree"])
    while blk.get("k") == "blockexpr":
        blk = blk["block"]
    if blk.get("tail") is not None and mentions(blk["tail"]):
        return False
    return True


def pausing_sites(ctx, res, rule):
    P = ctx.lib
    pausing = 0
    for b in P.user_bodies():
        if b["kind"] not in ("Fn", "AssocFn"):
            continue
        fn = fshort(b)
        for n in T.nodes(b["tree"], "call"):
            c = T.callee(n)
            if not c or T.short_path(c).split("::")[-1] not in SCANNERS:
                continue
            callee_name = T.short_path(c).split("::")[-1]
            if len(n["args"]) != 4:
                res.cannot(rule, fn, "site:" + T.render(n)[:60], "scanner called with %d arguments" % len(n["args"]), T.loc(n))
                continue
            flag = T.lit_value(n["args"][3])
            site = "%s(.., %s, %s)" % (callee_name, T.render(n["args"][2]), T.render(n["args"][3]))
            if flag is True:
                pausing += 1
                res.holds(rule, fn, site, "pausing")
            elif (fn, callee_name) in REVIEWED_NON_PAUSING and flag is False:
                res.holds(rule, fn, site, "reviewed exception: " + REVIEWED_NON_PAUSING[(fn, callee_name)])
            elif flag is False and _only_counted(b, n):
                res.holds(rule, fn, site, "the result only reaches a count of blanks (blank_counter), never a range endpoint")
            else:
                res.add(Finding(rule, fn, site, "scanner called with pause_on_char=%s where a deleted range is derived from the result: it would run "
                                "across non-blank text" % T.render(n["args"][3]), loc=T.loc(n)))
    res.floor(rule, "pausing scanner call sites in formatters", pausing, 9)


# ------------------------------------------------------------------------------------------------ R6 bounded ranges

def _split_args(s):
    out, depth, cur = [], 0, ""
    for ch in s:
        if ch in "([{":
            depth += 1
        if ch in ")]}":
            depth -= 1
        if ch == "," and depth == 0:
            out.append(cur.strip())
            cur = ""
        else:
            cur += ch
    if cur.strip():
        out.append(cur.strip())
    return out


_SCAN = re.compile(r"^(find_next_line_break_pos|find_prev_line_break_pos)\((.*)\)\.some$")


def pos_kind(term, seam, guards):
    """Classify a term as an allowed endpoint: 'seam', 'scan' (pausing scanner result, sits on a line break),
    'scan+1', 'seam+1' (only under an ASCII guard on the seam byte), or None."""
    term = term.strip()
    if term == seam:
        return "seam"
    m = re.match(r"^\((.*) \+ 1\)$", term)
    if m:
        inner = m.group(1)
        k = pos_kind(inner, seam, guards)
        if k == "scan":
            return "scan+1"
        if k == "seam" and guards.get("seam_is_newline"):
            return "seam+1"
        return None
    m = _SCAN.match(term)
    if m:
        args = _split_args(m.group(2))
        if len(args) == 4 and args[3] == "true" and args[1] in ("bytes", "content.as_bytes()", "%s.as_bytes()" % args[0]):
            if pos_kind(args[2], seam, guards) is not None:
                return "scan"
    return None


def seam_ranges(ctx, res, rule):
    P = ctx.lib
    n_ok = 0
    for name in SEAM_FORMATTERS:
        b = P.fn(name)
        fn = fshort(b)
        loc = T.loc(b["tree"])
        if name == "IndentRemover::format":
            n_ok += _indent_remover_ranges(res, rule, P, b)
            continue
        I = A.Interp(P)
        try:
            outs = I.explore(lambda J: J.call_fn_body(b, [A.Sym("self"), A.Sym("content"), A.Sym("byte_pos")]))
        except A.Cannot as e:
            res.cannot(rule, fn, "body", str(e), loc)
            continue
        for o in outs:
            if o["exit"] == "panic":
                continue
            v = o["value"]
            if not isinstance(v, A.Tuple) or len(v.items) != 2:
                res.cannot(rule, fn, "return-shape", A.show(v)[:100], loc)
                continue
            guards = {"seam_is_newline": _path_says_newline(o["decisions"], "byte_pos")}
            ends = [A.show(x) for x in v.items]
            kinds = [pos_kind(t, "byte_pos", guards) for t in ends]
            site = "return:(%s, %s)" % tuple(_abbr(t) for t in ends)
            if None in kinds:
                bad = ends[kinds.index(None)]
                res.add(Finding(rule, fn, site, "range endpoint `%s` is not the seam, a pausing-scanner result, or such a position + 1 on a line break: "
                                "the deleted range is not bounded by whitespace" % bad[:200], loc=loc))
            else:
                n_ok += 1
                res.holds(rule, fn, site, "/".join(kinds))
    res.floor(rule, "whitespace-bounded return paths of the seam formatters", n_ok, 8)


def _abbr(t):
    t = t.replace("content.as_bytes()", "bytes").replace("content, ", "")
    return t[:90]


def _path_says_newline(decisions, seam):
    for k, v in decisions.items():
        if k in ("eq(Some(10), content.as_bytes().get(%s))" % seam, "eq(Some(10), bytes.get(%s))" % seam, "eq(bytes.get(%s), Some(10))" % seam,
                 "eq(content.as_bytes().get(%s), Some(10))" % seam) and v is True:
            return True
        if k in ("eq(10, content.as_bytes()[%s])" % seam, "eq(content.as_bytes()[%s], 10)" % seam) and v is True:
            return True
        # the same test on the text itself: the remainder of the content starts with the line break
        if k in ("content[%s..].starts_with('\\n')" % seam, "content.get(%s..).some.starts_with('\\n')" % seam) and v is True:
            return True
    return False


def _indent_remover_ranges(res, rule, P, b):
    """Returns of IndentRemover::format are (byte_pos, byte_pos) or (cursor, byte_pos) with cursor the scan variable."""
    fn = fshort(b)
    rets = []
    in_loop = {id(x) for lp in T.nodes(b["tree"], "loop") for x in T.nodes(lp)}
    for n in T.nodes(b["tree"]):
        if n.get("k") == "ret" and n.get("e") is not None and id(n) not in in_loop:     # returns inside the scan loop: table rule (R4)
            rets.append(T.peel(n["e"]))
    blk = T.peel(b["tree"])
    while blk.get("k") == "blockexpr":
        blk = blk["block"]
    if blk.get("tail") is not None and not (T.peel(blk["tail"]).get("k") == "loop" and not [x for x in T.nodes(T.peel(blk["tail"]), "break") if x.get("e") is not None]):
        rets.append(T.peel(blk["tail"]))        # (a scan loop as the tail that is only left by `return`: its returns are rows of the table rule)
    # the scan variable: the local initialised from byte_pos and stepped in the loop
    scan = None
    seam = b["params"][2]["pat"].get("name") if len(b["params"]) == 3 else None     # format(&self, content, byte_pos)
    for s in T.nodes(b["tree"], "let"):
        if s["pat"]["p"] == "bind" and s.get("init") is not None and T.render(s["init"]) == seam and "Mut" in s["pat"].get("mode", ""):
            scan = s["pat"]["name"]
    def leaves(e):
        e = T.peel(e)
        if e.get("k") == "match":
            return [x for a_ in e["arms"] for x in leaves(a_["body"])]
        if e.get("k") == "if" and e.get("els") is not None:
            return leaves(e["then"]) + leaves(e["els"])
        if e.get("k") == "blockexpr" and e["block"].get("tail") is not None and not e.get("label"):
            return leaves(e["block"]["tail"])
        return [e]
    rets = [x for r in rets for x in leaves(r)]
    ok = 0

    def from_scan_result(r):
        """`(x, seam)` with x bound by a `Some(x)` pattern over the scan written as a value-yielding block / re-inlined helper
        whose `Some(..)` payloads are the scan cursor or the cursor + 1 (the byte behind the line break that was found)."""
        if not (r.get("k") == "tuple" and len(r["es"]) == 2 and T.render(r["es"][1]) == seam and T.local_of(r["es"][0]) is not None and scan):
            return False
        xid = T.local_of(r["es"][0])
        for n_ in T.nodes(b["tree"]):
            scr = None
            if n_.get("k") == "match":
                for a_ in n_["arms"]:
                    pt = a_["pat"]
                    if pt.get("p") == "tuple_struct" and (pt["res"].get("path") or "").endswith("Some") and len(pt["pats"]) == 1 \
                            and pt["pats"][0].get("p") == "bind" and pt["pats"][0]["id"] == xid and any(x is r for x in T.nodes(a_["body"])):
                        scr = n_["scrut"]
            elif n_.get("k") == "let_cond":
                pt = n_["pat"]
                if pt.get("p") == "tuple_struct" and (pt["res"].get("path") or "").endswith("Some") and len(pt["pats"]) == 1 \
                        and pt["pats"][0].get("p") == "bind" and pt["pats"][0]["id"] == xid:
                    scr = n_["e"]
            if scr is None:
                continue
            if T.local_of(T.peel(scr)) is not None:
                # the scan's result was given a name first: `let found = loop { .. break Some(cursor + 1) .. }; match found { .. }`
                defs = [s_ for s_ in T.nodes(b["tree"], "let") if s_["pat"].get("p") == "bind" and s_["pat"]["id"] == T.local_of(T.peel(scr))
                        and "Mut" not in (s_["pat"].get("mode") or "") and s_.get("init") is not None]
                if len(defs) != 1:
                    return False
                scr = defs[0]["init"]
            payloads = [T.render(T.peel(c_["args"][0])) for c_ in T.nodes(scr, "call")
                        if (T.callee(c_) or "").endswith("Some") and len(c_.get("args", [])) == 1]
            return bool(payloads) and all(p_ in (scan, "(%s + 1)" % scan) for p_ in payloads)
        return False
    for r in rets:
        txt = T.render(r)
        if txt in ("(%s, %s)" % (seam, seam),) or (scan and txt == "(%s, %s)" % (scan, seam)) or from_scan_result(r):
            ok += 1
            res.holds(rule, fn, "return:" + txt)
        else:
            res.add(Finding(rule, fn, "return:" + txt[:80], "IndentRemover returns a range that is not (scan cursor, seam) / empty", loc=T.loc(r)))
    # the scan variable is only stepped by 1 (checked in the table rule) and never assigned otherwise
    return ok


def newline_test(cond, pos):
    """True: cond holds iff the byte at `pos` is '\\n'; False: iff it is not; None: something else."""
    c = T.peel(cond)
    if c.get("k") == "unary" and c.get("op") == "!":
        r = newline_test(c["e"], pos)
        return None if r is None else (not r)
    if c.get("k") != "binary" or c["op"] not in ("==", "!="):
        return None
    for a, b_ in ((c["l"], c["r"]), (c["r"], c["l"])):
        a, b_ = T.peel(a), T.peel(b_)
        is_get = a.get("k") == "mcall" and a["name"] == "get" and T.render(a["args"][0]).lstrip("*&") == pos and "[u8]" in (a["recv"].get("aty") or a["recv"].get("ty") or "")
        is_idx = a.get("k") == "index" and T.render(a["idx"]).lstrip("*&") == pos and "u8" in (a.get("ty") or "")
        if is_get and b_.get("k") == "call" and T.render(b_["f"]).endswith("Some") and T.lit_value(T.peel_ref(b_["args"][0])) == 10:
            return c["op"] == "=="
        if is_idx and T.lit_value(T.peel_ref(b_)) == 10:
            return c["op"] == "=="
    return None


def block_ranges(ctx, res, rule):
    """BlockIndentRemover: both endpoints of every range are min(_, first non-blank of the line).  The range may be built in
    `format` itself or in a private helper of the same module that `format` calls with the line start."""
    P = ctx.lib
    b = P.fn("BlockIndentRemover::format")
    fn = fshort(b)
    loc = T.loc(b["tree"])
    pushes = [n for n in T.nodes(b["tree"], "mcall") if n["name"] == "push" and "Range<usize>" in (n["recv"].get("ty") or "") + (n["recv"].get("aty") or "")]
    res.floor(rule, "range pushes in BlockIndentRemover::format", len(pushes), 1)
    src_file = (b["tree"].get("sp") or [None])[0]

    def lets_of(body):
        return {s["pat"]["id"]: s for s in T.nodes(body["tree"], "let") if s["pat"]["p"] == "bind"}

    def defn_in(lets, lid):
        s = lets.get(lid)
        return T.peel(s["init"]) if s is not None and s.get("init") is not None else None

    # the function that builds the ranges: `format` itself, or the helper called from it that contains the first-non-blank scan
    def scan_calls(body):
        return [n for n in T.nodes(body["tree"], "call") if T.short_path(T.callee(n) or "").endswith("find_next_char_pos")]
    builder, line_start_local = None, None
    if scan_calls(b):
        builder = b
        line_start_local = T.local_of(T.peel_ref(scan_calls(b)[-1]["args"][2]))
    else:
        for c in T.nodes(b["tree"], "call"):
            h = P.bodies.get(T.callee(c) or "")
            if h is None or (h["tree"].get("sp") or [0])[0] != src_file or not scan_calls(h):
                continue
            hl = T.local_of(T.peel_ref(scan_calls(h)[-1]["args"][2]))
            idx = [k for k, p_ in enumerate(h["params"]) if p_["pat"]["p"] == "bind" and p_["pat"]["id"] == hl]
            if len(idx) == 1:
                builder = h
                line_start_local = T.local_of(T.peel_ref(c["args"][idx[0]]))
    if builder is None:
        res.cannot(rule, fn, "first-non-blank-scan", "no call of find_next_char_pos in format or in a helper of its module called with the line start", loc)
        return
    bfn = fshort(builder)
    lets = lets_of(builder)
    if builder is b:
        sites = []
        idx_ranges = {id(T.peel(x["idx"])) for x in T.nodes(b["tree"], "index")}
        literals = [n for n in T.nodes(b["tree"], "struct") if {f["name"] for f in n["fields"]} == {"start", "end"}
                    and "Range" in (n["res"].get("path") or n.get("ty") or "") and id(n) not in idx_ranges]
        for pu in pushes:
            arg = T.peel(pu["args"][0])
            if arg.get("k") == "struct" and {f["name"] for f in arg["fields"]} == {"start", "end"}:
                sites.append((arg, pu))
                continue
            # a local bound from an expression that builds the range (`if let Some(range) = { .. then_some(start..end) }`,
            # the shape an extracted-and-inlined helper leaves behind): every range literal inside that expression is judged
            lid = T.local_of(arg)
            src = None
            for n in T.nodes(b["tree"]):
                if n.get("k") in ("let", "let_cond") and (n.get("init") or n.get("e")) is not None and any(x.get("p") == "bind" and x.get("id") == lid for x in T.pat_nodes(n["pat"])):
                    src = n.get("init") or n.get("e")
            inner = [l_ for l_ in literals if src is not None and any(x is l_ for x in T.nodes(src))]
            if lid is None or not inner:
                res.cannot(rule, fn, "push:" + T.render(arg), "pushed value is not a range literal", T.loc(pu))
                continue
            sites += [(l_, pu) for l_ in inner]
    else:
        sites = [(n, n) for n in T.nodes(builder["tree"], "struct") if {f["name"] for f in n["fields"]} == {"start", "end"} and "Range" in (n["res"].get("path") or n.get("ty") or "")]
        for pu in pushes:
            # what is pushed in format must come from the helper (directly or through `if let Some(range) = helper(..)`)
            arg = T.peel(pu["args"][0])
            okp = False
            if arg.get("k") == "call" and T.callee(arg) == builder["def_path"]:
                okp = True
            lid = T.local_of(arg)
            if lid is not None:
                for n in T.nodes(b["tree"]):
                    if n.get("k") in ("let_cond", "let") and (n.get("init") or n.get("e")) is not None:
                        ini = T.peel(n.get("init") or n.get("e"))
                        if ini.get("k") == "call" and T.callee(ini) == builder["def_path"] and any(x.get("p") == "bind" and x.get("id") == lid for x in T.pat_nodes(n["pat"])):
                            okp = True
            if not okp:
                res.cannot(rule, fn, "push:" + T.render(arg), "pushed value is neither a range literal nor the result of the range-building helper", T.loc(pu))
        res.floor(rule, "range literals in " + bfn, len(sites), 1)
    for arg, at in sites:
        site = "push:" + T.render(arg)
        ends = {f["name"]: T.peel(f["e"]) for f in arg["fields"]}
        firsts = []
        okk = True
        for nm, e in ends.items():
            d = defn_in(lets, T.local_of(e)) if T.local_of(e) is not None else e
            if d is None or T.min_args(d) is None:
                res.add(Finding(rule, bfn, site + ":" + nm, "endpoint `%s` of a dedent range is not clamped with min(_, first non-blank of the line): "
                                "non-blank characters could be deleted" % T.render(e), loc=T.loc(at)))
                okk = False
                continue
            firsts.append(T.render(T.min_args(d)[1]))
        if not okk:
            continue
        if len(set(firsts)) != 1:
            res.add(Finding(rule, bfn, site, "start and end are clamped by different bounds: %s" % firsts, loc=T.loc(at)))
            continue
        # the bound is the payload of find_next_char_pos(content, bytes, L) where L is the line start used for `start`
        bound_src = scan_calls(builder)[-1]
        bname = firsts[0]
        bound_ok = False
        for n in T.nodes(builder["tree"]):
            src_ = (n.get("init") or n.get("e")) if n.get("k") in ("let", "let_cond") else None
            if src_ is not None and T.peel(src_).get("k") == "match":
                # `let x = call(..)?;` is `match Try::branch(call(..)) { Continue(val) => val, Break(r) => return .. }`
                sc = T.peel(T.peel(src_)["scrut"])
                if sc.get("k") == "call" and (T.cname(sc) or "").endswith("Try::branch") and T.peel(sc["args"][0]) is bound_src:
                    src_ = bound_src
            if src_ is not None and T.peel(src_) is bound_src:
                if any(x.get("p") == "bind" and x.get("name") == bname for x in T.pat_nodes(n["pat"])):
                    bound_ok = True
        # (`if let Some(indent_pos) = indent_pos` where indent_pos = find_next_char_pos(..) binds through a local)
        for s_ in lets.values():
            if s_.get("init") is not None and T.peel(s_["init"]) is bound_src:
                outer = s_["pat"]["id"]
                for n in T.nodes(builder["tree"]):
                    if n.get("k") in ("let_cond", "let") and (n.get("init") or n.get("e")) is not None and T.local_of(T.peel(n.get("init") or n.get("e"))) == outer:
                        if any(x.get("p") == "bind" and x.get("name") == bname for x in T.pat_nodes(n["pat"])):
                            bound_ok = True
                if s_["pat"]["name"] == bname and not (s_.get("pty") or "").startswith("std::option::Option"):
                    bound_ok = True
        if not bound_ok:
            res.add(Finding(rule, bfn, site, "the clamp bound `%s` is not the position returned by find_next_char_pos" % bname, loc=T.loc(at)))
            continue
        sd = defn_in(lets, T.local_of(ends["start"])) if T.local_of(ends["start"]) is not None else ends["start"]
        line_start = T.render(bound_src["args"][2])
        start_first = T.render(T.min_args(sd)[0]) if sd is not None and T.min_args(sd) is not None else ""
        if not start_first.startswith("(%s + " % line_start):
            res.add(Finding(rule, bfn, site, "the clamp is not anchored at the same line start as the range (`%s` vs scan from `%s`)" % (start_first, line_start), loc=T.loc(at)))
            continue
        res.holds(rule, bfn, site, "min(%s, first-non-blank(%s))" % (start_first, line_start))
    # line starts: the line-start variable of `format` begins at start_byte_pos + 1 (under the newline guard); later values are
    # (line break + 1), which the unit typestate of C01/C07 classifies
    blets = lets_of(b)
    if line_start_local is None or line_start_local not in blets:
        res.cannot(rule, fn, "first-line-start", "the line start handed to the first-non-blank scan is not a local of format", loc)
        return
    for n in T.nodes(b["tree"], "assign"):
        if T.local_of(n["l"]) == line_start_local:
            res.holds(rule, fn, "line-start-assign:" + T.render(n["r"]))
    init = defn_in(blets, line_start_local)
    hops = 0
    while init is not None and T.local_of(init) is not None and hops < 4:
        s_ = blets.get(T.local_of(init))
        if s_ is None or "Mut" in s_["pat"].get("mode", ""):
            break
        init = defn_in(blets, T.local_of(init))
        hops += 1
    seam = b["params"][2]["pat"].get("name") if len(b["params"]) == 4 else "?"     # format(&self, content, start, end)
    if init is not None and T.render(init) == "(%s + 1)" % seam:
        # requires the early return unless bytes[start_byte_pos] == '\n'
        guard = False
        for n in T.nodes(b["tree"], "if"):
            pol = newline_test(n["cond"], seam)
            # `if <not newline> { return .. }` dominating the rest of the body
            if pol is False and any(x.get("k") == "ret" for x in T.nodes(n["then"])) and n.get("els") is None:
                guard = True
        if guard:
            res.holds(rule, fn, "first-line-start", "start_byte_pos + 1 under `bytes.get(start_byte_pos) == '\\n'`")
        else:
            res.add(Finding(rule, fn, "first-line-start", "`start_byte_pos + 1` is used as a line start without establishing that the seam byte is the line break", loc=loc))
    elif init is not None:
        res.add(Finding(rule, fn, "first-line-start", "first line start is `%s`, expected the byte after the seam line break" % T.render(init), loc=loc))
    else:
        res.cannot(rule, fn, "first-line-start", "initial value of the line-start variable not found", loc)


# ------------------------------------------------------------------------------------------------ byte 0 (C12.R3 / C16.R3)

def byte0_examined(ctx, res, rule):
    """In a backward scan, the exit on `cursor == 0` must not precede the examination of index 0."""
    P = ctx.lib
    b = P.fn("find_prev_line_break_pos")
    cb = P.fn("line_break_pos_finder::check", required=False)
    fn = fshort(b)
    sl = scan_loop(b)
    if sl is None:
        res.cannot(rule, fn, "loop", "expected one scan loop", T.loc(b["tree"]))
        return
    loop = sl["node"]
    if sl["form"] == "for":
        # `for cursor in (0..hi).rev()`: index 0 is visited iff the range starts at the literal 0; every path through the
        # body must examine the loop variable before it leaves
        if not sl["rev"]:
            res.add(Finding(rule, fn, "byte0-examined", "the backward scan iterates a range that is not reversed", loc=T.loc(loop)))
            return
        if sl["lo"] is None or T.lit_value(sl["lo"]) != 0:
            res.add(Finding(rule, fn, "byte0-examined", "the backward scan iterates `%s`, which does not start at index 0: a line break at the very "
                            "start of the file is never found" % T.render(loop["iter"]), loc=T.loc(loop)))
            return
        npaths = nbad = 0
        for cls in (A.Lit(10, "byte"), A.Lit(32, "byte"), A.CharClass(None, excluded={10, 32, 9})):
            for pause in (True, False):
                examined = []
                I = A.Interp(P, inline=[cb["def_path"]] if cb else [], models=_byte_models(cls, True, examined))
                I.lazy_locals = True

                def run_for(J):
                    env = {}
                    for p in b["params"]:
                        if p["pat"]["p"] == "bind":
                            env[p["pat"]["id"]] = A.Lit(pause) if p["pat"]["name"] == "pause_on_char" else A.Sym(p["pat"]["name"], p["ty"])
                    env[sl["var"]["id"]] = A.Sym(sl["var"]["name"], "usize")
                    return J.ev(loop["body"], env)
                try:
                    outs = I.explore(run_for)
                except A.Cannot as e:
                    res.cannot(rule, fn, "loop-body", str(e), T.loc(loop))
                    return
                for o in outs:
                    npaths += 1
                    if not any(e[0] == "examine" and e[1] == sl["var"]["name"] for e in o["effects"]):
                        nbad += 1
        if nbad or not npaths:
            res.add(Finding(rule, fn, "byte0-examined", "the backward scan can leave an iteration without examining the byte it stands on (%d of %d paths)" % (nbad, npaths), loc=T.loc(loop)))
        else:
            res.holds(rule, fn, "byte0-examined", "for over (0..hi).rev(): all %d body paths examine the loop variable" % npaths)
        return
    paths = 0
    bad = 0
    for cls in (A.Lit(10, "byte"), A.Lit(32, "byte"), A.CharClass(None, excluded={10, 32, 9})):
        for pause in (True, False):
            examined = []
            I = A.Interp(P, inline=[cb["def_path"]] if cb else [], models=_byte_models(cls, True, examined))
            I.lazy_locals = True

            def run(J):
                env = {}
                for p in b["params"]:
                    if p["pat"]["p"] == "bind":
                        env[p["pat"]["id"]] = A.Lit(pause) if p["pat"]["name"] == "pause_on_char" else A.Sym(p["pat"]["name"], p["ty"])
                # the scan variable starts as a symbol `cursor`
                return J.ev(loop["body"], env)
            try:
                outs = I.explore(run)
            except A.Cannot as e:
                res.cannot(rule, fn, "loop-body", str(e), T.loc(loop))
                return
            for o in outs:
                at_zero = None
                in_range = True
                for k, v in o["decisions"].items():
                    if k == "ord((cursor - 1), 0)":
                        at_zero = (v == "=")
                    if k == "ord((cursor - 1), bytes.len())" and v in ("=", ">"):
                        in_range = False
                if at_zero is True and in_range:
                    paths += 1
                    # on this path the scan stands on byte 0 of a non-empty buffer
                    # (examined is shared per exploration: non-empty iff bytes.get was reached on some path; re-run precisely)
                    reached = any(e[0] == "examine" and e[1] == "(cursor - 1)" for e in o["effects"])
                    if not reached:
                        bad += 1
    if paths == 0:
        res.cannot(rule, fn, "byte0", "no path on which the backward scan stands on index 0 was found (atoms changed?)", T.loc(loop))
        return
    if bad:
        res.add(Finding(rule, fn, "byte0-examined", "the backward scan leaves on `cursor == 0` without examining byte 0 (%d of %d paths): a line break at the very "
                        "start of the file is never found" % (bad, paths), loc=T.loc(loop)))
    else:
        res.holds(rule, fn, "byte0-examined", "%d paths standing on index 0 all examine the byte" % paths)


def _path_examined(o):
    # the inlined check() consults is_char_boundary / bytes.get through models, which leave no effect;
    # a path examined the byte iff its outcome depends on the class: it either reports, or continues, or the
    # decision list contains nothing after the range test.  We mark examination explicitly instead:
    return o.get("examined", False)
