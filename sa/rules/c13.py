"""C13 - block-style removal: the local decisions of the seam formatters (clauses; blank-line arithmetic is not decided)."""
import re

from .. import absint as A
from .. import dt
from .. import tree as T
from ..report import Finding
from . import deletion, fshort, intervals

LEVEL = "other"

C = "content, content.as_bytes(), "
FN1 = "is_some(find_next_line_break_pos(%sbyte_pos, true))" % C
FN2 = "is_some(find_next_line_break_pos(%s(find_next_line_break_pos(%sbyte_pos, true).some + 1), true))" % (C, C)
FP1 = "is_some(find_prev_line_break_pos(%sbyte_pos, true))" % C
FP2 = "is_some(find_prev_line_break_pos(%sfind_prev_line_break_pos(%sbyte_pos, true).some, true))" % (C, C)
NL = "eq(Some(10), content.as_bytes().get(byte_pos))"
NL2 = "content[byte_pos..].starts_with('\\n')"
BND = "content.is_char_boundary(byte_pos)"


def run(ctx, res):
    P = ctx.lib
    res.explanation = (
        "The number of blank lines that remain is arithmetic over the layout and is NOT decided.  Decided are the local "
        "decisions that the formula rests on, each extracted exhaustively by abstract interpretation and compared with the "
        "anchored mechanism: R1 the range tidied at a seam is the hull of the four seam formatters (IndentRemover, "
        "EmptyLineRemover, PrevLineBreakRemover, NextLineBreakRemover), each called at the seam position; R2 IndentRemover "
        "treats the start of the file as a line start (path rule on its backward scan: reaching offset 0 over blanks only "
        "means the indentation of the tag line is found); R3 EmptyLineRemover removes the residual line break exactly when "
        "the seam stands on a line break and neither the next nor the previous line is blank (complete table over six atoms); "
        "R4 Prev/NextLineBreakRemover remove one blank line exactly when two line breaks separated only by blanks precede / "
        "follow the seam; R5 overlapping ranges are merged within their union before deletion (C02.R3/R3b); R6 the indentation IndentRemover reports begins directly "
        "behind the line break its scan found (the line break itself stays); R7 the scanners are complete: blanks (space and tab) are passed, a line break on a "
        "boundary is reported, a non-pausing scan passes everything else; R8 IndentRemover acts only when the seam byte is a line break; R9 what its scan finds is returned.")
    res.trusted += ["the pausing scanners skip only blanks (C02.R4 tables)", "driver fact extraction and the abstract interpreter"]
    hull(ctx, res, "C13.R1")
    start_of_file(ctx, res, "C13.R2")
    deletion.indent_begins_behind_break(ctx, res, "C13.R6")
    deletion.scanner_tables(ctx, res, "C13.R7", mode="complete")
    indent_only_at_line_end(ctx, res, "C13.R8")
    deletion.indent_found_is_returned(ctx, res, "C13.R9")
    empty_line_table(ctx, res, "C13.R3")
    prev_next_tables(ctx, res, "C13.R4")
    deletion.merged_before_delete(ctx, res, "C13.R5")
    intervals.union_rule(ctx, res, "C13.R5b")


def hull(ctx, res, rule):
    P = ctx.lib
    # the fold over the seam formatters lives in the helper `format_block` or, when that is inlined, in `format` itself
    b = P.fn("formatter::format_block", required=False) or P.fn("code::formatter::format")
    fn = fshort(b)
    fparam = [p_["pat"].get("name") for p_ in P.fn("code::formatter::format")["params"]][2] if b is not P.fn("formatter::format_block", required=False) else \
        [p_["pat"].get("name") for p_ in b["params"]][2]
    folds = [n for n in T.nodes(b["tree"], "mcall") if n["name"] == "fold" and T.render(n["recv"]) == "%s.iter()" % fparam]
    ok = False
    why = "fold over the formatters not found"
    seed_ok = False
    if len(folds) == 1:
        sd = T.peel(folds[0]["args"][0])
        if sd.get("k") == "struct" and {f["name"] for f in sd["fields"]} == {"start", "end"}:
            a_, b_ = [T.render(T.peel_ref(f["e"])).lstrip("*") for f in sd["fields"]]
            seed_ok = a_ == b_
            seam_name = a_
    if len(folds) == 1 and seed_ok:
        clo = T.peel(folds[0]["args"][1])
        I = A.Interp(P)
        I.lazy_locals = True

        def run_(J):
            env = {}
            J.match_pat(clo["params"][0]["pat"], A.Struct("Range", [("start", A.Lit(2)), ("end", A.Lit(3))]), env)
            J.match_pat(clo["params"][1]["pat"], A.Sym("f"), env)
            return J.ev(clo["body"], env)
        # ordering enumeration over the formatter's answer (s, e) against the accumulated range (2, 3)
        ok = True
        why = ""

        def fmt_model(vals):
            def m(I_, a, n, env):
                return A.Tuple([A.Lit(vals[0]), A.Lit(vals[1])])
            return m
        for s_ in range(0, 6):
            for e_ in range(s_, 6):
                I = A.Interp(P, models={"crate::code::formatter::Formatter::format": fmt_model((s_, e_))})
                I.lazy_locals = True
                try:
                    outs = I.explore(run_)
                except A.Cannot as ex:
                    ok, why = False, str(ex)
                    break
                v = outs[0]["value"] if len(outs) == 1 else None
                ends = (A.show(v.fields["start"]), A.show(v.fields["end"])) if isinstance(v, A.Struct) else None
                if ends != (str(min(2, s_)), str(max(3, e_))):
                    ok, why = False, "accumulating (2, 3) with a formatter answer (%d, %d) gives %s, not the hull" % (s_, e_, ends)
                    break
            if not ok:
                break
        # the formatter is asked about the seam position
        calls = [n for n in T.nodes(clo["body"], "mcall") if n["name"] == "format"]
        if ok and not (len(calls) == 1 and len(calls[0]["args"]) == 2 and T.render(T.peel_ref(calls[0]["args"][1])).lstrip("*") == seam_name
                       and T.render(calls[0]["args"][0]) == "content"):
            ok, why = False, "formatters are not called as f.format(content, pos)"
    if ok:
        res.holds(rule, fn, "hull-of-formatters", "fold(pos..pos, hull) over formatters.iter(), each asked at the seam")
    else:
        res.add(Finding(rule, fn, "hull-of-formatters", "the tidied range at a seam is not the hull of the seam formatters' ranges: " + why, loc=T.loc(b["tree"])))
    # the seam formatters that `clean` hands to format(): the third argument of the call, whether the list is built by a
    # helper (build_formatters) or in place
    bf = P.fn("chiritori::build_formatters", required=False)
    cl = P.fn("chiritori::clean")
    got = []
    try:
        outs = A.Interp(P, inline=[bf["def_path"]] if bf else []).explore(lambda J: J.call_fn_body(cl, [A.Sym("content"), A.Sym("delimiters"), A.Sym("config")]))
        lists = set()
        for o in outs:
            for e in o["effects"]:
                if e[0] == "call" and e[1].split("::")[-1] == "format" and len(e[2]) == 4 and isinstance(e[2][2], A.VecV):
                    lists.add(tuple(sorted(getattr(x, "name", A.show(x)).split("::")[-1] for x in e[2][2].items)))
        if len(lists) == 1:
            got = list(lists.pop())
    except A.Cannot:
        got = []
    bf = bf or cl
    want = sorted(["IndentRemover", "EmptyLineRemover", "PrevLineBreakRemover", "NextLineBreakRemover"])
    if got == want:
        res.holds(rule, fshort(bf), "formatter-set", ", ".join(got))
    else:
        res.add(Finding(rule, fshort(bf), "formatter-set", "seam formatters are %s, expected %s" % (got, want), loc=T.loc(bf["tree"])))


def indent_only_at_line_end(ctx, res, rule):
    """IndentRemover acts only when the seam byte is a line break (the removed tag stood at the end of its line's content):
    before the backward scan there is an early return of the empty range on `byte at the seam is not a line break`.  Without
    it the indentation in front of text that survives on the tag's line would be deleted."""
    from .. import forward
    P = ctx.lib
    b = P.fn("IndentRemover::format")
    fn = fshort(b)
    loc = T.loc(b["tree"])
    seam = b["params"][2]["pat"].get("name") if len(b["params"]) == 3 else None
    names = {seam}
    for s_ in T.nodes(b["tree"], "let"):
        if s_["pat"]["p"] == "bind" and s_.get("init") is not None and T.render(s_["init"]) == seam:
            names.add(s_["pat"]["name"])
    blk = T.peel(b["tree"])
    while blk.get("k") == "blockexpr":
        blk = blk["block"]
    ok = False
    for st in blk.get("stmts", []):
        if any(x.get("k") in ("loop", "for") for x in T.nodes(st)):
            break
        e = T.peel(st["e"]) if st.get("k") == "expr" else None
        if e is None or e.get("k") != "if" or e.get("els") is not None:
            continue
        rets = [T.render(T.peel(r_["e"])) for r_ in T.nodes(e["then"], "ret") if r_.get("e") is not None]
        if rets != ["(%s, %s)" % (seam, seam)]:
            continue
        for j in forward._juncts(e["cond"], "||"):
            if any(deletion.newline_test(j, nm) is False for nm in names):
                ok = True
    if ok:
        res.holds(rule, fn, "acts-only-on-line-break", "early return of the empty range unless the seam byte is a line break")
    else:
        res.add(Finding(rule, fn, "acts-only-on-line-break", "no early return of the empty range for a seam that is not a line break was found in front of the backward scan: "
                        "the indentation of a line whose text survives behind the removed tag would be deleted", loc=loc))


def start_of_file(ctx, res, rule):
    """IndentRemover: when the backward scan arrives at offset 0 (only blanks behind it), the tag line's indentation is found."""
    P = ctx.lib
    b = P.fn("IndentRemover::format")
    fn = fshort(b)
    loops = [n for n in T.nodes(b["tree"], "loop")]
    if len(loops) != 1:
        res.cannot(rule, fn, "loop", "inline scan loop not found", T.loc(b["tree"]))
        return
    loop = loops[0]
    n_paths = 0
    bad = 0
    for cls in (A.Lit(32, "byte"), A.Lit(10, "byte"), A.CharClass(None, excluded={32, 9, 10})):
        ex = []
        I = A.Interp(P, models=deletion._byte_models(cls, True, ex))
        I.lazy_locals = True
        try:
            outs = I.explore(lambda J: J.ev(loop["body"], {}))
        except A.Cannot as e:
            res.cannot(rule, fn, "loop-body", str(e), T.loc(loop))
            return
        for o in outs:
            if o["decisions"].get("ord(0, cursor)") == "=" or o["decisions"].get("ord(cursor, 0)") == "=" or o["decisions"].get("eq(0, cursor)") is True:
                # the scan stands at offset 0 before stepping: everything behind the seam was blank
                if any(e[0] == "examine" for e in o["effects"]):
                    continue
                n_paths += 1
                found = o["exit"] == "break" and ((isinstance(o["value"], A.Lit) and o["value"].v is True) or (isinstance(o["value"], A.Variant) and o["value"].name == "Some"))
                if not found:
                    bad += 1
    if n_paths == 0:
        res.cannot(rule, fn, "start-of-file", "no path on which the scan arrives at offset 0 was found", T.loc(loop))
    elif bad:
        res.add(Finding(rule, fn, "start-of-file", "when the backward scan arrives at offset 0 having seen only blanks, IndentRemover gives up instead of treating the start of the "
                        "file as a line start: a tag indented on the first line leaves its indentation in front of the next surviving line", loc=T.loc(loop)))
    else:
        res.holds(rule, fn, "start-of-file", "offset 0 reached over blanks => indentation found")


def _table(ctx, res, rule, name, classify, domains, spec):
    P = ctx.lib
    b = P.fn(name)
    fn = fshort(b)
    loc = T.loc(b["tree"])
    try:
        outs = A.Interp(P).explore(lambda J: J.call_fn_body(b, [A.Sym("self"), A.Sym("content"), A.Sym("byte_pos")]))
    except A.Cannot as e:
        res.cannot(rule, fn, "body", str(e), loc)
        return

    def observe(o):
        if o["exit"] == "panic":
            return "panic"
        v = o["value"]
        if isinstance(v, A.Tuple) and len(v.items) == 2:
            a, b_ = A.show(v.items[0]), A.show(v.items[1])
            if a == b_:
                return "nothing"
            return "%s..%s" % (_abbr(a), _abbr(b_))
        return A.show(v)[:80]
    rows, bad = dt.compare(res, rule, fn, outs, classify, domains, spec, observe, loc=loc, what="removed range")
    res.extra.setdefault("tables", {})[fn] = rows


def _abbr(t):
    return t.replace(C, "").replace("find_next_line_break_pos", "next_lb").replace("find_prev_line_break_pos", "prev_lb")


def empty_line_table(ctx, res, rule):
    # NL2: the same question asked of the string (defined, and equal to NL, at a char boundary - the only rows specified)
    names = {BND: "boundary", NL: "seam_is_lb", NL2: "seam_is_lb", FN1: "n1", FN2: "n2", FP1: "p1", FP2: "p2"}

    def classify(k, v):
        if k in names:
            return (names[k], v)
        return None

    def spec(r):
        if not r["boundary"]:
            return None            # unreachable by the C01 audited invariant (removed positions are boundaries)
        if not r["seam_is_lb"]:
            return "nothing"
        next_blank = r["n1"] and r["n2"]
        prev_blank = r["p1"] and r["p2"]
        return "byte_pos..(byte_pos + 1)" if (not next_blank and not prev_blank) else "nothing"
    _table(ctx, res, rule, "EmptyLineRemover::format", classify, {n: [True, False] for n in names.values()}, spec)


def prev_next_tables(ctx, res, rule):
    def cl_prev(k, v):
        return {FP1: ("p1", v), FP2: ("p2", v)}.get(k)

    def sp_prev(r):
        return "(prev_lb(prev_lb(byte_pos, true).some, true).some + 1)..byte_pos" if (r["p1"] and r["p2"]) else "nothing"
    _table(ctx, res, rule, "PrevLineBreakRemover::format", cl_prev, {"p1": [True, False], "p2": [True, False]}, sp_prev)

    def cl_next(k, v):
        return {FN1: ("n1", v), FN2: ("n2", v)}.get(k)

    def sp_next(r):
        return "byte_pos..next_lb((next_lb(byte_pos, true).some + 1), true).some" if (r["n1"] and r["n2"]) else "nothing"
    _table(ctx, res, rule, "NextLineBreakRemover::format", cl_next, {"n1": [True, False], "n2": [True, False]}, sp_next)
