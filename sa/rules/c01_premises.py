"""Machine-checked premises of the audited C01 obligations.  Each returns (ok, detail)."""
from .. import absint as A
from .. import fsm
from .. import report
from .. import tree as T
from . import fshort


def _sub_result(ctx, modname, rules=None):
    """Run another property's rule module into a scratch Result; ok iff it has no (matching) finding."""
    import importlib
    cache = ctx.__dict__.setdefault("_premise_cache", {})
    if modname not in cache:
        mod = importlib.import_module("sa.rules." + modname)
        r = report.Result(modname.upper(), "other")
        try:
            mod.run(ctx, r)
        except Exception as e:   # fail closed
            r.cannot(modname + ".internal", "-", "internal", repr(e))
        cache[modname] = r
    r = cache[modname]
    bad = [f for f in r.findings if rules is None or any(f.rule.startswith(x) for x in rules)]
    return (not bad), ("no finding in %s%s" % (modname.upper(), "" if rules is None else " " + ",".join(rules)) if not bad else "; ".join(f.key for f in bad[:3]))


def tok_units(ctx):
    return _sub_result(ctx, "c07", ["C07.R1", "C07.R2", "C07.R3", "C07.R4"])


def tok_byte_start_assign(ctx):
    P = ctx.lib
    b = P.fn("tokenizer::tokenize")
    folds = [n for n in T.nodes(b["tree"], "mcall") if n["name"] == "fold" and T.render(n["recv"]) == "source.char_indices()"]
    loops = [n for n in T.nodes(b["tree"], "for") if T.render(n["iter"]) == "source.char_indices()"]
    if len(folds) == 1 and not loops:
        fold = folds[0]
        seed = T.peel(fold["args"][0])
        clo = T.peel(fold["args"][1])
        accp, itemp = clo["params"][0]["pat"], clo["params"][1]["pat"]
        if accp["p"] != "tuple" or itemp["p"] != "tuple" or itemp["pats"][0]["p"] != "bind":
            return False, "closure parameter shape"
        scope = clo["body"]
        ids = {p["id"]: (i, p["name"]) for i, p in enumerate(accp["pats"]) if p["p"] == "bind"}
    elif len(loops) == 1 and not folds:
        loop = loops[0]
        itemp = loop["pat"]
        if itemp["p"] != "tuple" or itemp["pats"][0]["p"] != "bind":
            return False, "loop pattern shape"
        scope = loop["body"]
        ids = {s_["pat"]["id"]: (None, s_["pat"]["name"]) for s_ in T.nodes(b["tree"], "let") if s_["pat"]["p"] == "bind" and "Mut" in s_["pat"].get("mode", "")}
        seed = None
        clo = None
    else:
        return False, "scan over source.char_indices() not found (fold or for)"
    pos_id = itemp["pats"][0]["id"]
    lows = set()
    for n in T.nodes(scope, "index"):
        rng = T.peel(n["idx"])
        if rng.get("k") == "struct":
            for f in rng["fields"]:
                if f["name"] == "start" and T.local_of(f["e"]) in ids:
                    lows.add(T.local_of(f["e"]))
    if len(lows) != 1:
        return False, "lower slice bound variable not identified"
    lid = lows.pop()
    i, name = ids[lid]
    if seed is not None:
        if T.lit_value(seed["es"][i]) != 0:
            return False, "seed of %s is not the literal 0" % name
    else:
        inits = [s_ for s_ in T.nodes(b["tree"], "let") if s_["pat"]["p"] == "bind" and s_["pat"]["id"] == lid]
        if len(inits) != 1 or T.lit_value(inits[0]["init"]) != 0:
            return False, "%s is not initialised to the literal 0" % name
    for n in T.nodes(b["tree"]):
        if n.get("k") == "assign" and T.local_of(n["l"]) == lid:
            if T.local_of(n["r"]) != pos_id:
                return False, "%s is assigned `%s`, not the current char_indices position" % (name, T.render(n["r"]))
        if n.get("k") == "assign_op" and T.local_of(n["l"]) == lid:
            return False, "%s is modified by `%s`" % (name, T.render(n))
    if clo is not None:
        ret = T.peel(clo["body"])
        while ret.get("k") in ("blockexpr", "block"):
            blk = ret["block"] if ret["k"] == "blockexpr" else ret
            ret = T.peel(blk["tail"]) if blk.get("tail") is not None else {}
        if ret.get("k") != "tuple" or T.local_of(ret["es"][i]) != lid:
            return False, "the accumulator slot of %s is not handed on unchanged" % name
    return True, "%s: initial 0, only `= %s` (the char_indices position)" % (name, itemp["pats"][0]["name"])


def tok_merge_order(ctx):
    P = ctx.lib
    b = P.fn("tokenizer::tokenize")
    tail = T.returned_value(b)
    if not (tail.get("k") == "mcall" and tail["name"] == "fold" and T.render(tail["recv"]) == "tokens.into_iter()"):
        return False, "merge fold not found"
    clo = T.peel(tail["args"][1])
    acc = clo["params"][0]["pat"]
    cur = clo["params"][1]["pat"]
    muts = [n for n in T.nodes(clo["body"], "mcall") if T.local_of(T.peel_ref(n["recv"])) == acc.get("id") and n["name"] not in ("last_mut", "last", "len", "is_empty")]
    if len(muts) != 1 or muts[0]["name"] != "push" or T.local_of(muts[0]["args"][0]) != cur.get("id"):
        return False, "the merged list is modified other than by push(cur): %s" % [T.render(m) for m in muts]
    # tokens pushed into `tokens` in scan order only: pushes in the scan closure and one after it
    return True, "acc only grows by push(cur) of the traversed token; last_mut() is the previously pushed token"


def tok_delimiter_first_char(ctx):
    P = ctx.lib
    ok = 0
    for name in ("tokenizer::get_state", "tokenizer::check_delimiter_start"):
        b = P.fn(name)
        params = {p["pat"]["id"]: p["pat"]["name"] for p in b["params"] if p["pat"]["p"] == "bind" and p["pat"]["name"].startswith("delimiter")}
        for n in T.nodes(b["tree"], "mcall"):
            if n["name"] != "unwrap":
                continue
            r = T.peel_ref(n["recv"])
            if not (r.get("k") == "mcall" and r["name"] == "next"):
                continue
            src = T.peel_ref(r["recv"])
            lid = T.local_of(src)
            if lid is None:
                return False, "unwrap of next() on a non-local iterator in %s" % name
            # the local is bound to <delimiter param>.chars() and next() was not called on it before
            lets = [s for s in T.nodes(b["tree"], "let") if s["pat"]["p"] == "bind" and s["pat"]["id"] == lid]
            if len(lets) != 1 or lets[0].get("init") is None:
                return False, "iterator binding not found in %s" % name
            init = T.peel(lets[0]["init"])
            if not (init.get("k") == "mcall" and init["name"] == "chars" and T.local_of(T.peel_ref(init["recv"])) in params):
                return False, "`%s` is not <delimiter>.chars()" % T.render(init)
            nexts = [x for x in T.nodes(b["tree"], "mcall") if x["name"] == "next" and T.local_of(T.peel_ref(x["recv"])) == lid]
            if len(nexts) != 1:
                return False, "next() is called %d times on the fresh iterator" % len(nexts)
            ok += 1
    return (ok >= 2), "%d first-character reads of <delimiter>.chars()" % ok


def _fsm(ctx):
    from . import c09
    return c09.analyse(ctx)


def ep_state_payloads(ctx):
    try:
        b, m, end, seen, ntrans, mism = _fsm(ctx)
    except (fsm.FsmError, A.Cannot) as e:
        return False, "state machine extraction failed: %s" % e
    for (vn, cname), outs in m["trans"].items():
        for o in outs:
            if "panic" in o:
                continue
            if o["payload"] not in (None, "start", "pos", "(pos + 1)"):
                return False, "state %s on %s records `%s`" % (vn, cname, o["payload"])
            if o["payload"] == "(pos + 1)" and m["classes"][cname] is None:
                return False, "pos + 1 recorded for a non-ASCII class in state %s" % vn
            if o["payload"] == "(pos + 1)" and ord(m["classes"][cname]) >= 128:
                return False, "pos + 1 recorded after a multi-byte character"
            for e in o["events"]:
                if e[1] != "start" or e[2] != "pos":
                    return False, "slice %s..%s emitted in state %s" % (e[1], e[2], vn)
    for vn, cases in end.items():
        for c in cases:
            for e in c["events"]:
                if e[1] != "start" or e[2] != "end":
                    return False, "end-of-input slice %s..%s" % (e[1], e[2])
    return True, "payloads are pos / pos + 1 (after an ASCII literal) / kept start; slices are start..pos or start.."


def ep_fsm_nonempty(ctx):
    """Reachability over the extracted machine alone (all inputs, not only well-formed ones)."""
    try:
        b, m, end, seen, ntrans, mism = _fsm(ctx)
    except (fsm.FsmError, A.Cannot) as e:
        return False, "state machine extraction failed: %s" % e
    init = (m["seed_state"], True)
    seen_ = {init}
    work = [init]
    while work:
        vn, empty = work.pop()
        for cname in m["classes"]:
            outs = [o for o in m["trans"].get((vn, cname), []) if o["nonempty"] is None or o["nonempty"] == (not empty)]
            for o in outs:
                if "panic" in o:
                    return False, "state %s reachable with no pair pushed, then %s panics" % (vn, cname)
                e2 = empty and not any(e[0] == "push" for e in o["events"])
                st = (o["next"], e2)
                if st not in seen_:
                    seen_.add(st)
                    work.append(st)
    return True, "%d (state, pairs-empty) configurations reachable on arbitrary input, none reaches last_mut().unwrap() with an empty list" % len(seen_)


def fmt_pair_indices(ctx):
    from . import c12
    r = report.Result("C12", "other")
    c12.pair_indices(ctx, r, "C12.R4")
    if r.findings:
        return False, "; ".join(f.key for f in r.findings[:2])
    # get_removed_pos pushes exactly one position per marker, carrying the pair index unchanged
    P = ctx.lib
    b = P.fn("remover::get_removed_pos")
    tr, why = _marker_traversal(b)
    if tr is None:
        return False, why
    pushes = [n for n in T.nodes(b["tree"], "mcall") if n["name"] == "push"]
    top = _top_stmts(tr["body"])
    item = tr["item"]
    if tr["form"] == "scan":
        # scan emits one value per marker: the closure's value is Some((position, *pair index)) unconditionally
        pair_id = item["pats"][1]["id"] if item.get("p") == "tuple" and len(item["pats"]) == 2 and item["pats"][1]["p"] == "bind" else None
        last = top[-1] if top else {}
        okv = False
        if last.get("k") == "call" and (T.cname(last) or "").endswith("::Some") and pair_id is not None:
            v = T.peel(last["args"][0])
            if T.local_of(v) is not None:
                for s_ in T.nodes(tr["body"], "let"):
                    if s_["pat"].get("p") == "bind" and s_["pat"]["id"] == T.local_of(v) and s_.get("init") is not None:
                        v = T.peel(s_["init"])
            okv = v.get("k") == "tuple" and len(v["es"]) == 2 and T.local_of(T.peel_ref(v["es"][1])) == pair_id
        if pushes or not okv or any(x.get("k") == "ret" for x in T.nodes(tr["body"])):
            return False, "get_removed_pos does not emit exactly one (position, *pair index) per marker"
        pushes = [last]
        top = [last]
        pair_ok_scan = True
    else:
        pair_ok_scan = False
    pair_id = item["pats"][1]["id"] if item.get("p") == "tuple" and len(item["pats"]) == 2 and item["pats"][1]["p"] == "bind" else None
    arg = T.peel(pushes[0]["args"][0]) if len(pushes) == 1 else {}
    if not pair_ok_scan and (len(pushes) != 1 or not any(st is pushes[0] for st in top) or pair_id is None or arg.get("k") != "tuple" or len(arg["es"]) != 2
                             or T.local_of(T.peel_ref(arg["es"][1])) != pair_id):
        return False, "get_removed_pos does not push exactly one (position, *pair index) per marker"
    # format indexes the same list it iterates
    f = P.fn("code::formatter::format")
    rp = f["params"][1]["pat"].get("id") if len(f["params"]) > 1 else None       # format(content, removed_pos, ..)
    idx = [n for n in T.nodes(f["tree"], "index") if rp is not None and T.local_of(T.peel_ref(n["base"])) == rp]
    if len(idx) != 1:
        return False, "format() indexes removed_pos %d times" % len(idx)
    return True, "pair indices valid in merge_markers; one removed position per marker, same order"


def del_discipline(ctx):
    # (R8 / R9: the markers handed to the back-to-front deletion are disjoint - children absorbed into head and tail, halves kept
    # apart - otherwise a later range lies behind the end of the text that an earlier deletion has already shortened)
    return _sub_result(ctx, "c02", ["C02.R2", "C02.R3", "C02.R4", "C02.R5", "C02.R6", "C02.R7", "C02.R8", "C02.R9"])


def mr_cursor_shape(ctx):
    P = ctx.lib
    b = P.fn("formatter::merge_ranges")
    # ranges (the &mut Vec param) is only mutated by insert
    rid = b["params"][0]["pat"]["id"]
    for n in T.nodes(b["tree"], "mcall"):
        if T.local_of(T.peel_ref(n["recv"])) == rid and n["name"] not in ("insert", "len", "is_empty"):
            return False, "ranges is used through `%s`" % n["name"]
    for n in T.nodes(b["tree"], "assign"):
        if T.local_of(T.peel_ref(n["l"])) == rid:
            return False, "ranges is reassigned"
    # the Option cursor: initial value Some(ranges.len() - 1); inner cursor only decremented
    lets = [s for s in T.nodes(b["tree"], "let") if s["pat"]["p"] == "bind" and s["pat"]["name"] == "cursor"]
    if not lets or T.render(lets[0]["init"]) not in ("std::prelude::v1::Some((ranges.len() - 1))", "ranges.len().checked_sub(1)"):
        return False, "cursor is not initialised to Some(ranges.len() - 1)"
    ops = [n for n in T.nodes(b["tree"], "assign_op")]
    if [T.render(o) for o in ops] != ["cursor -= 1"]:
        return False, "cursor is modified by %s" % [T.render(o) for o in ops]
    for n in T.nodes(b["tree"], "assign"):
        l = T.render(n["l"])
        if l == "cursor":
            r = T.peel(n["r"])
            # cursor = match cursor { Some(mut cursor) => loop {.. break Some(cursor) / break None ..}, None => None }
            brk = [T.render(x) for x in T.nodes(r, "break")]
            if any(x not in ("break std::prelude::v1::Some(cursor)", "break std::prelude::v1::None", "break") for x in brk):
                return False, "cursor receives %s" % brk
    return True, "cursor = Some(len - 1) initially, only `-= 1` (guarded by cursor == 0) afterwards; ranges only grows by insert"


def elr_panic_guard(ctx):
    P = ctx.lib
    b = P.fn("EmptyLineRemover::format")
    pid = [p["pat"]["id"] for p in b["params"][2:3] if p["pat"]["p"] == "bind"]      # format(&self, content, byte_pos)
    for n, parents in T.walk(b["tree"]):
        if n.get("k") == "call" and (T.cname(n) or "").startswith("core::panicking::"):
            ifs = [p for p in parents if p.get("k") == "if"]
            if not ifs:
                return False, "panic is unconditional"
            c = T.peel(ifs[-1]["cond"])
            if c.get("k") == "unary" and c["op"] == "!" and T.peel(c["e"]).get("k") == "mcall" and T.peel(c["e"])["name"] == "is_char_boundary" \
                    and pid and T.local_of(T.peel(c["e"])["args"][0]) == pid[0]:
                return True, "panic only under !content.is_char_boundary(byte_pos) with byte_pos the seam parameter"
            return False, "panic is guarded by `%s`" % T.render(c)
    return True, "no explicit panic"


def _marker_traversal(b):
    """The single traversal of `markers` in get_removed_pos: `markers.iter().fold(seed, |acc, item| ..)` or
    `for item in markers { .. }`.  Returns dict(form, body, item, seeds {local id: seed expr}) or (None, reason)."""
    folds = [n for n in T.nodes(b["tree"], "mcall") if n["name"] == "fold" and T.render(n["recv"]) == "markers.iter()"]
    fors = [n for n in T.nodes(b["tree"], "for") if T.render(T.peel_ref(n["iter"])) in ("markers", "markers.iter()")]
    others = [n for n in T.nodes(b["tree"], "mcall") if n["name"] in ("iter", "into_iter") and T.render(n["recv"]) == "markers"]
    scans = [n for n in T.nodes(b["tree"], "mcall") if n["name"] == "scan" and T.render(n["recv"]) == "markers.iter()" and len(n["args"]) == 2]
    if scans and not folds and not fors and len(others) <= 1 and len(scans) == 1:
        clo = T.peel(scans[0]["args"][1])
        if clo.get("k") == "closure" and len(clo["params"]) == 2 and clo["params"][0]["pat"].get("p") == "bind":
            return {"form": "scan", "body": clo["body"], "item": clo["params"][1]["pat"], "seeds": {clo["params"][0]["pat"]["id"]: scans[0]["args"][0]}}, None
    if len(folds) + len(fors) != 1 or len(others) > 1:
        return None, "get_removed_pos does not traverse all markers once"
    if folds:
        clo = T.peel(folds[0]["args"][1])
        seed = T.peel(folds[0]["args"][0])
        accp = clo["params"][0]["pat"]
        if clo.get("k") != "closure" or accp["p"] != "tuple" or seed.get("k") != "tuple" or len(seed["es"]) != len(accp["pats"]):
            return None, "fold accumulator shape"
        seeds = {p_["id"]: seed["es"][k] for k, p_ in enumerate(accp["pats"]) if p_["p"] == "bind"}
        return {"form": "fold", "body": clo["body"], "item": clo["params"][1]["pat"], "seeds": seeds}, None
    seeds = {s_["pat"]["id"]: s_["init"] for s_ in T.nodes(b["tree"], "let")
             if s_["pat"]["p"] == "bind" and "Mut" in s_["pat"].get("mode", "") and s_.get("init") is not None}
    return {"form": "for", "body": fors[0]["body"], "item": fors[0]["pat"], "seeds": seeds}, None


def _top_stmts(body):
    blk = T.peel(body)
    while blk.get("k") == "blockexpr":
        blk = blk["block"]
    # a `let` whose local is read through at its uses (sa/forward.py) is not a step of the computation
    return [T.peel(st["e"]) if st.get("k") == "expr" else st for st in blk.get("stmts", []) if not st.get("forwarded")] \
        + ([T.peel(blk["tail"])] if blk.get("tail") is not None else [])


def grp_removed_len(ctx):
    P = ctx.lib
    b = P.fn("remover::get_removed_pos")
    tr, why = _marker_traversal(b)
    if tr is None:
        return False, why
    item_ids = [x["id"] for x in T.pat_nodes(tr["item"]) if x.get("p") == "bind"]
    mods = [n for n in T.nodes(b["tree"]) if n.get("k") in ("assign_op", "assign")]
    if len(mods) != 1 or mods[0]["k"] != "assign_op" or not mods[0]["op"].startswith("+"):
        return False, "the running total is updated by %s" % [T.render(n) for n in mods]
    upd = mods[0]
    acc = T.local_of(T.peel_ref(upd["l"]))
    r = T.peel(upd["r"])
    okr = (r.get("k") == "binary" and r["op"] == "-" and T.peel(r["l"]).get("k") == "field" and T.peel(r["r"]).get("k") == "field"
           and T.peel(r["l"])["name"] == "end" and T.peel(r["r"])["name"] == "start"
           and T.local_of(T.peel_ref(T.peel(r["l"])["base"])) in item_ids and T.local_of(T.peel_ref(T.peel(r["r"])["base"])) == T.local_of(T.peel_ref(T.peel(r["l"])["base"])))
    if not okr:
        return False, "the running total is updated by `%s`, not by the length of the current marker" % T.render(upd)
    if acc not in tr["seeds"] or T.lit_value(tr["seeds"][acc]) != 0:
        return False, "the running total does not start at the literal 0"
    # order: the position is pushed before the total is updated, both unconditionally in the traversal body
    top = _top_stmts(tr["body"])
    # the statement that computes the position (marker.start - total): the push, or in the scan form the `let` / the emitted value
    pi = [k for k, st in enumerate(top) if any(n.get("k") == "binary" and n["op"] == "-" and T.local_of(T.peel_ref(n["r"])) == acc for n in T.nodes(st))]
    ui = [k for k, st in enumerate(top) if st is upd]
    if len(pi) != 1 or len(ui) != 1 or pi[0] > ui[0]:
        return False, "push/update order changed (or one of them is conditional)"
    if tr["form"] != "scan" and not (top[pi[0]].get("k") == "mcall" and top[pi[0]]["name"] == "push"):
        return False, "the position that subtracts the running total is not what is pushed"
    subs = [n for n in T.nodes(top[pi[0]], "binary") if n["op"] == "-" and T.local_of(T.peel_ref(n["r"])) == acc]
    if len(subs) != 1:
        return False, "the pushed position does not subtract the running total"
    return True, "running total `%s`: seed 0, only `+= marker.end - marker.start` after the push (%s form)" % (T.render(upd["l"]), tr["form"])


def markers_start_le_end(ctx):
    ok, d = _sub_result(ctx, "c02", ["C02.R7"])
    if not ok:
        return ok, d
    P = ctx.lib
    b = P.fn("Remover::merge_child_markers")
    asg = sorted(T.render(n) for n in T.nodes(b["tree"], "assign"))
    want = sorted(["marker.start = marker.start.min(child_marker.start)", "marker.end = marker.end.max(child_marker.end)"])
    if asg != want:
        return False, "merge_child_markers assigns %s" % asg
    mm = P.fn("Remover::merge_markers")
    idx_ranges = {id(T.peel(x["idx"])) for x in T.nodes(mm["tree"], "index")}
    # a range that was only given a name (every use reads its ends directly, sa/forward.py) is not a marker
    idx_ranges |= {id(T.peel(x["init"])) for x in T.nodes(mm["tree"], "let") if x.get("forwarded") and x.get("init") is not None}
    fused = [T.render(n) for n in T.nodes(mm["tree"], "struct") if {f["name"] for f in n["fields"]} == {"start", "end"} and id(n) not in idx_ranges]
    if any(f != "marker.start..end_marker.end" for f in fused):
        return False, "merge_markers builds range %s" % fused
    return True, "builder ranges are ordered (C02.R7); merge_child_markers only widens with min/max; the fused range is head.start..tail.end"


def list_line_map_some(ctx):
    from . import c16
    r = report.Result("C16", "other")
    c16.schema(ctx, r, "C16.R1")
    bad = [f for f in r.findings if "branch" in f.site]
    return (not bad), ("both entry points pass Some(line map) to both renderers" if not bad else "; ".join(f.key for f in bad))


def list_end_tab_count(ctx):
    P = ctx.lib
    b = P.fn("list::build_pretty_string_item")
    lets = {s["pat"]["name"]: T.render(s["init"]) for s in T.nodes(b["tree"], "let") if s["pat"]["p"] == "bind" and s.get("init") is not None}
    if lets.get("marker_end_ofs_len") != "((end - line_end_start_pos) - 1)":
        return False, "marker_end_ofs_len = %s" % lets.get("marker_end_ofs_len")
    if lets.get("marker_end_tab_len") != "code::utils::blank_counter::count_tabspace(&content[line_end_start_pos..end])":
        return False, "marker_end_tab_len = %s" % lets.get("marker_end_tab_len")
    # line_number_ofs is LINE_COLUMN_WIDTH (>= 1) on the Some branch
    from .. import oblig
    w = [v for k, v in oblig.CONSTS.items() if k.endswith("LINE_COLUMN_WIDTH")]
    if not w or w[0] < 1:
        return False, "LINE_COLUMN_WIDTH < 1"
    txt = T.render(T.peel(b["tree"]))
    if "code::list::LINE_COLUMN_WIDTH) } else { (&removed, 0) }" not in txt and "LINE_COLUMN_WIDTH)" not in txt:
        return False, "line_number_ofs is not LINE_COLUMN_WIDTH on the Some(line_range) branch"
    return True, "tab count of content[les..end] <= end - les = marker_end_ofs_len + 1 <= marker_end_ofs_len + LINE_COLUMN_WIDTH"


def c04_empty_filter(ctx):
    from . import common
    r = report.Result("C04", "other")
    common.element_rows(ctx, r, "C04.R1", lambda row: row["elem"] and row["empty"], "empty ranges never pushed")
    return (not r.findings), ("rows with an empty range push nothing" if not r.findings else r.findings[0].key)


def list_item_call_sites(ctx):
    P = ctx.lib
    item = P.fn("list::build_pretty_string_item")
    n_ok = 0
    for b in P.user_bodies():
        if b["kind"] not in ("Fn", "AssocFn"):
            continue
        for n in T.nodes(b["tree"], "call"):
            if (T.callee(n) or "") == item["def_path"]:
                a = [T.render(x) for x in n["args"][:3]]
                if a != ["content", "range.start", "range.end"]:
                    return False, "%s calls build_pretty_string_item(%s)" % (fshort(b), a)
                n_ok += 1
    return n_ok >= 2, "%d call sites pass (content, range.start, range.end) of a marker" % n_ok


def list_json_total(ctx):
    from . import c16
    r = report.Result("C16", "other")
    c16.schema(ctx, r, "C16.R1")
    bad = [f for f in r.findings]
    return (not bad), ("Vec<ListItem> of strings, integers and unit variants with the derived serialiser: serde_json::to_string cannot fail" if not bad else "; ".join(f.key for f in bad[:2]))


PREMISES = {
    "list.json_total": list_json_total,
    "tok.units": tok_units,
    "tok.byte_start_assign": tok_byte_start_assign,
    "tok.merge_order": tok_merge_order,
    "tok.delimiter_first_char": tok_delimiter_first_char,
    "ep.state_payloads": ep_state_payloads,
    "ep.fsm_nonempty": ep_fsm_nonempty,
    "fmt.pair_indices": fmt_pair_indices,
    "del.discipline": del_discipline,
    "mr.cursor_shape": mr_cursor_shape,
    "elr.panic_guard": elr_panic_guard,
    "grp.removed_len": grp_removed_len,
    "markers.start_le_end": markers_start_le_end,
    "list.line_map_some": list_line_map_some,
    "list.end_tab_count": list_end_tab_count,
    "c04.empty_filter": c04_empty_filter,
    "list.item_call_sites": list_item_call_sites,
}
