"""C14 - whitespace changes are confined to the borders of removals (same mechanisms as C02.R4-R6)."""
from . import deletion, intervals

LEVEL = "other"


def run(ctx, res):
    res.explanation = (
        "Locality is decided through its anchored mechanisms: (R1) composite byte-class tables of the scanners and of the "
        "inline indentation scan - when pausing, only ' ' and '\\t' are skipped and scanning stops at the first other "
        "character; only a '\\n' on a char boundary is reported; (R2) every scanner call inside a seam formatter passes the "
        "literal pause_on_char = true; (R3) each endpoint a seam formatter returns is the seam, a pausing-scanner result or "
        "that + 1, so a seam formatter never reaches beyond the blank run (at most the blank lines) adjacent to the seam; "
        "(R4) the block formatter's ranges are clamped per line by min(_, first non-blank); (R5) merging two formatter ranges never covers a "
        "position outside both (complete table over endpoint orderings, sorted or not); (R6) the cleaned text is only ever changed by deleting ranges, back to "
        "front (no normalisation pass); (R7) the block formatter is handed the right head/tail pair (pair indices); (R8) the positions the formatters are asked about are the seams: "
        "get_removed_pos emits, per marker and in order, marker.start minus the total length of the markers before it.  Decides these clauses, not the "
        "verbatim survival of every stretch.")
    res.trusted += ["driver fact extraction and the abstract interpreter"]
    deletion.scanner_tables(ctx, res, "C14.R1")
    deletion.pausing_sites(ctx, res, "C14.R2")
    deletion.seam_ranges(ctx, res, "C14.R3")
    deletion.block_ranges(ctx, res, "C14.R4")
    intervals.union_rule(ctx, res, "C14.R5")
    deletion.sinks(ctx, res, "C14.R6", "C14.R6b")
    from . import c12
    c12.pair_indices(ctx, res, "C14.R7")
    seam_positions(ctx, res, "C14.R8")


def seam_positions(ctx, res, rule):
    """The formatters act where text was removed: position k = marker_k.start - sum(len(marker_j), j < k), one per marker."""
    from .. import tree as T
    from ..report import Finding
    from . import c01_premises, fshort
    b = ctx.lib.fn("remover::get_removed_pos")
    fn = fshort(b)
    for site, prem in (("running-total", c01_premises.grp_removed_len), ("one-position-per-marker", c01_premises.fmt_pair_indices)):
        ok, why = prem(ctx)
        if ok:
            res.holds(rule, fn, site, why)
        else:
            res.add(Finding(rule, fn, site, "the positions handed to the formatters are not the seams of the removals (whitespace would be "
                            "tidied away from the removal): " + why, loc=T.loc(b["tree"])))
