"""Effect reachability (C15.R2, C20.R8)."""
from .. import tree as T
from ..report import Finding
from . import fshort


def effect_sites(P, bodies, spec):
    """Yield (body, node, kind, callee) for effectful / order-nondeterministic / static-state constructs."""
    for b in bodies:
        for n in T.nodes(b["tree"]):
            k = n.get("k")
            cn = T.cname(n) if k in ("call", "mcall") else None
            if cn:
                for pre in spec["effect_prefixes"]:
                    if cn.startswith(pre):
                        yield (b, n, "effect", cn)
                        break
                for u in spec["unordered_iteration"]:
                    if cn == u:
                        yield (b, n, "unordered-iteration", cn)
            if k == "for":
                ity = (n["iter"].get("ty") or "") + (n["iter"].get("aty") or "")
                if "std::collections::HashMap<" in ity or "std::collections::HashSet<" in ity or "std::collections::hash_map::" in ity or "std::collections::hash_set::" in ity:
                    yield (b, n, "unordered-iteration", "for over " + n["iter"].get("ty", "?"))
            if k == "mcall" and cn and ("IntoIterator::into_iter" in cn or cn.endswith("::iter")):
                rty = n["recv"].get("ty") or ""
                if rty.lstrip("&").startswith("std::collections::HashMap<") or rty.lstrip("&").startswith("std::collections::HashSet<"):
                    yield (b, n, "unordered-iteration", cn + " on " + rty)
            if k == "path" and n["res"].get("r") == "def" and n["res"].get("dk", "").startswith("Static"):
                yield (b, n, "static", n["res"]["path"])
            if k in ("block",) and n.get("unsafe") and not n.get("exp"):
                yield (b, n, "unsafe", "unsafe block")


def library_purity(ctx, res, rule):
    P = ctx.lib
    spec = ctx.spec("effects.json")
    roots = [P.fn("chiritori::clean")["def_path"], P.fn("chiritori::list")["def_path"], P.fn("chiritori::list_all")["def_path"]]
    reach = [P.bodies[p] for p in P.reachable(roots)]
    res.extra["reachable_functions"] = len(reach)
    res.floor(rule, "functions reachable from clean/list/list_all", len(reach), 50)
    n = 0
    for (b, node, kind, what) in effect_sites(P, reach, spec):
        n += 1
        res.add(Finding(rule, fshort(b), "%s:%s" % (kind, what), "library code reachable from clean/list/list_all uses %s `%s`: the result is no longer a "
                        "pure, deterministic function of source and configuration" % (kind, what), loc=T.loc(node)))
    if n == 0:
        res.holds(rule, "-", "no-effects", "%d reachable functions, no effectful / unordered / static-state construct" % len(reach))
    return reach
