"""C09 - tag grammar: automaton equivalence + strip-once."""
from .. import absint as A
from .. import fsm
from .. import tree as T
from ..report import Finding
from . import fshort

LEVEL = "proof"


def analyse(ctx):
    if hasattr(ctx, "_fsm"):
        return ctx._fsm
    P = ctx.lib
    spec = ctx.spec("tag_grammar.json")
    b = P.fn("element_parser::parse")
    m = fsm.extract(P, b, spec)
    end = fsm.extract_end(P, b, m)
    seen, ntrans, mism = fsm.product(m, end, spec)
    ctx._fsm = (b, m, end, seen, ntrans, mism)
    return ctx._fsm


def run(ctx, res):
    P = ctx.lib
    res.explanation = (
        "FSM: the attribute state machine is *extracted* from element_parser::parse (for every state variant x character "
        "class the fold closure is abstractly executed: next state, recorded position, emitted slices; the code after the "
        "fold gives the end-of-input actions) and the finite product with the reference grammar transducer "
        "(spec/tag_grammar.json) is explored exhaustively: on every prefix of a well-formed tag body - of any length - both "
        "machines emit the same word / value spans and accept together.  Quoted values are opaque because in the two quoted "
        "states only the matching quote has a non-identity transition (part of the product).  R3: delimiters are stripped by "
        "a once-only operation.  chiritori is not executed; no solver is involved.")
    res.trusted += ["extraction of the transducer (fail closed on any transition that depends on more than state and character class)",
                    "spec/tag_grammar.json is the grammar of the property statement", "char_indices yields increasing byte positions; the quote / space / '=' / line-break characters are one byte wide"]
    b = P.fn("element_parser::parse")
    fn = fshort(b)
    loc = T.loc(b["tree"])
    try:
        b, m, end, seen, ntrans, mism = analyse(ctx)
    except (fsm.FsmError, A.Cannot) as e:
        res.cannot("C09.R1", fn, "extraction", str(e), loc)
        strip_once(ctx, res)
        return
    res.extra.update({"states": len(seen), "transitions": ntrans, "impl_transitions": len(m["trans"]), "exhaustive": True,
                      "alphabet": {k: v for k, v in m["classes"].items()}})
    res.obligations += ntrans + sum(1 for s in seen if True)
    res.floor("C09.R1", "reachable product states", len(seen), 8)
    res.floor("C09.R1", "extracted (state, class) transitions", len(m["trans"]), 24)
    for mm in mism:
        res.add(Finding("C09.R1", fn, "%s:%s" % (mm["kind"], mm["what"][:140]),
                        "parser and grammar disagree after the class string [%s]: %s" % (mm["witness"], mm["what"]), loc=loc, detail=mm))
    if not mism:
        res.holds("C09.R1", fn, "product-equivalence", "%d product states, %d transitions, no mismatch" % (len(seen), ntrans))
        res.discharged += ntrans + len(seen)
    for st, w in list(seen.items())[:10]:
        res.samples.append({"product_state": list(st), "shortest_prefix": "·".join(w)})
    # the fold runs over the stripped body, the source of `target`
    res.obligations += 1
    if m["source"] == "target":
        res.discharged += 1
        res.holds("C09.R1", fn, "fold-source", "target.char_indices()")
    else:
        res.add(Finding("C09.R1", fn, "fold-source", "the state machine runs over `%s`, not over the stripped tag body" % m["source"], loc=loc))
    # end-of-input assembly: name = first pair, attrs = the rest in order
    res.obligations += 1
    ok = True
    why = ""
    for vn, cases in end.items():
        for c in cases:
            if c["result"] == "accept":
                v = c["value"]
                name = A.show(v.fields.get("name"))
                attrs = A.show(v.fields.get("attrs"))
                if not name.endswith("][0].0") or "[1..]" not in attrs or T.shortened(attrs):
                    ok = False
                    why = "name=%s attrs=%s" % (name, attrs[:120])
    clos = [n for n in T.nodes(b["tree"], "closure") if n is not m["closure"]]
    amap = [T.render(c) for c in clos]

    def maps_pair_to_attribute(c):
        # |(a, b)| Attribute { name: a, value: *b }  - by binding, not by spelling
        if len(c["params"]) != 1:
            return False
        pt = c["params"][0]["pat"]
        while pt.get("p") == "ref":
            pt = pt["pat"]
        if pt.get("p") != "tuple" or len(pt["pats"]) != 2 or any(x.get("p") != "bind" for x in pt["pats"]):
            return False
        a_id, b_id = pt["pats"][0]["id"], pt["pats"][1]["id"]
        body = T.peel(c["body"])
        if body.get("k") != "struct" or not (body["res"].get("path") or "").endswith("Attribute"):
            return False
        fe = {f["name"]: T.peel_ref(f["e"]) for f in body["fields"]}
        return set(fe) == {"name", "value"} and T.local_of(fe["name"]) == a_id and T.local_of(fe["value"]) == b_id
    if not any(maps_pair_to_attribute(c) for c in clos):
        ok = False
        why = why or "attribute mapping closure is %s" % amap
    if ok:
        res.discharged += 1
        res.holds("C09.R1", fn, "assembly", "name = pairs[0].0, attrs = pairs[1..] in order")
    else:
        res.add(Finding("C09.R1", fn, "assembly", "the element is not assembled as name = first pair, attributes = remaining pairs in order: " + why, loc=loc))
    strip_once(ctx, res)


def strip_once(ctx, res):
    """R3: between token.value and the fold, the delimiters are removed by once-only operations."""
    P = ctx.lib
    b = P.fn("element_parser::parse")
    fn = fshort(b)
    res.obligations += 2
    str_ops = []
    # the scanned string: the receiver of the `char_indices()` traversal; its definition is followed back through immutable
    # lets (an extracted and re-inlined helper introduces such lets) up to token.value
    lets = {s_["pat"]["id"]: s_ for s_ in T.nodes(b["tree"], "let") if s_["pat"]["p"] == "bind" and s_.get("init") is not None}
    scanned = [T.local_of(T.peel_ref(n["recv"])) for n in T.nodes(b["tree"], "mcall") if n["name"] == "char_indices"]
    work = [x for x in scanned if x in lets]
    seen_l = set()
    while work:
        lid = work.pop()
        if lid in seen_l:
            continue
        seen_l.add(lid)
        s_ = lets[lid]
        for n in T.nodes(s_["init"]):
            if n.get("k") == "mcall":
                rty = (n["recv"].get("aty") or n["recv"].get("ty") or "")
                if rty.lstrip("&") in ("str", "std::string::String") or rty.endswith("&str"):
                    str_ops.append(n)
            if n.get("k") == "path" and T.local_of(n) in lets and "Mut" not in lets[T.local_of(n)]["pat"].get("mode", ""):
                work.append(T.local_of(n))
    if not str_ops:
        res.cannot("C09.R3", fn, "strip", "no string operation between token.value and the parsed body found", T.loc(b["tree"]))
        return
    seen = {"prefix": 0, "suffix": 0}
    for n in str_ops:
        arg = T.render(n["args"][0]) if n["args"] else ""
        if n["name"] == "strip_prefix" and arg.endswith("delimiter_start"):
            seen["prefix"] += 1
            res.holds("C09.R3", fn, "strip:" + T.render(n)[-60:])
        elif n["name"] == "strip_suffix" and arg.endswith("delimiter_end"):
            seen["suffix"] += 1
            res.holds("C09.R3", fn, "strip:" + T.render(n)[-60:])
        elif n["name"] in ("trim_start_matches", "trim_end_matches", "trim_matches", "replace", "replacen", "trim", "trim_start", "trim_end"):
            res.add(Finding("C09.R3", fn, "strip:" + n["name"], "`%s` removes every repetition (or more than the delimiter): a tag body that starts/ends with the "
                            "delimiter text loses characters" % T.render(n)[-80:], loc=T.loc(n)))
        else:
            res.info.append("C09.R3: other string op %s" % T.render(n)[-60:])
    if seen["prefix"] == 1 and seen["suffix"] == 1:
        res.discharged += 2
    elif not [f for f in res.findings if f.rule == "C09.R3"]:
        res.add(Finding("C09.R3", fn, "strip:count", "delimiters must be stripped exactly once each (prefix %d, suffix %d)" % (seen["prefix"], seen["suffix"]), loc=T.loc(b["tree"])))
