"""C08 - only the re-examination clause of leftmost-shortest recognition."""
from .. import absint as A
from .. import tree as T
from ..report import Finding
from . import fshort

LEVEL = "other"


def run(ctx, res):
    P = ctx.lib
    res.explanation = (
        "Only one clause of the property is decided (stated in DESIGN.md): a character that aborts a partially matched "
        "delimiter must itself be examined as a possible delimiter start.  DT over tokenizer::get_state: for the states that "
        "hold a partial start / end delimiter, every path on which the current character differs from the expected one is "
        "enumerated; on such a path the outcome must fork on `c == first character of the delimiter` and, when equal, must "
        "not fall back to the plain base state (Text / InDelimiter).  Necessary for `//* <tag> */` and `<<!-- <tag> -->`.  "
        "R2: an Element token kind is constructed only inside get_state (the end-of-input flush must go through the same transition function).  "
        "R5: the state after a failed partial match must depend on the matched part (needed for delimiters that overlap themselves: "
        "'// --', '-- //', 'aab'); on the pinned tree it does not - recorded as a known finding.  Not decided: the full equivalence with a textbook search.")
    res.trusted += ["driver fact extraction and the abstract interpreter"]
    b = P.fn("tokenizer::get_state")
    fn = fshort(b)
    loc = T.loc(b["tree"])
    helper = P.fn("tokenizer::check_delimiter_start", required=False)
    inline = [b["def_path"]] + ([helper["def_path"]] if helper else [])
    adt = [a for p, a in P.adts.items() if p.endswith("tokenizer::State")]
    if not adt:
        res.cannot("C08.R1", fn, "state-enum", "tokenizer::State not found", loc)
        return
    variants = {v["name"]: len(v["fields"]) for v in adt[0]["variants"]}
    # states that carry a partial match: variants with a payload (the remaining delimiter characters)
    partial = [v for v, n in variants.items() if n == 1]
    res.floor("C08.R1", "tokenizer states holding a partial delimiter match", len(partial), 2)
    arms = 0
    for st in partial:
        I = A.Interp(P, inline=inline, max_paths=400)

        def run_(J, st=st):
            state = A.Variant("State::" + st, [A.Sym("rest")])
            return J.call_fn_body(b, [A.Sym("c"), A.Sym("delimiter_start"), A.Sym("delimiter_end"), state])
        try:
            outs = I.explore(run_)
        except A.Cannot as e:
            res.cannot("C08.R1", fn, "state:" + st, str(e), loc)
            continue
        mism = [o for o in outs if o["decisions"].get("eq(c, rest.next().some)") is False and o["exit"] != "panic"]
        if not mism:
            res.cannot("C08.R1", fn, "state:" + st, "no path compares the current character with the next expected delimiter character "
                       "(atoms: %s)" % sorted({k for o in outs for k in o["decisions"]})[:6], loc)
            continue
        arms += 1
        # which delimiter is being matched in this state decides the base state
        delim = "delimiter_start" if "Start" in st else "delimiter_end"
        first_key = "eq(c, %s.chars().next().some)" % delim
        eq_paths = [o for o in mism if o["decisions"].get(first_key) is True]
        site = "mismatch-in:" + st
        if not any(first_key in o["decisions"] for o in mism):
            res.add(Finding("C08.R1", fn, site,
                            "when the character differs from the expected delimiter character in state %s it is consumed without being "
                            "compared with the first character of %s: a tag preceded by a delimiter prefix is missed "
                            "(e.g. `//* <tag> */`)" % (st, delim), loc=loc,
                            detail={"paths": [{k: str(v) for k, v in o["decisions"].items()} for o in mism][:4]}))
            continue
        bad = []
        for o in eq_paths:
            v = o["value"]
            nxt = v.items[1] if isinstance(v, A.Tuple) and len(v.items) == 2 else None
            base = "State::Text" if delim == "delimiter_start" else "State::InDelimiter"
            if not isinstance(nxt, A.Variant) or nxt.name == base or nxt.name == "State::Text":
                bad.append(A.show(v))
        # a tag that starts at this character needs a token boundary in front of it: when the partial *start* match is
        # abandoned and the character re-opens the start delimiter, the outcome must carry Some(token kind)
        if delim == "delimiter_start":
            for o in eq_paths:
                v = o["value"]
                tk = v.items[0] if isinstance(v, A.Tuple) and len(v.items) == 2 else None
                if not (isinstance(tk, A.Variant) and tk.name == "Some"):
                    bad.append("no token boundary is emitted (%s): the tag token would start before its start delimiter" % A.show(v)[:80])
        if bad or not eq_paths:
            res.add(Finding("C08.R1", fn, site, "in state %s a mismatching character that equals the first character of %s still falls back "
                            "to the base state: %s" % (st, delim, bad[:2]), loc=loc))
        else:
            res.holds("C08.R1", fn, site, "re-dispatched: on `c == first(%s)` -> %s" % (delim, A.show(eq_paths[0]["value"])[:120]))
        # R5: leftmost / first occurrence for delimiters that overlap themselves ('// --' after '/', '--' + '-- //', 'aab'):
        # after k matched characters a mismatch must fall back to the longest proper suffix of what was matched that is a
        # prefix of the delimiter - information that only the matched part can give.  An outcome that is a function of the
        # current character and the delimiter alone restarts from scratch and misses such occurrences.
        dep = [o for o in mism if "rest" in A.show(o["value"])]
        if dep:
            res.holds("C08.R5", fn, "fallback-in:" + st, "the state after a failed partial match depends on the matched part")
        else:
            res.add(Finding("C08.R5", fn, "fallback-in:" + st, "after a failed partial match in state %s the scan restarts knowing only the current character "
                            "(outcomes %s): an occurrence of %s that overlaps the failed match by two or more characters is missed - the tag is then "
                            "not recognised at the leftmost start / does not end at the first end delimiter" % (
                                st, sorted({A.show(o["value"])[:60] for o in mism})[:3], delim), loc=loc))
            res.samples.append({"state": st, "decisions": {k: str(v) for k, v in eq_paths[0]["decisions"].items()}, "outcome": A.show(eq_paths[0]["value"])[:200]})
    res.floor("C08.R1", "mismatch arms analysed", arms, 2)
    from . import c07
    c07.element_kind_sites(ctx, res, "C08.R2")
    body_and_end_search(ctx, res, b, inline, variants)


def body_and_end_search(ctx, res, b, inline, variants):
    """R3: the character that follows a complete start delimiter is a body character (at least one body character).
    R4: in every state inside a tag body the end delimiter is looked for at every character (first occurrence)."""
    P = ctx.lib
    fn = fshort(b)
    loc = T.loc(b["tree"])
    # R3: DelimiterStart with its iterator exhausted -> (None, InDelimiter) whatever c is
    I = A.Interp(P, inline=inline, max_paths=400)
    outs = I.explore(lambda J: J.call_fn_body(b, [A.Sym("c"), A.Sym("delimiter_start"), A.Sym("delimiter_end"), A.Variant("State::DelimiterStart", [A.Sym("rest")])]))
    done = [o for o in outs if o["decisions"].get("is_some(rest.next())") is False]
    if not done:
        res.cannot("C08.R3", fn, "start-complete", "no path on which the start delimiter is complete", loc)
    else:
        bad = [o for o in done if len(o["decisions"]) != 1 or A.show(o["value"]) != "(None, State::InDelimiter)"]
        if bad:
            res.add(Finding("C08.R3", fn, "first-body-character", "after a complete start delimiter the next character is not taken unconditionally as the first body character "
                            "(outcome %s under %s): a tag with an empty body / an end delimiter abutting the start delimiter would be accepted"
                            % (A.show(bad[0]["value"])[:80], {k: str(v) for k, v in bad[0]["decisions"].items()}), loc=loc))
        else:
            res.holds("C08.R3", fn, "first-body-character", "(None, InDelimiter) regardless of the character")
    # R4: body states = payload-free variants other than the base text state (the seed of tokenize's fold)
    tk = P.fn("tokenizer::tokenize")
    seed_state = None
    for n in T.nodes(tk["tree"], "mcall"):
        if n["name"] == "fold" and T.render(n["recv"]) == "source.char_indices()":
            seed = T.peel(n["args"][0])
            if seed.get("k") == "tuple" and len(seed["es"]) >= 2:
                seed_state = T.render(seed["es"][1]).split("::")[-1]
    if seed_state is None:
        # loop form: `let mut state = State::Text; for (..) in source.char_indices() { .. }`
        adt_path = None
        for s_ in T.nodes(tk["tree"], "let"):
            if s_["pat"]["p"] == "bind" and s_.get("init") is not None and "Mut" in s_["pat"].get("mode", ""):
                i_ = T.peel(s_["init"])
                if i_.get("k") == "path" and i_["res"].get("dk", "").startswith("Ctor") and "tokenizer::State::" in (i_["res"].get("path") or ""):
                    seed_state = i_["res"]["path"].split("::")[-1]
    if seed_state is None:
        res.cannot("C08.R4", fn, "base-state", "initial tokenizer state not found", loc)
        return
    body_states = [v for v, n_ in variants.items() if n_ == 0 and v != seed_state]
    res.floor("C08.R4", "payload-free tag-body states", len(body_states), 1)
    key = "eq(c, delimiter_end.chars().next().some)"
    for st in body_states:
        I = A.Interp(P, inline=inline, max_paths=400)
        try:
            outs = I.explore(lambda J, st=st: J.call_fn_body(b, [A.Sym("c"), A.Sym("delimiter_start"), A.Sym("delimiter_end"), A.Variant("State::" + st, [])]))
        except A.Cannot as e:
            res.cannot("C08.R4", fn, "state:" + st, str(e), loc)
            continue
        eq = [o for o in outs if o["decisions"].get(key) is True and o["exit"] != "panic"]
        okk = bool(eq) and all(isinstance(o["value"], A.Tuple) and isinstance(o["value"].items[1], A.Variant) and o["value"].items[1].name == "State::DelimiterEnd" for o in eq) \
            and all(key in o["decisions"] for o in outs if o["exit"] != "panic")
        if okk:
            res.holds("C08.R4", fn, "end-search-in:" + st, "c == first(delimiter_end) -> DelimiterEnd on every path")
        else:
            res.add(Finding("C08.R4", fn, "end-search-in:" + st, "in tag-body state %s a character equal to the first character of the end delimiter does not (always) start the end "
                            "match: the tag would not end at the *first* occurrence of the end delimiter" % st, loc=loc))
