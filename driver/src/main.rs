//! Fact exporter for the chiritori static checks.
//!
//! Runs as RUSTC_WORKSPACE_WRAPPER: argv[1] is the real rustc, the rest is the rustc command line.
//! After analysis it writes one JSON fact file per crate to $VERIF_FACTS_DIR:
//! typed expression trees (HIR + typeck results) of every body owner, MIR assert/call side facts,
//! and crate-level tables (ADTs, impls, traits, consts).  It never runs the analysed program.
#![feature(rustc_private)]
#![allow(clippy::all)]

extern crate rustc_abi;
extern crate rustc_ast;
extern crate rustc_driver;
extern crate rustc_hir;
extern crate rustc_interface;
extern crate rustc_middle;
extern crate rustc_session;
extern crate rustc_span;

mod json;
use json::J;

use rustc_driver::Compilation;
use rustc_hir as hir;
use rustc_hir::def::{DefKind, Res};
use rustc_hir::def_id::{DefId, LocalDefId};
use rustc_middle::mir;
use rustc_middle::ty::{self, Ty, TyCtxt, TypeckResults};
use rustc_span::Span;

macro_rules! skip_norm { ($e:expr) => { $e.skip_norm_wip() } }

const SCHEMA_VERSION: i64 = 3;

struct Callbacks;

impl rustc_driver::Callbacks for Callbacks {
    fn after_analysis<'tcx>(
        &mut self,
        _compiler: &rustc_interface::interface::Compiler,
        tcx: TyCtxt<'tcx>,
    ) -> Compilation {
        if let Ok(dir) = std::env::var("VERIF_FACTS_DIR") {
            export(tcx, &dir);
        }
        Compilation::Continue
    }
}

fn main() {
    let mut args: Vec<String> = std::env::args().collect();
    // wrapper protocol: argv[1] is the path of the real rustc
    if args.len() > 1 && (args[1].ends_with("rustc") || args[1].contains("/rustc")) {
        args.remove(1);
    }
    let mut cb = Callbacks;
    rustc_driver::run_compiler(&args, &mut cb);
}

// ------------------------------------------------------------------------------------------------

fn export(tcx: TyCtxt<'_>, dir: &str) {
    let pkg = std::env::var("CARGO_PKG_NAME").unwrap_or_else(|_| "nopkg".into());
    let krate = tcx.crate_name(rustc_hir::def_id::LOCAL_CRATE).to_string();
    let crate_types: Vec<J> = tcx
        .crate_types()
        .iter()
        .map(|t| J::s(format!("{:?}", t)))
        .collect();

    let mut bodies = vec![];
    for def_id in tcx.hir_body_owners() {
        let kind = tcx.def_kind(def_id);
        match kind {
            DefKind::Fn | DefKind::AssocFn | DefKind::Const { .. } | DefKind::AssocConst { .. } | DefKind::Static { .. } => {}
            _ => continue, // closures are exported inline; anon consts are not needed
        }
        bodies.push(export_body(tcx, def_id, kind));
    }

    let (adts, impls, traits) = export_items(tcx);

    let root = J::Obj(vec![
        ("schema", J::Num(SCHEMA_VERSION)),
        ("package", J::s(pkg.clone())),
        ("crate", J::s(krate.clone())),
        ("crate_types", J::Arr(crate_types)),
        ("adts", J::Arr(adts)),
        ("impls", J::Arr(impls)),
        ("traits", J::Arr(traits)),
        ("bodies", J::Arr(bodies)),
    ]);
    let mut out = String::new();
    root.write(&mut out);
    let kind = if tcx.crate_types().iter().any(|t| format!("{:?}", t) == "Executable") {
        "bin"
    } else {
        "lib"
    };
    let path = format!("{}/{}.{}.{}.json", dir, pkg, krate, kind);
    // one write per process (parallel crates must not interleave)
    std::fs::write(&path, out).expect("cannot write fact file");
}

fn def_path(tcx: TyCtxt<'_>, def_id: DefId) -> String {
    let s = ty::print::with_no_trimmed_paths!(tcx.def_path_str(def_id));
    if def_id.is_local() {
        format!("crate::{}", s)
    } else {
        s
    }
}

fn ty_str(ty: Ty<'_>) -> String {
    ty::print::with_no_trimmed_paths!(ty.to_string())
}

fn rel_file(name: String) -> String {
    name
}

fn span_json(tcx: TyCtxt<'_>, span: Span) -> J {
    let sm = tcx.sess.source_map();
    let sp = span.source_callsite();
    if sp.is_dummy() {
        return J::Null;
    }
    let lo = sm.lookup_char_pos(sp.lo());
    let hi = sm.lookup_char_pos(sp.hi());
    let file = match &lo.file.name {
        rustc_span::FileName::Real(r) => match r.local_path() {
            Some(p) => p.to_string_lossy().to_string(),
            None => format!("{:?}", lo.file.name),
        },
        other => format!("{:?}", other),
    };
    J::Arr(vec![
        J::s(rel_file(file)),
        J::Num(lo.line as i64),
        J::Num(lo.col.0 as i64 + 1),
        J::Num(hi.line as i64),
        J::Num(hi.col.0 as i64 + 1),
    ])
}

/// Name of the outermost user-written macro this span comes from (desugarings are not macros).
fn expansion_of(span: Span) -> Option<String> {
    let mut sp = span;
    let mut name = None;
    while sp.from_expansion() {
        let data = sp.ctxt().outer_expn_data();
        match data.kind {
            rustc_span::ExpnKind::Macro(_, n) => name = Some(n.to_string()),
            _ => {}
        }
        sp = data.call_site;
    }
    name
}

fn snippet(tcx: TyCtxt<'_>, span: Span) -> Option<String> {
    tcx.sess.source_map().span_to_snippet(span.source_callsite()).ok()
}

// ------------------------------------------------------------------------------------------------

struct Cx<'tcx> {
    tcx: TyCtxt<'tcx>,
    typeck: &'tcx TypeckResults<'tcx>,
    owner: LocalDefId,
}

fn export_body<'tcx>(tcx: TyCtxt<'tcx>, def_id: LocalDefId, kind: DefKind) -> J {
    let body = tcx.hir_body_owned_by(def_id);
    let typeck = tcx.typeck(def_id);
    let cx = Cx { tcx, typeck, owner: def_id };
    let did = def_id.to_def_id();
    let span = tcx.def_span(did);

    let mut params = vec![];
    for p in body.params {
        params.push(J::Obj(vec![
            ("pat", cx.pat(p.pat)),
            ("ty", J::s(ty_str(typeck.pat_ty(p.pat)))),
        ]));
    }
    let is_fn = matches!(kind, DefKind::Fn | DefKind::AssocFn);
    let ret_ty = if is_fn {
        let sig = tcx.fn_sig(did).instantiate_identity().skip_binder();
        J::s(ty_str(sig.output()))
    } else {
        J::s(ty_str(typeck.expr_ty(body.value)))
    };
    let vis = if is_fn { J::s(format!("{:?}", tcx.visibility(did))) } else { J::Null };

    // impl header
    let impl_of = {
        let parent = tcx.parent(did);
        if matches!(tcx.def_kind(parent), DefKind::Impl { .. }) {
            let self_ty = tcx.type_of(parent).instantiate_identity();
            let self_ty = ty_str(skip_norm!(self_ty));
            let tr = if matches!(tcx.def_kind(parent), DefKind::Impl { of_trait: true }) {
                let tr = tcx.impl_trait_ref(parent).instantiate_identity();
                let tr = skip_norm!(tr);
                J::s(def_path(tcx, tr.def_id))
            } else {
                J::Null
            };
            J::Obj(vec![
                ("trait", tr),
                ("self_ty", J::s(self_ty)),
                ("derived", J::Bool(tcx.is_automatically_derived(parent))),
            ])
        } else {
            J::Null
        }
    };

    let mirj = if is_fn { export_mir(tcx, def_id) } else { J::Null };

    J::Obj(vec![
        ("def_path", J::s(def_path(tcx, did))),
        ("kind", J::s(format!("{:?}", kind))),
        ("vis", vis),
        ("impl_of", impl_of),
        ("params", J::Arr(params)),
        ("ret_ty", ret_ty),
        ("sp", span_json(tcx, span)),
        ("exp", J::opt_s(expansion_of(span))),
        ("tree", cx.expr(body.value)),
        ("mir", mirj),
    ])
}



fn export_mir<'tcx>(tcx: TyCtxt<'tcx>, def_id: LocalDefId) -> J {
    // the body itself plus its closures
    let mut asserts = vec![];
    let mut calls = vec![];
    let mut owners = vec![def_id];
    for c in tcx.hir_body_owners() {
        if matches!(tcx.def_kind(c), DefKind::Closure) && tcx.typeck_root_def_id(c.to_def_id()) == def_id.to_def_id() {
            owners.push(c);
        }
    }
    for o in owners {
        if !tcx.is_mir_available(o.to_def_id()) {
            continue;
        }
        let body: &mir::Body<'tcx> = tcx.optimized_mir(o.to_def_id());
        for bb in body.basic_blocks.iter() {
            let Some(term) = &bb.terminator else { continue };
            let sp = term.source_info.span;
            match &term.kind {
                mir::TerminatorKind::Assert { msg, .. } => {
                    let k = match &**msg {
                        mir::AssertKind::BoundsCheck { .. } => "BoundsCheck".to_string(),
                        mir::AssertKind::Overflow(op, ..) => format!("Overflow({:?})", op),
                        mir::AssertKind::OverflowNeg(_) => "OverflowNeg".to_string(),
                        mir::AssertKind::DivisionByZero(_) => "DivisionByZero".to_string(),
                        mir::AssertKind::RemainderByZero(_) => "RemainderByZero".to_string(),
                        _ => "Other".to_string(),
                    };
                    asserts.push(J::Obj(vec![
                        ("kind", J::s(k)),
                        ("sp", span_json(tcx, sp)),
                        ("exp", J::opt_s(expansion_of(sp))),
                    ]));
                }
                mir::TerminatorKind::Call { func, .. } => {
                    if let Some((fid, _)) = func.const_fn_def() {
                        calls.push(J::Obj(vec![
                            ("callee", J::s(def_path(tcx, fid))),
                            ("sp", span_json(tcx, sp)),
                            ("exp", J::opt_s(expansion_of(sp))),
                        ]));
                    }
                }
                _ => {}
            }
        }
    }
    J::Obj(vec![("asserts", J::Arr(asserts)), ("calls", J::Arr(calls))])
}

// ------------------------------------------------------------------------------------------------

impl<'tcx> Cx<'tcx> {
    fn base(&self, k: &'static str, e: &hir::Expr<'tcx>) -> Vec<(&'static str, J)> {
        let ty = self.typeck.expr_ty(e);
        let mut v = vec![
            ("k", J::s(k)),
            ("id", J::Num(e.hir_id.local_id.as_u32() as i64)),
            ("ty", J::s(ty_str(ty))),
            ("sp", span_json(self.tcx, e.span)),
        ];
        if let Some(m) = expansion_of(e.span) {
            v.push(("exp", J::s(m)));
        }
        let adjs = self.typeck.expr_adjustments(e);
        if !adjs.is_empty() {
            let mut a = vec![];
            for adj in adjs {
                use ty::adjustment::{Adjust, AutoBorrow};
                let s = match &adj.kind {
                    Adjust::NeverToAny => "never".to_string(),
                    Adjust::Deref(d) => {
                        let dbg = format!("{:?}", d);
                        if dbg.contains("Builtin") || dbg == "None" { "deref".to_string() } else { "deref_ov".to_string() }
                    }
                    Adjust::Borrow(AutoBorrow::Ref(m)) => {
                        if format!("{:?}", m).contains("Mut") { "ref_mut".to_string() } else { "ref".to_string() }
                    }
                    Adjust::Borrow(_) => "rawptr".to_string(),
                    Adjust::Pointer(p) => format!("ptr:{:?}", p),
                    #[allow(unreachable_patterns)]
                    _ => "other".to_string(),
                };
                a.push(J::s(s));
            }
            v.push(("adj", J::Arr(a)));
            v.push(("aty", J::s(ty_str(self.typeck.expr_ty_adjusted(e)))));
        }
        v
    }

    fn res(&self, res: Res) -> J {
        match res {
            Res::Local(hid) => J::Obj(vec![
                ("r", J::s("local")),
                ("id", J::Num(hid.local_id.as_u32() as i64)),
                ("name", J::s(self.tcx.hir_name(hid).to_string())),
            ]),
            Res::Def(kind, did) => J::Obj(vec![
                ("r", J::s("def")),
                ("dk", J::s(format!("{:?}", kind))),
                ("path", J::s(def_path(self.tcx, did))),
            ]),
            Res::SelfCtor(did) => J::Obj(vec![("r", J::s("selfctor")), ("path", J::s(def_path(self.tcx, did)))]),
            other => J::Obj(vec![("r", J::s("other")), ("dbg", J::s(format!("{:?}", other)))]),
        }
    }

    fn generic_args(&self, args: ty::GenericArgsRef<'tcx>) -> J {
        J::Arr(
            args.iter()
                .filter_map(|a| a.as_type().map(|t| J::s(ty_str(t))))
                .collect(),
        )
    }

    /// Resolve a (possibly trait) method to the concrete callee where the types determine it.
    fn resolve(&self, did: DefId, args: ty::GenericArgsRef<'tcx>) -> J {
        let tcx = self.tcx;
        if !matches!(tcx.def_kind(did), DefKind::AssocFn | DefKind::Fn) {
            return J::Null;
        }
        let env = ty::TypingEnv::post_analysis(tcx, self.owner.to_def_id());
        let args = match tcx.try_normalize_erasing_regions(env, ty::Unnormalized::new_wip(args)) {
            Ok(a) => a,
            Err(_) => return J::Null,
        };
        match ty::Instance::try_resolve(tcx, env, did, args) {
            Ok(Some(inst)) => J::s(def_path(tcx, inst.def_id())),
            _ => J::Null,
        }
    }

    fn block(&self, b: &hir::Block<'tcx>) -> J {
        let mut stmts = vec![];
        for s in b.stmts {
            match s.kind {
                hir::StmtKind::Let(l) => {
                    stmts.push(J::Obj(vec![
                        ("k", J::s("let")),
                        ("sp", span_json(self.tcx, s.span)),
                        ("pat", self.pat(l.pat)),
                        ("pty", J::s(ty_str(self.typeck.pat_ty(l.pat)))),
                        ("init", l.init.map(|e| self.expr(e)).unwrap_or(J::Null)),
                        ("els", l.els.map(|b| self.block(b)).unwrap_or(J::Null)),
                        ("has_ty", J::Bool(l.ty.is_some())),
                    ]));
                }
                hir::StmtKind::Item(_) => {
                    stmts.push(J::Obj(vec![("k", J::s("item"))]));
                }
                hir::StmtKind::Expr(e) => {
                    stmts.push(J::Obj(vec![("k", J::s("expr")), ("e", self.expr(e)), ("semi", J::Bool(false))]));
                }
                hir::StmtKind::Semi(e) => {
                    stmts.push(J::Obj(vec![("k", J::s("expr")), ("e", self.expr(e)), ("semi", J::Bool(true))]));
                }
            }
        }
        let unsafe_ = !matches!(b.rules, hir::BlockCheckMode::DefaultBlock);
        J::Obj(vec![
            ("k", J::s("block")),
            ("sp", span_json(self.tcx, b.span)),
            ("unsafe", if unsafe_ { J::Bool(true) } else { J::Null }),
            ("exp", J::opt_s(expansion_of(b.span))),
            ("stmts", J::Arr(stmts)),
            ("tail", b.expr.map(|e| self.expr(e)).unwrap_or(J::Null)),
        ])
    }

    fn lit(&self, l: &hir::Lit) -> (J, &'static str) {
        use rustc_ast::LitKind;
        match &l.node {
            LitKind::Str(s, _) => (J::s(s.to_string()), "str"),
            LitKind::ByteStr(b, _) => (J::s(String::from_utf8_lossy(b.as_byte_str()).to_string()), "bytestr"),
            LitKind::CStr(b, _) => (J::s(String::from_utf8_lossy(b.as_byte_str()).to_string()), "cstr"),
            LitKind::Byte(b) => (J::Num(*b as i64), "byte"),
            LitKind::Char(c) => (J::s(c.to_string()), "char"),
            LitKind::Int(n, _) => (J::Num(n.get() as i64), "int"),
            LitKind::Float(s, _) => (J::s(s.to_string()), "float"),
            LitKind::Bool(b) => (J::Bool(*b), "bool"),
            LitKind::Err(_) => (J::Null, "err"),
        }
    }

    fn arm(&self, a: &hir::Arm<'tcx>) -> J {
        J::Obj(vec![
            ("pat", self.pat(a.pat)),
            ("guard", a.guard.map(|g| self.expr(g)).unwrap_or(J::Null)),
            ("body", self.expr(a.body)),
            ("sp", span_json(self.tcx, a.span)),
        ])
    }

    fn expr(&self, e: &hir::Expr<'tcx>) -> J {
        use hir::ExprKind as K;
        match &e.kind {
            K::DropTemps(inner) => self.expr(inner),
            K::Use(inner, _) => self.expr(inner),
            K::Lit(l) => {
                let (v, lk) = self.lit(l);
                let mut o = self.base("lit", e);
                o.push(("lk", J::s(lk)));
                // JSON has no way to skip a literal `null`, so wrap
                o.push(("v", J::Arr(vec![v])));
                J::Obj(o)
            }
            K::Path(qpath) => {
                let res = self.typeck.qpath_res(qpath, e.hir_id);
                let mut o = self.base("path", e);
                o.push(("res", self.res(res)));
                if let Res::Def(_, did) = res {
                    let args = self.typeck.node_args(e.hir_id);
                    if !args.is_empty() {
                        o.push(("generics", self.generic_args(args)));
                        o.push(("resolved", self.resolve(did, args)));
                    }
                }
                J::Obj(o)
            }
            K::Call(f, args) => {
                let mut o = self.base("call", e);
                if e.span.from_expansion() {
                    o.push(("snip", J::opt_s(snippet(self.tcx, e.span))));
                }
                o.push(("f", self.expr(f)));
                o.push(("args", J::Arr(args.iter().map(|a| self.expr(a)).collect())));
                J::Obj(o)
            }
            K::MethodCall(seg, recv, args, _) => {
                let mut o = self.base("mcall", e);
                o.push(("name", J::s(seg.ident.to_string())));
                if let Some(did) = self.typeck.type_dependent_def_id(e.hir_id) {
                    o.push(("path", J::s(def_path(self.tcx, did))));
                    let ga = self.typeck.node_args(e.hir_id);
                    o.push(("generics", self.generic_args(ga)));
                    o.push(("resolved", self.resolve(did, ga)));
                    if let Some(tr) = self.tcx.trait_of_assoc(did) {
                        o.push(("trait", J::s(def_path(self.tcx, tr))));
                    }
                }
                o.push(("recv", self.expr(recv)));
                o.push(("args", J::Arr(args.iter().map(|a| self.expr(a)).collect())));
                J::Obj(o)
            }
            K::Binary(op, l, r) => {
                let mut o = self.base("binary", e);
                o.push(("op", J::s(op.node.as_str())));
                if self.typeck.is_method_call(e) {
                    if let Some(did) = self.typeck.type_dependent_def_id(e.hir_id) {
                        o.push(("overloaded", J::s(def_path(self.tcx, did))));
                    }
                }
                o.push(("l", self.expr(l)));
                o.push(("r", self.expr(r)));
                J::Obj(o)
            }
            K::Unary(op, x) => {
                let mut o = self.base("unary", e);
                o.push(("op", J::s(op.as_str())));
                if self.typeck.is_method_call(e) {
                    if let Some(did) = self.typeck.type_dependent_def_id(e.hir_id) {
                        o.push(("overloaded", J::s(def_path(self.tcx, did))));
                    }
                }
                o.push(("e", self.expr(x)));
                J::Obj(o)
            }
            K::Cast(x, _) => {
                let mut o = self.base("cast", e);
                o.push(("e", self.expr(x)));
                J::Obj(o)
            }
            K::Type(x, _) => self.expr(x),
            K::Tup(xs) => {
                let mut o = self.base("tuple", e);
                o.push(("es", J::Arr(xs.iter().map(|a| self.expr(a)).collect())));
                J::Obj(o)
            }
            K::Array(xs) => {
                let mut o = self.base("array", e);
                o.push(("es", J::Arr(xs.iter().map(|a| self.expr(a)).collect())));
                J::Obj(o)
            }
            K::Repeat(x, _) => {
                let mut o = self.base("repeat", e);
                o.push(("e", self.expr(x)));
                J::Obj(o)
            }
            K::Let(l) => {
                let mut o = self.base("let_cond", e);
                o.push(("pat", self.pat(l.pat)));
                o.push(("e", self.expr(l.init)));
                J::Obj(o)
            }
            K::If(c, t, els) => {
                let mut o = self.base("if", e);
                o.push(("cond", self.expr(c)));
                o.push(("then", self.expr(t)));
                o.push(("els", els.map(|x| self.expr(x)).unwrap_or(J::Null)));
                J::Obj(o)
            }
            K::Loop(b, label, src, _) => {
                let mut o = self.base("loop", e);
                o.push(("desugar", J::s(format!("{:?}", src))));
                o.push(("label", J::opt_s(label.map(|l| l.ident.to_string()))));
                // re-sugar `while cond { body }`: loop { if cond { body } else { break } }
                if matches!(src, hir::LoopSource::While) {
                    if let Some(tail) = b.expr {
                        let tail = peel(tail);
                        if let K::If(c, t, Some(_)) = &tail.kind {
                            o.push(("while_cond", self.expr(c)));
                            o.push(("body", self.expr(t)));
                            return J::Obj(o);
                        }
                    }
                }
                o.push(("body", self.block(b)));
                J::Obj(o)
            }
            K::Match(scrut, arms, src) => {
                // re-sugar `for pat in iter { body }`
                if matches!(src, hir::MatchSource::ForLoopDesugar) {
                    if let Some(j) = self.for_loop(e, scrut, arms) {
                        return j;
                    }
                }
                let mut o = self.base("match", e);
                o.push(("desugar", J::s(format!("{:?}", src))));
                o.push(("scrut", self.expr(scrut)));
                o.push(("arms", J::Arr(arms.iter().map(|a| self.arm(a)).collect())));
                J::Obj(o)
            }
            K::Closure(c) => {
                let body = self.tcx.hir_body(c.body);
                let mut o = self.base("closure", e);
                o.push((
                    "params",
                    J::Arr(
                        body.params
                            .iter()
                            .map(|p| {
                                J::Obj(vec![
                                    ("pat", self.pat(p.pat)),
                                    ("ty", J::s(ty_str(self.typeck.pat_ty(p.pat)))),
                                ])
                            })
                            .collect(),
                    ),
                ));
                let mut caps = vec![];
                for cap in self.typeck.closure_min_captures_flattened(c.def_id) {
                    let name = cap.to_symbol().to_string();
                    let var = match cap.place.base {
                        rustc_middle::hir::place::PlaceBase::Upvar(u) => u.var_path.hir_id.local_id.as_u32() as i64,
                        _ => -1,
                    };
                    caps.push(J::Obj(vec![
                        ("id", J::Num(var)),
                        ("name", J::s(name)),
                        ("by", J::s(format!("{:?}", cap.info.capture_kind))),
                    ]));
                }
                o.push(("captures", J::Arr(caps)));
                o.push(("body", self.expr(body.value)));
                J::Obj(o)
            }
            K::Block(b, label) => {
                let mut o = self.base("blockexpr", e);
                o.push(("label", J::opt_s(label.map(|l| l.ident.to_string()))));
                o.push(("block", self.block(b)));
                J::Obj(o)
            }
            K::Assign(l, r, _) => {
                let mut o = self.base("assign", e);
                o.push(("l", self.expr(l)));
                o.push(("r", self.expr(r)));
                J::Obj(o)
            }
            K::AssignOp(op, l, r) => {
                let mut o = self.base("assign_op", e);
                o.push(("op", J::s(op.node.as_str())));
                if self.typeck.is_method_call(e) {
                    if let Some(did) = self.typeck.type_dependent_def_id(e.hir_id) {
                        o.push(("overloaded", J::s(def_path(self.tcx, did))));
                    }
                }
                o.push(("l", self.expr(l)));
                o.push(("r", self.expr(r)));
                J::Obj(o)
            }
            K::Field(b, ident) => {
                let mut o = self.base("field", e);
                o.push(("name", J::s(ident.to_string())));
                o.push(("base", self.expr(b)));
                J::Obj(o)
            }
            K::Index(b, i, _) => {
                let mut o = self.base("index", e);
                if self.typeck.is_method_call(e) {
                    if let Some(did) = self.typeck.type_dependent_def_id(e.hir_id) {
                        o.push(("overloaded", J::s(def_path(self.tcx, did))));
                    }
                }
                o.push(("base", self.expr(b)));
                o.push(("idx", self.expr(i)));
                J::Obj(o)
            }
            K::AddrOf(_, m, x) => {
                let mut o = self.base("addr_of", e);
                o.push(("mut", J::Bool(matches!(m, hir::Mutability::Mut))));
                o.push(("e", self.expr(x)));
                J::Obj(o)
            }
            K::Break(dest, x) => {
                let mut o = self.base("break", e);
                o.push(("label", J::opt_s(dest.label.map(|l| l.ident.to_string()))));
                o.push(("target", match dest.target_id { Ok(h) => J::Num(h.local_id.as_u32() as i64), Err(_) => J::Null }));
                o.push(("e", x.map(|x| self.expr(x)).unwrap_or(J::Null)));
                J::Obj(o)
            }
            K::Continue(dest) => {
                let mut o = self.base("continue", e);
                o.push(("target", match dest.target_id { Ok(h) => J::Num(h.local_id.as_u32() as i64), Err(_) => J::Null }));
                J::Obj(o)
            }
            K::Ret(x) => {
                let mut o = self.base("ret", e);
                o.push(("e", x.map(|x| self.expr(x)).unwrap_or(J::Null)));
                J::Obj(o)
            }
            K::Struct(qpath, fields, tail) => {
                let mut o = self.base("struct", e);
                let res = self.typeck.qpath_res(qpath, e.hir_id);
                o.push(("res", self.res(res)));
                o.push((
                    "fields",
                    J::Arr(
                        fields
                            .iter()
                            .map(|f| J::Obj(vec![("name", J::s(f.ident.to_string())), ("e", self.expr(f.expr)), ("shorthand", J::Bool(f.is_shorthand))]))
                            .collect(),
                    ),
                ));
                if let hir::StructTailExpr::Base(b) = tail {
                    o.push(("base", self.expr(b)));
                }
                J::Obj(o)
            }
            other => {
                let mut o = self.base("unknown", e);
                let dbg = format!("{:?}", other);
                let name: String = dbg.chars().take_while(|c| c.is_alphanumeric()).collect();
                o.push(("what", J::s(name)));
                o.push(("snip", J::opt_s(snippet(self.tcx, e.span))));
                J::Obj(o)
            }
        }
    }

    fn for_loop(&self, e: &hir::Expr<'tcx>, scrut: &hir::Expr<'tcx>, arms: &[hir::Arm<'tcx>]) -> Option<J> {
        use hir::ExprKind as K;
        // match IntoIterator::into_iter(ITER) { mut iter => loop { match next(&mut iter) { None => break, Some(PAT) => BODY } } }
        let K::Call(_, [iter]) = &scrut.kind else { return None };
        let [arm] = arms else { return None };
        let K::Loop(lb, label, _, _) = &peel(arm.body).kind else { return None };
        let stmt = lb.stmts.first()?;
        let inner = match stmt.kind {
            hir::StmtKind::Expr(x) | hir::StmtKind::Semi(x) => x,
            _ => return None,
        };
        let K::Match(_, inner_arms, _) = &peel(inner).kind else { return None };
        let [_none, some] = inner_arms else { return None };
        let pat: &hir::Pat<'tcx> = match &some.pat.kind {
            hir::PatKind::TupleStruct(_, [pat], _) => pat,
            hir::PatKind::Struct(_, [field], _) => field.pat,
            _ => return None,
        };
        let mut o = self.base("for", e);
        o.push(("loop_id", J::Num(peel(arm.body).hir_id.local_id.as_u32() as i64)));
        o.push(("label", J::opt_s(label.map(|l| l.ident.to_string()))));
        o.push(("pat", self.pat(pat)));
        o.push(("pat_ty", J::s(ty_str(self.typeck.pat_ty(pat)))));
        o.push(("iter", self.expr(iter)));
        o.push(("body", self.expr(some.body)));
        Some(J::Obj(o))
    }

    fn pat(&self, p: &hir::Pat<'tcx>) -> J {
        use hir::PatKind as P;
        let ty = J::s(ty_str(self.typeck.pat_ty(p)));
        match &p.kind {
            P::Wild => J::Obj(vec![("p", J::s("wild")), ("ty", ty)]),
            P::Binding(mode, hid, ident, sub) => J::Obj(vec![
                ("p", J::s("bind")),
                ("ty", ty),
                ("id", J::Num(hid.local_id.as_u32() as i64)),
                ("name", J::s(ident.to_string())),
                ("mode", J::s(format!("{:?}", mode))),
                ("sub", sub.map(|s| self.pat(s)).unwrap_or(J::Null)),
            ]),
            P::Expr(pe) => match &pe.kind {
                hir::PatExprKind::Lit { lit, negated } => {
                    let (v, lk) = self.lit(lit);
                    J::Obj(vec![("p", J::s("lit")), ("ty", ty), ("lk", J::s(lk)), ("v", J::Arr(vec![v])), ("neg", J::Bool(*negated))])
                }
                hir::PatExprKind::Path(qpath) => {
                    let res = self.typeck.qpath_res(qpath, pe.hir_id);
                    J::Obj(vec![("p", J::s("path")), ("ty", ty), ("res", self.res(res))])
                }
                #[allow(unreachable_patterns)]
                _ => J::Obj(vec![("p", J::s("unknown")), ("ty", ty), ("what", J::s("PatExpr"))]),
            },
            P::TupleStruct(qpath, pats, _) => {
                let res = self.typeck.qpath_res(qpath, p.hir_id);
                J::Obj(vec![
                    ("p", J::s("tuple_struct")),
                    ("ty", ty),
                    ("res", self.res(res)),
                    ("pats", J::Arr(pats.iter().map(|x| self.pat(x)).collect())),
                ])
            }
            P::Struct(qpath, fields, _) => {
                let res = self.typeck.qpath_res(qpath, p.hir_id);
                J::Obj(vec![
                    ("p", J::s("struct")),
                    ("ty", ty),
                    ("res", self.res(res)),
                    (
                        "fields",
                        J::Arr(fields.iter().map(|f| J::Obj(vec![("name", J::s(f.ident.to_string())), ("pat", self.pat(f.pat))])).collect()),
                    ),
                ])
            }
            P::Tuple(pats, _) => J::Obj(vec![
                ("p", J::s("tuple")),
                ("ty", ty),
                ("pats", J::Arr(pats.iter().map(|x| self.pat(x)).collect())),
            ]),
            P::Ref(inner, ..) => J::Obj(vec![("p", J::s("ref")), ("ty", ty), ("pat", self.pat(inner))]),
            P::Or(pats) => J::Obj(vec![
                ("p", J::s("or")),
                ("ty", ty),
                ("pats", J::Arr(pats.iter().map(|x| self.pat(x)).collect())),
            ]),
            other => {
                let dbg = format!("{:?}", other);
                let name: String = dbg.chars().take_while(|c| c.is_alphanumeric()).collect();
                J::Obj(vec![("p", J::s("unknown")), ("ty", ty), ("what", J::s(name))])
            }
        }
    }
}

fn peel<'a, 'tcx>(e: &'a hir::Expr<'tcx>) -> &'a hir::Expr<'tcx> {
    let mut e = e;
    loop {
        match &e.kind {
            hir::ExprKind::DropTemps(x) => e = x,
            hir::ExprKind::Use(x, _) => e = x,
            hir::ExprKind::Block(b, None) if b.stmts.is_empty() && b.expr.is_some() && matches!(b.rules, hir::BlockCheckMode::DefaultBlock) && b.span.from_expansion() => {
                e = b.expr.unwrap()
            }
            _ => return e,
        }
    }
}

// ------------------------------------------------------------------------------------------------

fn export_items<'tcx>(tcx: TyCtxt<'tcx>) -> (Vec<J>, Vec<J>, Vec<J>) {
    let mut adts = vec![];
    let mut impls = vec![];
    let mut traits = vec![];
    for id in tcx.hir_free_items() {
        let item = tcx.hir_item(id);
        let did = item.owner_id.to_def_id();
        match &item.kind {
            hir::ItemKind::Struct(..) | hir::ItemKind::Enum(..) => {
                let adt = tcx.adt_def(did);
                let mut variants = vec![];
                for v in adt.variants() {
                    let mut fields = vec![];
                    for f in v.fields.iter() {
                        let fty = tcx.type_of(f.did).instantiate_identity();
                        fields.push(J::Obj(vec![
                            ("name", J::s(f.name.to_string())),
                            ("ty", J::s(ty_str(skip_norm!(fty)))),
                            ("vis", J::s(format!("{:?}", f.vis))),
                        ]));
                    }
                    variants.push(J::Obj(vec![
                        ("name", J::s(v.name.to_string())),
                        ("path", J::s(def_path(tcx, v.def_id))),
                        ("fields", J::Arr(fields)),
                    ]));
                }
                let mut attrs = vec![];
                for a in tcx.hir_attrs(item.hir_id()) {
                    if let Some(s) = snippet(tcx, a.span()) {
                        attrs.push(J::s(s));
                    }
                }
                // attributes on fields / variants (serde helper attributes live there too)
                let mut inner_attrs = vec![];
                let vdata: Vec<&hir::VariantData<'_>> = match &item.kind {
                    hir::ItemKind::Struct(_, _, vd) => vec![vd],
                    hir::ItemKind::Enum(_, _, ed) => ed.variants.iter().map(|v| &v.data).collect(),
                    _ => vec![],
                };
                if let hir::ItemKind::Enum(_, _, ed) = &item.kind {
                    for v in ed.variants {
                        for a in tcx.hir_attrs(v.hir_id) {
                            if let Some(s) = snippet(tcx, a.span()) {
                                inner_attrs.push(J::s(format!("{}: {}", v.ident, s)));
                            }
                        }
                    }
                }
                for vd in vdata {
                    for f in vd.fields() {
                        for a in tcx.hir_attrs(f.hir_id) {
                            if let Some(s) = snippet(tcx, a.span()) {
                                inner_attrs.push(J::s(format!("{}: {}", f.ident, s)));
                            }
                        }
                    }
                }
                adts.push(J::Obj(vec![
                    ("def_path", J::s(def_path(tcx, did))),
                    ("kind", J::s(if adt.is_enum() { "enum" } else { "struct" })),
                    ("vis", J::s(format!("{:?}", tcx.visibility(did)))),
                    ("variants", J::Arr(variants)),
                    ("attrs", J::Arr(attrs)),
                    ("inner_attrs", J::Arr(inner_attrs)),
                    ("sp", span_json(tcx, item.span)),
                ]));
            }
            hir::ItemKind::Impl(imp) => {
                let self_ty = skip_norm!(tcx.type_of(did).instantiate_identity());
                let tr = if imp.of_trait.is_some() {
                    let tr = skip_norm!(tcx.impl_trait_ref(did).instantiate_identity());
                    J::s(def_path(tcx, tr.def_id))
                } else {
                    J::Null
                };
                let methods: Vec<J> = tcx
                    .associated_items(did)
                    .in_definition_order()
                    .map(|a| J::Obj(vec![("name", J::s(a.name().to_string())), ("path", J::s(def_path(tcx, a.def_id)))]))
                    .collect();
                impls.push(J::Obj(vec![
                    ("trait", tr),
                    ("self_ty", J::s(ty_str(self_ty))),
                    ("derived", J::Bool(tcx.is_automatically_derived(did))),
                    ("methods", J::Arr(methods)),
                    ("sp", span_json(tcx, item.span)),
                    ("exp", J::opt_s(expansion_of(item.span))),
                ]));
            }
            hir::ItemKind::Trait { .. } => {
                let methods: Vec<J> = tcx
                    .associated_items(did)
                    .in_definition_order()
                    .map(|a| J::Obj(vec![("name", J::s(a.name().to_string())), ("path", J::s(def_path(tcx, a.def_id)))]))
                    .collect();
                traits.push(J::Obj(vec![("def_path", J::s(def_path(tcx, did))), ("methods", J::Arr(methods))]));
            }
            _ => {}
        }
    }
    (adts, impls, traits)
}
