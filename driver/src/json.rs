//! Minimal JSON value + writer (the driver has zero cargo dependencies).

pub enum J {
    Null,
    Bool(bool),
    Num(i64),
    Str(String),
    Arr(Vec<J>),
    Obj(Vec<(&'static str, J)>),
}

impl J {
    pub fn s<T: Into<String>>(s: T) -> J {
        J::Str(s.into())
    }
    pub fn opt_s(s: Option<String>) -> J {
        match s {
            Some(s) => J::Str(s),
            None => J::Null,
        }
    }
    pub fn write(&self, out: &mut String) {
        match self {
            J::Null => out.push_str("null"),
            J::Bool(b) => out.push_str(if *b { "true" } else { "false" }),
            J::Num(n) => out.push_str(&n.to_string()),
            J::Str(s) => write_str(s, out),
            J::Arr(v) => {
                out.push('[');
                for (i, x) in v.iter().enumerate() {
                    if i > 0 {
                        out.push(',');
                    }
                    x.write(out);
                }
                out.push(']');
            }
            J::Obj(v) => {
                out.push('{');
                let mut first = true;
                for (k, x) in v.iter() {
                    if let J::Null = x {
                        continue;
                    }
                    if !first {
                        out.push(',');
                    }
                    first = false;
                    write_str(k, out);
                    out.push(':');
                    x.write(out);
                }
                out.push('}');
            }
        }
    }
}

fn write_str(s: &str, out: &mut String) {
    out.push('"');
    for c in s.chars() {
        match c {
            '"' => out.push_str("\\\""),
            '\\' => out.push_str("\\\\"),
            '\n' => out.push_str("\\n"),
            '\r' => out.push_str("\\r"),
            '\t' => out.push_str("\\t"),
            c if (c as u32) < 0x20 => out.push_str(&format!("\\u{:04x}", c as u32)),
            c => out.push(c),
        }
    }
    out.push('"');
}
