import json,os
p='/verif/DESIGN.md'
s=open(p).read()
desc=json.load(open('/verif/seeded/descriptions.json'))
rows=[]
for d in sorted(os.listdir('/verif/seeded')):
    mp='/verif/seeded/%s/meta.json'%d
    if not os.path.exists(mp): continue
    m=json.load(open(mp))
    fired=m.get('checks_fired',{})
    own=d.split('-')[0]
    cell=", ".join(("**%s**"%(",".join(v))) if k==own else ",".join(v) for k,v in fired.items())
    a,b=desc.get(d,["?","?"])
    rows.append("| %s | %s | %s | %s |"%(d,a,b,cell))
own=sum(1 for d in os.listdir('/verif/seeded') if os.path.exists('/verif/seeded/%s/meta.json'%d) and json.load(open('/verif/seeded/%s/meta.json'%d)).get('caught_by_own_property'))
sec=open('/verif/tools/_sec10.txt').read().replace("@@ROWS@@","\n".join(rows)).replace("@@N@@",str(len(rows))).replace("@@OWN@@",str(own))
if "## 10. Seeded changes" in s:
    i=s.index("## 10. Seeded changes"); j=s.index("## Appendix A")
    s=s[:i]+sec+s[j:]
else:
    i=s.index("## Appendix A")
    s=s[:i]+sec+s[i:]
i=s.index("## 9. Implementation order"); j=s.index("## 10. Seeded changes")
s=s[:i]+'''## 9. Implementation order (as it happened)

1. driver + facts loader + tree utilities; 2. DT interpreter, then the table rules C05, C06, C03, C04, C17 and the
self-validation harness with the first mutants; 3. the eleven phase-1 repairs in `/repo` (each reproduced first);
4. C02/C14 deletion discipline, C08, C09 (FSM), C10, C12, C15, C16, C18, C20; 5. units (C07) and the ledger (C01);
6. thorough tier (controls, clippy cross-reference); 7. two batches of sub-agent seeds, strengthening after each;
8. C11 and C13 as clause-level checks, repairs 12-13 and known finding 14. No property was left unchecked while
another engine was deepened: MANIFEST.json listed only what existed at every commit.

---------------------------------------------------------------------------------------------------

'''+s[j:]
open(p,'w').write(s)
