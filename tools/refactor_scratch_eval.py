#!/usr/bin/env python3
"""Like refactor_eval.py but on a scratch copy of /repo (so it can run while /repo is in use): every
<dir>/<module>/refactor<i>.diff is applied to the copy and all claimed checks are run in-process; prints the alarms."""
import os
import sys

VERIF = os.path.dirname(os.path.dirname(os.path.abspath(__file__)))
sys.path.insert(0, VERIF)
from sa import selftest  # noqa: E402

src = sys.argv[1]
only = sys.argv[2] if len(sys.argv) > 2 else None
vs = []
for m in sorted(os.listdir(src)):
    d = os.path.join(src, m)
    if not os.path.isdir(d) or (only and m != only):
        continue
    for f in sorted(os.listdir(d)):
        if (f.startswith("refactor") or f.startswith("add")) and f.endswith(".diff"):
            vs.append({"id": "%s-%s" % (m, f[:-len(".diff")].replace("refactor", "")), "kind": "benign", "patch": os.path.join(d, f), "edits": []})
out = selftest.run_variants(vs)
print("%d refactorings, %d with alarms" % (len(out), sum(1 for r in out if not r["ok"])))
