#!/usr/bin/env python3
"""Apply a patch to a scratch copy of /repo and print the findings of the given properties (all claimed ones by default)."""
import os
import sys

VERIF = os.path.dirname(os.path.dirname(os.path.abspath(__file__)))
sys.path.insert(0, VERIF)
from sa import selftest  # noqa: E402

patch = sys.argv[1]
props = sys.argv[2:] or selftest.claimed_properties()
d, scratch = selftest.make_scratch("/repo")
try:
    selftest.apply_patch(scratch, os.path.abspath(patch))
    for p in props:
        for f in selftest.run_property(p, scratch):
            print("%s [%s] %s: %s\n      site: %s" % (f.loc, f.rule, f.fn, f.message[:700], f.site))
finally:
    import shutil
    shutil.rmtree(d, ignore_errors=True)
