#!/usr/bin/env python3
"""Evaluation tool: run all claimed checks on scratch copies of /repo with each refactors/<id>/patch.diff of one round
applied (ids matched by substring, e.g. `-r4-`); prints the alarms per patch.  Safe while /repo is in use."""
import json
import os
import sys

VERIF = os.path.dirname(os.path.dirname(os.path.abspath(__file__)))
sys.path.insert(0, VERIF)
from sa import selftest  # noqa: E402

pat = sys.argv[1]
vs = []
for d in sorted(os.listdir(os.path.join(VERIF, "refactors"))):
    if pat in d and os.path.exists(os.path.join(VERIF, "refactors", d, "patch.diff")):
        vs.append({"id": d, "kind": "benign", "patch": "refactors/%s/patch.diff" % d, "edits": []})
out = selftest.run_variants(vs)
print("%d refactorings, %d with alarms" % (len(out), sum(1 for r in out if not r["ok"])))
json.dump(out, open("/tmp/rf_round_eval.json", "w"), indent=1, default=str)
