#!/usr/bin/env python3
"""Re-run every registered quick check against every kept seeded change (seeded/<id>/patch.diff): apply to /repo,
run, undo.  Updates meta.json (checks_fired, caught_by_own_property) and prints the table used in DESIGN.md."""
import json
import os
import subprocess
import sys

VERIF = os.path.dirname(os.path.dirname(os.path.abspath(__file__)))


def sh(cmd, cwd=None):
    r = subprocess.run(cmd, shell=True, cwd=cwd, stdout=subprocess.PIPE, stderr=subprocess.STDOUT, text=True)
    return r.returncode, r.stdout


def main():
    only = sys.argv[1] if len(sys.argv) > 1 else None
    rc, out = sh("git -C /repo status --porcelain")
    if out.strip():
        print("/repo is not clean")
        sys.exit(2)
    with open(os.path.join(VERIF, "MANIFEST.json")) as f:
        checks = [c["property_id"] for c in json.load(f)["checks"]]
    rows = []
    for d in sorted(os.listdir(os.path.join(VERIF, "seeded"))):
        p = os.path.join(VERIF, "seeded", d)
        patch = os.path.join(p, "patch.diff")
        if not os.path.exists(patch) or (only and only not in d):
            continue
        prop = d.split("-")[0]
        rc, out = sh("git -C /repo apply %s" % patch)
        if rc != 0:
            print(d, "PATCH DOES NOT APPLY")
            continue
        fired = {}
        try:
            for c in checks:
                rc, out = sh("VERIF_EVIDENCE_DIR=/tmp/seed-evidence ./check %s --tier quick" % c, cwd=VERIF)
                if rc != 0:
                    rules = sorted({l.split("[")[1].split("]")[0] for l in out.splitlines() if "[" + c in l and "]" in l})
                    fired[c] = rules
        finally:
            sh("git -C /repo checkout -- .")
        mp = os.path.join(p, "meta.json")
        meta = json.load(open(mp)) if os.path.exists(mp) else {"property": prop}
        meta["checks_fired"] = fired
        meta["caught_by_own_property"] = prop in fired
        meta["caught"] = bool(fired)
        json.dump(meta, open(mp, "w"), indent=1)
        rows.append((d, prop in fired, fired))
        print("%-7s own=%-5s %s" % (d, prop in fired, {k: v for k, v in fired.items()}))
    n = len(rows)
    print("%d seeds: %d caught by the property's own check, %d caught by some check, %d missed" % (
        n, sum(1 for r in rows if r[1]), sum(1 for r in rows if r[2]), sum(1 for r in rows if not r[2])))


if __name__ == "__main__":
    main()
