#!/usr/bin/env python3
"""Generates /verif/MANIFEST.json from the table below (single source of truth) and validates it."""
import json
import os

VERIF = os.path.dirname(os.path.dirname(os.path.abspath(__file__)))

TRUST = "rustc nightly HIR/typeck facts describe what stable builds; the fact exporter and rule engines (fail closed on anything unrecognised; self-validated by seeded mutants and benign variants); std/chrono/serde_json/clap library semantics as listed in the evidence"

CLAIMED = {
    "C01": dict(cat="other", tech="static analysis: panic-obligation ledger - guard-fact dataflow with difference-constraint closure and inductively checked loop invariants, verified callee summaries, units/boundary typestate, audited invariants with machine-checked premises, MIR-assert completeness cross-check, call-graph cycle classification (recursion depth)",
                text="Every panic-capable operation (140 on this tree) in the 50 functions reachable from clean/list/list_all and in the CLI's main is enumerated from the typed tree (cross-checked against the MIR Assert terminators) and must be discharged by a dominating guard / verified callee summary (48), the stated size-domain assumption for + and * (59), or an audited invariant whose code-shape premises are re-checked on every run (27); anything else is reported. The boundary half of str slices and of ranges handed to replace_range is judged by the units analysis. The audited invariants themselves (listed in the evidence), the std partial-function blacklist, stack depth and allocation failure are the trusted base.", ref="5 C01 / 3.4"),
    "C02": dict(cat="other", tech="static analysis: structural queries (deletion-only sinks, reverse application, merge-before-delete, pausing call sites) + abstract-interpretation byte-class tables of the scanners + provenance grammar of formatter range endpoints + running-total rule for the seam positions",
                text="Decides the deletion discipline that the behaviour rests on, clause by clause (each necessary): only replace_range(_, \"\") touches the cleaned text, applied back to front, after sorted insertion and overlap merging; scanners skip only ' ' and '\\t' when pausing and report only a boundary '\\n' (complete composite tables over byte class x boundary x pause); every formatter range endpoint is the seam, a pausing-scan result or that + 1 on a line break; dedent ranges are clamped by the first non-blank; marker extents are token boundaries and the unwrap pair is guarded. Not the surviving text itself, nor sortedness maintained by merge_ranges.", ref="5 C02"),
    "C03": dict(cat="other", tech="static analysis: decision-table abstract interpretation of collect_removable_ranges + structural queries (strategy selection, registry wiring, marker extents) + path enumeration of the merge_markers fold step (every marker emitted)",
                text="Complete per-element decision table (2^7 rows) of the collection fold: recursion into children on every path, ready children never dropped, ready push exactly when not skip & registered & verdict & built & non-empty; first-available strategy with a constantly available fallback; evaluator registry wiring; marker extents = tag token boundaries. Decides totality of collection, not the cursor arithmetic of merge_markers.", ref="5 C03"),
    "C04": dict(cat="other", tech="static analysis: decision table (no ready item without a verdict) + control-dependence query on formatter::format + empty-range typestate of the unwrap builder",
                text="The structural argument is the whole argument for this property: no marker without a positive verdict and a non-empty range (table rows), every formatter range is created inside the loop over removed positions and clean() formats exactly what remove() returned, 'cannot unwrap' is an empty range that the filter drops. Readiness itself is defined by the C05/C06 tables.", ref="5 C04"),
    "C05": dict(cat="proof", tech="static analysis: exhaustive decision table of TimeLimitedEvaluator::is_removal by abstract interpretation (three-orderings abstraction) + wiring rules + shape-check query in front of the lenient parser",
                text="The whole decision function over {attribute found, value present, parse ok, ordering of current vs expires} (24 rows) is extracted from the source by path-enumerating abstract interpretation and compared with the spec row by row, including the boundary second (equality) and monotonicity in the current time; wiring rules pin the parsed string, format, parser type and compared operands, and connect offset/current time to the configuration and the CLI options. chrono's parser and instant ordering are trusted.", ref="5 C05"),
    "C06": dict(cat="proof", tech="static analysis: exhaustive decision tables (marker evaluator, is_skip, skip/unregistered rows of the collection table) + name-use discipline query + clap-expansion query",
                text="Finite truth tables of MarkerEvaluator::is_removal and is_skip and the skip/unregistered rows of the collection table are extracted exhaustively; every use of a tag/attribute name or value in the library is classified (exact ==, hash lookup, pass-through; substring/case-folding/trimming operations are violations); the clap Arg feeding the target set has no default.", ref="5 C06"),
    "C07": dict(cat="other", tech="static analysis: units / boundary-typestate provenance analysis of tokenizer::tokenize + structural agreement queries + guard-fact entailment of start < end at every token slice + decision table of one step of the text-merging pass (abstract interpretation)",
                text="Consistency and boundary-ness of the two offset systems: every byte offset stored in a Token or used as a slice bound is a char_indices position or str::len (never boundary + 1 without an ASCII guard), character offsets receive only the per-character counter, value slices use the same expressions as byte_start/byte_end, byte and char cursors move in tandem, Token literals exist only in the tokenizer and tokenize returns the adjacent-Text merge; a token cut inside the scan is non-empty under its guards and dropped only when empty; one step of the merging pass joins text to preceding text (both ends extended, value re-sliced) and appends everything else; tokens are only appended. Contiguity/coverage of the scan fold as arithmetic facts are not decided.", ref="5 C07"),
    "C08": dict(cat="other", tech="static analysis: decision-table abstract interpretation of tokenizer::get_state restricted to the mismatch paths of partial-match states (re-examination; dependence of the fallback on the matched part)",
                text="One clause only (re-examination): on every path where the current character aborts a partially matched start/end delimiter, the outcome forks on `c == first delimiter character` and does not fall back to the base state when equal. Necessary for tags preceded by a delimiter prefix. Self-overlapping delimiters, shortest-end matching and the body-character clause are not decided.", ref="5 C08"),
    "C09": dict(cat="proof", tech="static analysis: transducer extraction from the parser's fold closure (abstract interpretation per state x character class) + exhaustive product-automaton equivalence with the reference grammar transducer",
                text="The attribute state machine is extracted from the source (48 state x class transitions + end-of-input actions) and the finite product with the grammar transducer of the property statement is explored completely: on every prefix of every well-formed tag body, of any length, both emit the same word/value spans and accept together; quoted values are opaque; delimiters are stripped by once-only operations. Extraction and the grammar table are the trusted base.", ref="5 C09 / 3.5"),
    "C10": dict(cat="other", tech="static analysis: linear must-flow by path enumeration of one iteration of parser::tree's loop (abstract interpretation) + name-use discipline query + slash-count abstraction of the closer normalisation + path rules on the same enumeration for cursor progress and pairing polarity",
                text="Token linearity only: on each of the enumerated paths of the loop body the fetched token is placed exactly once and the child list of the recursive call is consumed exactly once; parse() starts at token 0; on the same paths: the cursor moves by one and continues where the recursion stopped, an element is built exactly when opener and returned closer agree in name, the opener is on the list of open elements (a shared stack is pushed, passed and popped on every path), ancestors are matched by full name and the closer loses exactly one slash at both comparison sites. Demotion of crossing tags beyond token placement and sibling order are not decided.", ref="5 C10"),
    "C11": dict(cat="other", tech="static analysis: abstract-interpretation normal form of the unwrap builder (extents) + complete applicability decision table over scan results and the ordering of the two inner positions + strategy-selection queries",
                text="Clauses only (line geometry is run-time): the opening part is tag start .. second non-pausing forward line break, the closing part is second backward line break + 1 .. tag end (tag line + adjacent wrapper line on each side); the pair is built exactly when all four line breaks exist and the closing wrapper line does not start before the opening wrapper line ends (48-row table; E = S is exactly two lines between the tags), otherwise the element is untouched; the strategy is chosen by the unwrap-block attribute. That the second line break is 'the line after' in every layout and survival of inner lines are not decided here.", ref="5 C11"),
    "C12": dict(cat="other", tech="static analysis: provenance/clamp query on dedent ranges + scanner byte tables + path rule on the backward scanner (byte 0) + index-space rule with symbolic linear forms on merge_markers + path rule on one step of the block's line walk",
                text="Four clauses: only blanks are consumed (both endpoints min(_, first non-blank), anchored at the line start; seam byte established as the line break); dedent amount saturating; the backward line-break scan examines byte 0 before leaving; head/tail pair indices point at each other and spliced child indices are rebased by p -> p - offset + current + 1 under the guard offset <= p < end. Also: every line of the block is visited by a non-pausing walk and gives up a range of one of four shapes built from the tag's indentation and the common shift; the ranges of all blocks are sorted, merged and reach the deletion. Behaviour at nesting depth >= 2 beyond index validity and sortedness is not decided.", ref="5 C12"),
    "C13": dict(cat="other", tech="static analysis: exhaustive decision tables of the seam formatters (abstract interpretation) + hull-by-ordering-enumeration of format_block + path rules on IndentRemover's backward scan + completeness direction of the scanner byte tables",
                text="Clauses only (blank-line arithmetic over layouts is run-time and not decided): the range tidied at a seam is the hull of the four seam formatters asked at the seam; EmptyLineRemover removes the residual line break exactly when the seam is a line break and neither neighbour line is blank (complete 64-row table); Prev/NextLineBreakRemover remove one blank line exactly when two blank-separated line breaks precede/follow; IndentRemover must treat the start of the file as a line start (known finding: it does not), reports the indentation as beginning directly behind the line break found, acts only when the seam byte is a line break and returns what it found; the scanners pass blanks (space and tab), report a line break on a boundary and, when not pausing, pass everything else; ranges are merged within their union before deletion.", ref="5 C13"),
    "C14": dict(cat="other", tech="static analysis: abstract-interpretation byte-class tables of the scanners + constant-argument query on scanner call sites + provenance grammar of formatter range endpoints + running-total rule for the seam positions",
                text="Locality through its mechanisms: scanners stop at the first non-blank when pausing (complete tables), every seam formatter calls them pausing, every returned endpoint is seam / pausing-scan result (+1), dedent ranges are clamped per line. Decides these clauses, not verbatim survival of every stretch.", ref="5 C02/C14"),
    "C15": dict(cat="other", tech="static analysis: sibling agreement on abstract-interpretation normal forms of the three entry points + effect reachability over the resolved call graph",
                text="list and clean obtain regions from the same pure function on identically built inputs (normal forms of clean/list/list_all share tokenize/parse/build_remover; Remover::remove deletes exactly build_remove_marker's ranges; list renders all of them tagged Ready) and nothing reachable from the entry points is effectful, static-state dependent or iterates a hash container. Line numbers and highlighted text are not decided.", ref="5 C15"),
    "C16": dict(cat="other", tech="static analysis: type/derive-expansion query for the JSON schema (keys read off the generated serialize body) + non-interference (taint) query for the colour flag + byte-0 path rule + structural rules on the assembly of an item (frame order, contiguous slice chain with interpreted line bounds, numbering, tab counter) + linear-form equality of the marker padding and the number-column width",
                text="JSON shape fixed by types and the generated serialiser (keys line_range, annotated_code_block, current_status; Ready/Pending), both formats rendered from the same marker list with Some(line map); the colour flag only selects SGR constants that flow only into push_str/capacity; backward scanner examines byte 0; tabs of the code block are expanded unconditionally; nothing rewrites or re-splits listed text; the frame is padding* `_start` line-break block padding* `‾end` with each padding from its own marker's line; the shown text is a contiguous chain of content slices from the first line's start to the last line's end with the region highlighted, numbered first..=last; line range = (line of first byte, line of last byte); the tab counter counts tabs. the padding in front of each marker adds up (linear form, local definitions read through) to offset + (position - line start) + 3 x tabs, the offset being 0 without line numbers and the width of the number column read off its format string otherwise. Not decided: line numbers wider than the column, a tab as the last removed character.", ref="5 C16"),
    "C17": dict(cat="other", tech="static analysis: decision table of the pending/ready gating + loop-shape query on the pending/ready merge + ordering enumeration of the squash test",
                text="Clauses only: complete gating table (pending push exactly when not skip & registered & not verdict & collect_pending & built & non-empty; skip/unregistered/cannot-unwrap in neither list; ready list independent of the flag) and merge exhaustiveness (the pending cursor advances only inside an inner loop, each ready range pushed once unconditionally, pending tail appended), and on all endpoint orderings of one merge step: a pending range is omitted exactly when it lies wholly inside the ready range, listed as itself with status Pending, and taken up in front of a ready range exactly when it begins before that range ends. Order for partially overlapping ranges (which nested elements cannot produce) is not decided.", ref="5 C17"),
    "C18": dict(cat="other", tech="static analysis: literal / constant queries + use-classification of the delimiter parameters + registry wiring + strip-once query",
                text="Parametricity clauses: no default delimiter/tag spelling and no undocumented keyword literal in the library, integer literals in tokenizer/tag parser are 0 or 1, delimiters are used only as opaque character sequences and stripped exactly once, evaluators are keyed by the configured tag names. The relational statement itself is not decided.", ref="5 C18"),
    "C20": dict(cat="other", tech="static analysis: path-enumerating abstract interpretation of chiritori-cli::main over the clap-expanded program (wiring, dispatch table, effect order) + clap Arg table query + effect whitelist",
                text="Every path of main that reaches the library (40) is checked: option->field table, delimiter order, target set = file lines chained with flag values into a HashSet, complete dispatch table over (list, list_all, list_json), result written unmodified, input read before the output file is created, content is exactly one read, documented defaults only, effect whitelist without environment reads or zone-dependent time use. clap, the OS and I/O error exits are trusted / not decided.", ref="5 C20"),
}

NA = {
    "C19": "idempotence/composition relates the outputs of successive runs; no property of one program text decides it (DESIGN.md section 6)",
}

PENDING_REASON = "check under construction in this session (designed in DESIGN.md section 5); not claimed until its rules exist"
ALL = ["C%02d" % i for i in range(1, 21)]


def main():
    checks = []
    for pid in ALL:
        if pid not in CLAIMED:
            continue
        c = CLAIMED[pid]
        checks.append({
            "property_id": pid,
            "quick_cmd": "./check %s --tier quick" % pid,
            "thorough_cmd": "./check %s --tier thorough" % pid,
            "evidence_file": "/verif/evidence/%s.json" % pid,
            "replay_cmd_template": "./check %s --replay {path}" % pid,
            "engine": "sa",
            "level_claimed": {"category": c["cat"], "text": c["text"], "design_ref": "DESIGN.md section " + c["ref"]},
            "level_note": TRUST,
            "technique": c["tech"],
        })
    na = []
    for pid in ALL:
        if pid in CLAIMED:
            continue
        na.append({"property_id": pid, "reason": NA.get(pid, PENDING_REASON)})
    m = {
        "version": 1,
        "setup_cmd": "cd /verif/driver && CARGO_NET_OFFLINE=true cargo +nightly build --release --offline && cd /verif && python3 -m sa.facts",
        "hooks": {
            "guard": "chiritori_verif",
            "enable": "none: the static rules read /repo's unmodified source; no hook or instrumentation commit exists",
            "baseline_off_cmd": "cd /repo && cargo test --workspace --no-fail-fast --offline",
            "source_commits": [],
            "add_only": True,
        },
        "engines": [
            {"name": "driver", "path": "/verif/driver", "serves_properties": sorted(CLAIMED),
             "kind_free_text": "rustc_private fact exporter run as RUSTC_WORKSPACE_WRAPPER under `cargo +nightly check --offline --workspace` of /repo: typed HIR expression trees, MIR asserts/calls, ADT/impl tables -> JSON"},
            {"name": "sa", "path": "/verif/sa", "serves_properties": sorted(CLAIMED),
             "kind_free_text": "python3 rule engines over the facts: structural queries, decision-table abstract interpretation, flow/units/linear analyses, panic-obligation ledger, FSM extraction; ./check <id> --tier quick|thorough"},
        ],
        "checks": checks,
        "not_applicable": na,
        "notes": "Technique family: static analysis only. Genuine defects found on the pinned tree were repaired by 17 `fix:` commits in /repo; six further defects (eight entries) are recorded as known findings (known_findings.json; DESIGN.md sections 7 and 7b). Self-validation corpus: selftest/mutants.json (python3 -m sa.selftest).",
    }
    with open(os.path.join(VERIF, "MANIFEST.json"), "w") as f:
        json.dump(m, f, indent=1)
    try:
        import jsonschema
        jsonschema.validate(m, json.load(open("/root/.vp/MANIFEST.schema.json")))
        print("MANIFEST valid:", len(checks), "checks,", len(na), "not applicable")
    except ImportError:
        print("MANIFEST written (jsonschema not available in this interpreter)")


if __name__ == "__main__":
    main()
