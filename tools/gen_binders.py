#!/usr/bin/env python3
"""Write spec/binders.json: the binder list (kind, type, name) of every function of the reference tree.  Re-run whenever
/repo is changed on purpose (a `fix:` commit); sa/alpha.py uses it to undo renames of locals before the rules run."""
import json
import os
import sys

VERIF = os.path.dirname(os.path.dirname(os.path.abspath(__file__)))
sys.path.insert(0, VERIF)
from sa import alpha, facts, tree as T  # noqa: E402

f = facts.extract(repo="/repo")
out = {}
for crate in ("lib", "bin"):
    out[crate] = dict(alpha.items_of(f[crate]), binders=alpha.reference_of(T.Program(f[crate])))
with open(alpha.REF, "w") as fh:
    json.dump(out, fh, indent=0, sort_keys=True)
print({k: (len(v["fns"]), len(v["adts"]), sum(len(x) for x in v["binders"].values())) for k, v in out.items()}, "(functions, types, binders)")
