#!/bin/bash
# evaluate the module-oriented round: /tmp/seed${SEED_RND:-4}/<g>/change<i>.{diff,prop,md}, demo<i>.rs, worktree /tmp/w${SEED_RND:-4}-<g>
cd /verif
for g in "$@"; do
  for i in 1 2 3; do
    [ -f /tmp/seed${SEED_RND:-4}/$g/change$i.diff ] || continue
    prop=$(tr -d ' \n\r' < /tmp/seed${SEED_RND:-4}/$g/change$i.prop)
    SEED_SRC=/tmp/seed${SEED_RND:-4}/$g SEED_WT=/tmp/w${SEED_RND:-4}-$g SEED_ID=$prop-r${SEED_RND:-4}-$g$i SEED_ROUND=${SEED_RND:-4} python3 tools/seed_eval.py $prop $i 2>&1 | grep -E "confirmed=|fired:|APPLY|refusing" | sed "s/^/$g$i /"
  done
done
