#!/usr/bin/env python3
"""Like seed_regress.py, but every seeded change is applied to its own scratch copy of /repo and the checks run in-process,
ten at a time (/repo itself is not touched, so this can run while /repo is in use).  Updates meta.json (checks_fired,
caught_by_own_property) exactly like seed_regress.py.  usage: tools/seed_regress_scratch.py [id-substring]"""
import json
import os
import shutil
import sys
from concurrent.futures import ProcessPoolExecutor

VERIF = os.path.dirname(os.path.dirname(os.path.abspath(__file__)))
sys.path.insert(0, VERIF)
from sa import selftest  # noqa: E402


def one(d):
    dd, sc = selftest.make_scratch("/repo")
    fired = {}
    try:
        selftest.apply_patch(sc, "seeded/%s/patch.diff" % d)
        for p in selftest.claimed_properties():
            fs = selftest.run_property(p, sc)
            if fs:
                fired[p] = sorted({f.rule for f in fs})
    except Exception as e:     # a patch that no longer applies is reported, not hidden
        fired = {"_error": [repr(e)[:200]]}
    finally:
        shutil.rmtree(dd, ignore_errors=True)
    return d, fired


def main():
    only = sys.argv[1] if len(sys.argv) > 1 else None
    ds = [d for d in sorted(os.listdir(os.path.join(VERIF, "seeded")))
          if os.path.exists(os.path.join(VERIF, "seeded", d, "patch.diff")) and (not only or only in d)]
    rows = []
    import glob
    with ProcessPoolExecutor(12, initializer=selftest._own_cache) as ex:      # each worker: own fact cache / target directory
        for d, fired in ex.map(one, ds):
            prop = d.split("-")[0]
            mp = os.path.join(VERIF, "seeded", d, "meta.json")
            meta = json.load(open(mp)) if os.path.exists(mp) else {"property": prop}
            if "_error" not in fired:
                meta["checks_fired"] = fired
                meta["caught_by_own_property"] = prop in fired
                meta["caught"] = bool(fired)
                json.dump(meta, open(mp, "w"), indent=1)
            rows.append((d, prop in fired, fired))
            print("%-12s own=%-5s %s" % (d, prop in fired, {k: v[:3] for k, v in fired.items()}), flush=True)
    for c in glob.glob("/tmp/chiritori-selfcache-*"):
        shutil.rmtree(c, ignore_errors=True)
    n = len(rows)
    print("%d seeds: %d caught by the property's own check, %d caught by some check, %d missed / not applicable" % (
        n, sum(1 for r in rows if r[1]), sum(1 for r in rows if r[2] and "_error" not in r[2]), sum(1 for r in rows if not r[2] or "_error" in r[2])))


if __name__ == "__main__":
    main()
