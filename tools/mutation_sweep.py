#!/usr/bin/env python3
"""Evaluation tool (not a check): systematic small mutations of /repo's non-test source.

For every mutant (one operator changed on one line) in its own scratch copy:
  1. `cargo test --workspace --offline` - a mutant the existing suite kills, or that does not compile, is of no interest;
  2. for the survivors, every claimed check is run (statically, in-process) on the scratch copy.
The output lists the surviving mutants with the rules that report them.  Survivors that no check reports are either
equivalent mutants or behaviour the checks do not decide - they are triaged by hand (DESIGN.md section 12).

usage: tools/mutation_sweep.py [--workers 8] [--only <file-substring>] [--out /tmp/mutation_sweep.jsonl] [--limit N]"""
import argparse
import json
import multiprocessing
import os
import re
import shutil
import subprocess
import sys
import tempfile

VERIF = os.path.dirname(os.path.dirname(os.path.abspath(__file__)))
sys.path.insert(0, VERIF)

OPS = [
    (r" <= ", " < "), (r" < ", " <= "), (r" >= ", " > "), (r" > ", " >= "), (r" == ", " != "), (r" != ", " == "),
    (r" && ", " || "), (r" \|\| ", " && "),
    (r" \+ 1\b", ""), (r" - 1\b", ""), (r" \+ 1\b", " + 2"),
    (r"\btrue\b", "false"), (r"\bfalse\b", "true"),
    (r"\.min\(", ".max("), (r"\.max\(", ".min("), (r"cmp::min\(", "cmp::max("), (r"cmp::max\(", "cmp::min("),
    (r"\.iter\(\)\.rev\(\)", ".iter()"), (r"\.rev\(\)", ""),
    (r"if !", "if "), (r"\(!", "("),
    (r"\.saturating_sub\(", ".wrapping_sub("),
    (r"\bbreak;", "continue;"),
    (r"\.is_none\(\)", ".is_some()"), (r"\.is_some\(\)", ".is_none()"), (r"\.is_err\(\)", ".is_ok()"),
    (r"\.start\b", ".end"), (r"\.end\b", ".start"), (r"byte_start\b", "byte_end"), (r"byte_end\b", "byte_start"),
    (r"\.push\(", ".insert(0, "),
    (r", false\)", ", true)"), (r", true\)", ", false)"),
]


# second operator set (--ops 2): arithmetic, constants, deleted statements
OPS2 = [
    (r" \+ ", " - "), (r" - ", " + "), (r" \+= ", " -= "), (r" -= ", " += "),
    (r"\b0\b", "1"), (r"\b1\b", "0"), (r"\b1\b", "2"),
    (r"\.unwrap_or\(0\)", ".unwrap_or(1)"),
    (r"Some\((\w+)\)(?= =>)", r"Some(\1) if false"),
    (r"\.first\(\)", ".last()"), (r"\.last\(\)", ".first()"),
    (r"\.any\(", ".all("), (r"\.all\(", ".any("),
    (r"\.find\(", ".rfind("),
    (r"\.min\(([^()]*)\)", r""), (r"\.max\(([^()]*)\)", r""),
    (r"\.map\(\|v\| v \+ 1\)", ""),
    (r"' '", "'\\t'"), (r"b' '", "b'_'"), (r"b'\\n'", "b'\\r'"), (r"'\\n'", "'\\r'"),
    (r"\.strip_prefix\(", ".strip_suffix("), (r"\.strip_suffix\(", ".strip_prefix("),
    (r"\.trim_start_matches\(", ".trim_end_matches("),
    (r"\.starts_with\(", ".ends_with("),
    (r"^(\s*)(\w[\w.]*\.(?:push|push_str|extend|insert)\(.*\);)\s*$", r"\1// \2"),
    (r"^(\s*)(\w[\w.\[\]]* (?:\+|-)?= .*;)\s*$", r"\1// \2"),
    (r"^(\s*)(continue;|break;)\s*$", r"\1// \2"),
]


# third operator set (used by tools/mutation_audit.py --ops 3): sibling functions / fields exchanged, operands swapped,
# iterators shortened, results dropped
OPS3 = [
    (r"find_next_line_break_pos\(", "find_prev_line_break_pos("), (r"find_prev_line_break_pos\(", "find_next_line_break_pos("),
    (r"\.start_token\b", ".end_token"), (r"\.end_token\b", ".start_token"),
    (r"\.start_element\b", ".end_element"),
    (r"(\b[a-z_][\w.]*) < (\b[a-z_][\w.]*)", r"\2 < \1"), (r"(\b[a-z_][\w.]*) >= (\b[a-z_][\w.]*)", r"\2 >= \1"),
    (r"\.iter\(\)", ".iter().skip(1)"), (r"\.iter\(\)", ".iter().take(1)"), (r"\.into_iter\(\)", ".into_iter().skip(1)"),
    (r"\.len\(\)", ".len().saturating_sub(1)"),
    (r"= Some\(([^()]+)\);", "= None;"), (r"break Some\(([^()]+)\)", "break None"),
    (r"\.and_then\(", ".or_else(|| None).and_then("),
    (r"\.children\b", ".children.clone().into_iter().take(0).collect::<Vec<_>>()"),
    (r"\bis_removal\b(?!\()", "!is_removal"),
    (r"\.lines\(\)", ".lines().skip(1)"), (r"\.chars\(\)", ".chars().skip(1)"), (r"\.char_indices\(\)", ".char_indices().skip(1)"),
    (r"\.rev\(\)", ".rev().skip(1)"),
    (r"\.clone\(\), false\)", ".clone(), true)"),
    (r"\bcontent\.len\(\)", "0"),
    (r"unwrap_or\(0\)", "unwrap_or(usize::MAX)"),
    (r"\b(\w+)\.contains\(&([\w.]+)\)", r"!\1.contains(&\2)"),
    (r"\.is_empty\(\)", ".len() == 1"),
    (r"' ' \| '\\n' \| '\\r'", "' ' | '\\n'"),
    (r"Some\(b'\\t'\) => \{\}", "Some(b'\\t') => break false,"),
]


# fifth operator set (tools/mutation_audit.py --ops 5): two similar variables exchanged (one occurrence at a time)
_PAIRS5 = [("start_cursor", "end_cursor"), ("marker", "end_marker"), ("line_start", "line_end"), ("color_start", "color_end"), ("start_byte_pos", "end_byte_pos"),
           ("pos", "pair_start_pos"), ("range", "pending_range"), ("children", "pending_removal_children"), ("removal_tree", "pending_removal_tree"),
           ("delimiter_start", "delimiter_end"), ("first_indent_len", "indent_len"), ("indent_ofs", "indent_len"), ("current_pos", "start_byte_pos"),
           ("byte_pos", "byte_start_pos"), ("start", "end"), ("ranges", "ranges_pending"), ("write_cursor", "read_cursor"), ("name", "value"),
           ("marker_start_tab_len", "marker_end_tab_len"), ("marker_start_ofs_len", "marker_end_ofs_len"), ("line_start", "line_end_start_pos")]
OPS5 = [(r"(?<![\w.])%s(?![\w(])" % a, b) for a, b in _PAIRS5] + [(r"(?<![\w.])%s(?![\w(])" % b, a) for a, b in _PAIRS5]


def source_files(repo):
    out = []
    for root in ("chiritori/src", "chiritori-cli/src"):
        for dp, _, fs in os.walk(os.path.join(repo, root)):
            for f in fs:
                if f.endswith(".rs"):
                    out.append(os.path.relpath(os.path.join(dp, f), repo))
    return sorted(out)


def enumerate_mutants(repo, only=None, ops=None):
    ops = ops or OPS
    muts = []
    for rel in source_files(repo):
        if only and only not in rel:
            continue
        with open(os.path.join(repo, rel)) as f:
            lines = f.read().split("\n")
        in_tests = False
        for i, line in enumerate(lines):
            if re.match(r"\s*#\[cfg\(test\)\]", line) or re.match(r"\s*mod tests\b", line):
                in_tests = True
            if in_tests:
                continue
            s = line.strip()
            if not s or s.startswith("//") or s.startswith("#[") or s.startswith("use ") or "///" in line:
                continue
            code = line.split("//")[0]
            for pat, rep in ops:
                for k, m in enumerate(re.finditer(pat, code)):
                    # skip generics / lifetimes / arrows
                    seg = code[max(0, m.start() - 2):m.end() + 2]
                    if "->" in seg or "=>" in seg or "<'" in seg or "::<" in seg:
                        continue
                    new = code[:m.start()] + m.expand(rep) + code[m.end():] + line[len(code):]
                    muts.append({"file": rel, "line": i + 1, "op": "%s -> %s" % (pat, rep), "occ": k, "orig": line, "new": new})
    return muts


def _run_tests(repo, env, timeout=300):
    """The suite in its own process group, with an address-space limit: a mutant that loops or allocates without bound
    is killed as a group (the test binary is a grandchild of the shell) instead of being left behind."""
    import signal
    p = subprocess.Popen("ulimit -v 8000000; cargo test --workspace --offline -q 2>&1 | tail -40", shell=True, cwd=repo, env=env,
                         stdout=subprocess.PIPE, text=True, start_new_session=True)
    try:
        out, _ = p.communicate(timeout=timeout)
        return out
    except subprocess.TimeoutExpired:
        os.killpg(p.pid, signal.SIGKILL)
        p.communicate()
        raise


def worker(args):
    wid, muts, out_path = args
    from sa import facts, selftest
    props = selftest.claimed_properties()
    d = tempfile.mkdtemp(prefix="chiritori-mut-%d-" % wid)
    repo = os.path.join(d, "repo")
    shutil.copytree("/repo", repo, ignore=shutil.ignore_patterns("target", ".git", "images", "node_modules"))
    env = dict(os.environ, CARGO_NET_OFFLINE="true", CARGO_TARGET_DIR=os.path.join(d, "target"))
    try:
        subprocess.run("cargo test --workspace --offline --no-run -q", shell=True, cwd=repo, env=env, stdout=subprocess.DEVNULL, stderr=subprocess.DEVNULL)
        for mu in muts:
            p = os.path.join(repo, mu["file"])
            with open(p) as f:
                orig = f.read()
            lines = orig.split("\n")
            if lines[mu["line"] - 1] != mu["orig"]:
                continue
            lines[mu["line"] - 1] = mu["new"]
            with open(p, "w") as f:
                f.write("\n".join(lines))
            rec = dict(mu)
            try:
                out = _run_tests(repo, env)
                if "error[" in out or "error:" in out and "test result" not in out:
                    rec["tests"] = "no-compile"
                elif "FAILED" in out or "panicked" in out or "test result: FAILED" in out:
                    rec["tests"] = "killed"
                elif out.count("test result: ok") >= 3:
                    rec["tests"] = "survived"
                else:
                    rec["tests"] = "unknown"
                if rec["tests"] == "survived":
                    fired = {}
                    try:
                        for pr in props:
                            fs = selftest.run_property(pr, repo)
                            if fs:
                                fired[pr] = sorted({f_.rule for f_ in fs})[:6]
                    except facts.ExtractionError as e:
                        fired = {"_extract": [str(e)[-120:]]}
                    rec["fired"] = fired
            except subprocess.TimeoutExpired:
                rec["tests"] = "timeout"       # a mutant that loops forever (or allocates without bound) counts as killed
            finally:
                with open(p, "w") as f:
                    f.write(orig)
            with open(out_path, "a") as f:
                f.write(json.dumps(rec) + "\n")
    finally:
        shutil.rmtree(d, ignore_errors=True)
    return wid


def recheck(path):
    """Re-run the checks (only) on the survivors recorded in an earlier sweep."""
    from sa import facts, selftest
    recs = [json.loads(l) for l in open(path)]
    props = selftest.claimed_properties()
    d, repo = selftest.make_scratch("/repo")
    try:
        for r in recs:
            if r.get("tests") != "survived":
                continue
            p = os.path.join(repo, r["file"])
            orig = open(p).read()
            lines = orig.split("\n")
            if lines[r["line"] - 1] != r["orig"]:
                r["fired"] = {"_stale": []}
                continue
            lines[r["line"] - 1] = r["new"]
            open(p, "w").write("\n".join(lines))
            fired = {}
            try:
                for pr in props:
                    fs = selftest.run_property(pr, repo)
                    if fs:
                        fired[pr] = sorted({f_.rule for f_ in fs})[:6]
            except facts.ExtractionError as e:
                fired = {"_extract": [str(e)[-80:]]}
            finally:
                open(p, "w").write(orig)
            r["fired"] = fired
    finally:
        shutil.rmtree(d, ignore_errors=True)
    with open(path, "w") as f:
        for r in recs:
            f.write(json.dumps(r) + "\n")
    surv = [r for r in recs if r.get("tests") == "survived"]
    rep = [r for r in surv if r.get("fired")]
    print("%d survivors: %d reported, %d not" % (len(surv), len(rep), len(surv) - len(rep)))
    for r in surv:
        if not r.get("fired"):
            print("  unreported: %s:%d  %s" % (r["file"], r["line"], r["new"].strip()[:100]))


def main():
    if len(sys.argv) > 2 and sys.argv[1] == "--recheck":
        recheck(sys.argv[2])
        return
    ap = argparse.ArgumentParser()
    ap.add_argument("--workers", type=int, default=8)
    ap.add_argument("--only")
    ap.add_argument("--out", default="/tmp/mutation_sweep.jsonl")
    ap.add_argument("--limit", type=int)
    ap.add_argument("--ops", type=int, default=1)
    a = ap.parse_args()
    muts = enumerate_mutants("/repo", a.only, OPS if a.ops == 1 else OPS2)
    if a.limit:
        muts = muts[:a.limit]
    print(len(muts), "mutants")
    if os.path.exists(a.out):
        os.remove(a.out)
    chunks = [muts[i::a.workers] for i in range(a.workers)]
    with multiprocessing.Pool(a.workers) as pool:
        for wid in pool.imap_unordered(worker, [(i, c, a.out) for i, c in enumerate(chunks)]):
            print("worker", wid, "done", flush=True)
    recs = [json.loads(l) for l in open(a.out)]
    surv = [r for r in recs if r.get("tests") == "survived"]
    rep = [r for r in surv if r.get("fired")]
    print("%d mutants: %d do not compile, %d killed by the suite, %d survive; of the survivors %d are reported by a check, %d are not" % (
        len(recs), sum(1 for r in recs if r["tests"] == "no-compile"), sum(1 for r in recs if r["tests"] == "killed"), len(surv), len(rep), len(surv) - len(rep)))


if __name__ == "__main__":
    main()
