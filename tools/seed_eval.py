#!/usr/bin/env python3
"""Confirm a seeded change produced by an independent sub-agent and run the registered checks against it.

usage: tools/seed_eval.py <PROP> <i> [--keep-anyway]
 1. in the scratch worktree /tmp/wt-<PROP>: demo passes on the unchanged tree; with the patch the unedited suite passes
    and the demo fails;
 2. apply the patch to /repo (git apply), run every registered quick check, undo (git checkout -- .);
 3. store /verif/seeded/<PROP>-<i>/{patch.diff, demo.*, notes.md, meta.json}."""
import json
import os
import shutil
import subprocess
import sys

VERIF = os.path.dirname(os.path.dirname(os.path.abspath(__file__)))


def sh(cmd, cwd=None, env=None, timeout=1800):
    e = dict(os.environ)
    e["CARGO_NET_OFFLINE"] = "true"
    if env:
        e.update(env)
    r = subprocess.run(cmd, shell=True, cwd=cwd, env=e, stdout=subprocess.PIPE, stderr=subprocess.STDOUT, text=True, timeout=timeout)
    return r.returncode, r.stdout


def main():
    prop, i = sys.argv[1], sys.argv[2]
    rnd = os.environ.get("SEED_ROUND", "1")
    src = "/tmp/seed-out/%s" % prop if rnd == "1" else "/tmp/seed%s/%s" % (rnd, prop)
    wt = "/tmp/wt-%s" % prop if rnd == "1" else "/tmp/w%s-%s" % (rnd, prop)
    sid = "%s-%s" % (prop, i) if rnd == "1" else "%s-r%s-%s" % (prop, rnd, i)
    # explicit locations (module-oriented rounds): SEED_SRC = directory with change<i>.diff / demo<i>.*, SEED_WT = worktree,
    # SEED_ID = name under seeded/
    if os.environ.get("SEED_SRC"):
        src, wt, sid = os.environ["SEED_SRC"], os.environ["SEED_WT"], os.environ["SEED_ID"]
    patch = os.path.join(src, "change%s.diff" % i)
    demo_rs = os.path.join(src, "demo%s.rs" % i)
    demo_sh = os.path.join(src, "demo%s.sh" % i)
    env = {"CARGO_TARGET_DIR": os.path.join(wt, "target")}
    meta = {"property": prop, "change": int(i), "ran": []}

    def reset():
        sh("git checkout -- . && rm -rf chiritori/tests", cwd=wt)

    def run_demo():
        if os.path.exists(demo_rs):
            os.makedirs(os.path.join(wt, "chiritori", "tests"), exist_ok=True)
            shutil.copy(demo_rs, os.path.join(wt, "chiritori", "tests", "demo.rs"))
            rc, out = sh("cargo test --offline -p chiritori --test demo 2>&1 | tail -15", cwd=wt, env=env)
            ok = "test result: ok" in out and "FAILED" not in out and "error" not in out.split("test result")[0][-400:]
            shutil.rmtree(os.path.join(wt, "chiritori", "tests"), ignore_errors=True)
            return ok, out[-600:]
        rc, out = sh("bash %s 2>&1 | tail -15" % demo_sh, cwd=wt, env=env)
        rc2, _ = sh("bash %s >/dev/null 2>&1" % demo_sh, cwd=wt, env=env)
        return rc2 == 0, out[-600:]

    checks_only = "--checks-only" in sys.argv
    d_existing = os.path.join(VERIF, "seeded", sid, "meta.json")
    if checks_only and os.path.exists(d_existing):
        with open(d_existing) as f:
            meta = json.load(f)
        confirmed = meta.get("confirmed", False)
        return_checks(prop, i, patch, meta, confirmed, src, demo_rs, demo_sh, sid)
        return
    reset()
    ok0, out0 = run_demo()
    meta["ran"].append({"step": "demo on unchanged tree", "passes": ok0})
    rc, out = sh("git apply %s" % patch, cwd=wt)
    if rc != 0:
        print("PATCH DOES NOT APPLY", out)
        reset()
        sys.exit(2)
    rc, out = sh("cargo test --workspace --offline 2>&1 | grep -E '^test result|FAILED|error(\\[|:)' | head", cwd=wt, env=env)
    suite_ok = "FAILED" not in out and "error" not in out and out.count("test result: ok") >= 3
    meta["ran"].append({"step": "existing suite with the change", "passes": suite_ok, "output": out.strip()})
    ok1, out1 = run_demo()
    meta["ran"].append({"step": "demo with the change", "passes": ok1, "tail": out1[-300:]})
    reset()
    confirmed = ok0 and suite_ok and (not ok1)
    meta["confirmed"] = confirmed
    print("%s-%s confirmed=%s (demo clean: %s, suite with change: %s, demo with change: %s)" % (prop, i, confirmed, ok0, suite_ok, ok1))
    if "--confirm-only" in sys.argv:
        # confirmation in the worktree only (can run in parallel); the checks are run later with --checks-only / seed_regress.py
        if confirmed:
            d = os.path.join(VERIF, "seeded", sid)
            os.makedirs(d, exist_ok=True)
            shutil.copy(patch, os.path.join(d, "patch.diff"))
            for f in (demo_rs, demo_sh):
                if os.path.exists(f):
                    shutil.copy(f, os.path.join(d, "demo" + os.path.splitext(f)[1]))
            md = os.path.join(src, "change%s.md" % i)
            if os.path.exists(md):
                shutil.copy(md, os.path.join(d, "notes.md"))
            with open(os.path.join(d, "meta.json"), "w") as f:
                json.dump(meta, f, indent=1)
        return
    return_checks(prop, i, patch, meta, confirmed, src, demo_rs, demo_sh, sid)


def return_checks(prop, i, patch, meta, confirmed, src, demo_rs, demo_sh, sid):
    # run the checks against /repo with the patch
    rc, out = sh("git -C /repo status --porcelain")
    if out.strip():
        print("/repo is not clean, refusing")
        sys.exit(3)
    rc, out = sh("git -C /repo apply %s" % patch)
    fired = {}
    try:
        with open(os.path.join(VERIF, "MANIFEST.json")) as f:
            checks = [c["property_id"] for c in json.load(f)["checks"]]
        for c in checks:
            rc, out = sh("VERIF_EVIDENCE_DIR=/tmp/seed-evidence ./check %s --tier quick" % c, cwd=VERIF)
            if rc != 0:
                lines = [l for l in out.splitlines() if l.startswith("    site:") or ("[" + c) in l]
                fired[c] = [l.strip()[:300] for l in lines][:6]
    finally:
        sh("git -C /repo checkout -- .")
    meta["checks_fired"] = fired
    meta["caught_by_own_property"] = prop in fired
    print("   fired:", {k: len(v) for k, v in fired.items()})
    for k, v in fired.items():
        for l in v[:2]:
            print("      ", k, l[:220])
    if confirmed or "--keep-anyway" in sys.argv:
        d = os.path.join(VERIF, "seeded", sid)
        os.makedirs(d, exist_ok=True)
        shutil.copy(patch, os.path.join(d, "patch.diff"))
        for f in (demo_rs, demo_sh):
            if os.path.exists(f):
                shutil.copy(f, os.path.join(d, os.path.basename(f).replace(str(i), "", 1) if False else ("demo" + os.path.splitext(f)[1])))
        md = os.path.join(src, "change%s.md" % i)
        if os.path.exists(md):
            shutil.copy(md, os.path.join(d, "notes.md"))
        with open(os.path.join(d, "meta.json"), "w") as f:
            json.dump(meta, f, indent=1)


if __name__ == "__main__":
    main()
