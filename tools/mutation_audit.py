#!/usr/bin/env python3
"""Evaluation tool (not a check): which one-line mutants does *no* check report, whatever the test suite says about them?

tools/mutation_sweep.py looks only at mutants that the existing suite lets through.  This audit drops that filter: every
mutant of both operator sets that still compiles is analysed (statically, in-process, on a scratch copy); the output lists
the mutants no claimed check reports.  Most of those change behaviour (the suite kills them), so each is either a clause the
checks do not decide (rendering arithmetic, CLI exit codes, ...) or a hole - they are triaged by hand (DESIGN.md section 12).

usage: tools/mutation_audit.py [--workers 10] [--only <file-substring>] [--out /tmp/mutation_audit.jsonl]"""
import argparse
import json
import multiprocessing
import os
import shutil
import sys

VERIF = os.path.dirname(os.path.dirname(os.path.abspath(__file__)))
sys.path.insert(0, VERIF)
sys.path.insert(0, os.path.join(VERIF, "tools"))
import mutation_sweep as MS    # noqa: E402


def enumerate_block_mutants(repo, only=None):
    """Operator set 4: a guard dropped - an `if .. { .. }` block without `else` (at most six lines) removed as a whole, and an
    `else` branch emptied."""
    import re
    muts = []
    for rel in MS.source_files(repo):
        if only and only not in rel:
            continue
        lines = open(os.path.join(repo, rel)).read().split("\n")
        in_tests = False
        for i, line in enumerate(lines):
            if re.match(r"\s*#\[cfg\(test\)\]", line) or re.match(r"\s*mod tests\b", line):
                in_tests = True
            if in_tests:
                continue
            m = re.match(r"^(\s*)if .*\{\s*$", line)
            if not m or line.strip().startswith("} else"):
                continue
            ind = m.group(1)
            for j in range(i + 1, min(i + 7, len(lines))):
                if lines[j] == ind + "}":
                    muts.append({"file": rel, "line": i + 1, "op": "if-block removed", "occ": 0, "orig": line, "new": None, "span": [i, j]})
                    break
                if lines[j].startswith(ind + "}"):
                    break
    return muts


def worker(args):
    wid, muts, out_path = args
    import tempfile
    cache = tempfile.mkdtemp(prefix="chiritori-auditcache-")
    os.environ["VERIF_FACTS_CACHE"] = cache          # own fact cache and target directory: no waiting for the other workers
    from sa import facts, selftest
    facts.CACHE = cache
    props = selftest.claimed_properties()
    d, repo = selftest.make_scratch("/repo")
    try:
        for mu in muts:
            p = os.path.join(repo, mu["file"])
            orig = open(p).read()
            lines = orig.split("\n")
            if lines[mu["line"] - 1] != mu["orig"]:
                continue
            if mu.get("span"):
                a_, b_ = mu["span"]
                lines[a_:b_ + 1] = []
            else:
                lines[mu["line"] - 1] = mu["new"]
            open(p, "w").write("\n".join(lines))
            rec = dict(mu)
            fired = {}
            try:
                for pr in props:
                    fs = selftest.run_property(pr, repo)
                    if fs:
                        fired[pr] = sorted({f_.rule for f_ in fs})[:4]
                rec["fired"] = fired
            except facts.ExtractionError:
                rec["fired"] = None          # does not compile
            except Exception as e:           # noqa: BLE001
                rec["fired"] = {"_error": [repr(e)[:120]]}
            finally:
                open(p, "w").write(orig)
            with open(out_path, "a") as f:
                f.write(json.dumps(rec) + "\n")
    finally:
        shutil.rmtree(d, ignore_errors=True)
        shutil.rmtree(cache, ignore_errors=True)
    return wid


def main():
    ap = argparse.ArgumentParser()
    ap.add_argument("--workers", type=int, default=10)
    ap.add_argument("--only")
    ap.add_argument("--out", default="/tmp/mutation_audit.jsonl")
    ap.add_argument("--ops", default="12", help="operator sets to apply: any of 1, 2, 3, 4, 5")
    a = ap.parse_args()
    muts = []
    for k, ops in (("1", MS.OPS), ("2", MS.OPS2), ("3", MS.OPS3), ("5", MS.OPS5)):
        if k in a.ops:
            muts += MS.enumerate_mutants("/repo", a.only, ops)
    if "4" in a.ops:
        muts += enumerate_block_mutants("/repo", a.only)
    seen = set()
    uniq = []
    for m in muts:
        k = (m["file"], m["line"], m["new"], str(m.get("span")))
        if k not in seen and m["new"] != m["orig"]:
            seen.add(k)
            uniq.append(m)
    if os.path.exists(a.out):
        os.remove(a.out)
    chunks = [(i, uniq[i::a.workers], a.out) for i in range(a.workers)]
    with multiprocessing.Pool(a.workers) as pool:
        pool.map(worker, chunks)
    recs = [json.loads(l) for l in open(a.out)]
    comp = [r for r in recs if r["fired"] is not None]
    silent = [r for r in comp if not r["fired"]]
    print("%d mutants, %d compile, %d reported by at least one check, %d by none" % (len(recs), len(comp), len(comp) - len(silent), len(silent)))
    for r in sorted(silent, key=lambda r: (r["file"], r["line"])):
        print("  %s:%d  %s   =>   %s" % (r["file"], r["line"], r["orig"].strip()[:70], (r["new"] or "<block removed>").strip()[:70]))


if __name__ == "__main__":
    main()
