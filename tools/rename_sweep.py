#!/usr/bin/env python3
"""Name-independence sweep: rename one local binding at a time (inside the source span of its function only) in a scratch
copy of /repo and run every claimed check on the result.  A rename of a local preserves behaviour, so every alarm is a
false alarm caused by a rule that keys on a spelling; the sweep lists them.  Variants that do not compile (struct-field
shorthand, macro captures) are skipped.

usage: tools/rename_sweep.py [--only <fn-substring>] [--out file.json]"""
import argparse
import json
import os
import re
import sys

VERIF = os.path.dirname(os.path.dirname(os.path.abspath(__file__)))
sys.path.insert(0, VERIF)
from sa import facts, selftest, tree as T  # noqa: E402


def locals_of(body):
    """(name, first line, last line) of every local binding of a body."""
    names = set()
    for p in body.get("params", []):
        for x in T.pat_nodes(p["pat"]):
            if x.get("p") == "bind":
                names.add(x["name"])
    for n in T.nodes(body["tree"]):
        pats = []
        if n.get("k") in ("let", "let_cond", "for"):
            pats.append(n.get("pat"))
        if n.get("k") == "closure":
            pats += [p["pat"] for p in n.get("params", [])]
        if n.get("k") == "match":
            pats += [a.get("pat") for a in n.get("arms", [])]
        for p in pats:
            for x in T.pat_nodes(p):
                if x.get("p") == "bind":
                    names.add(x["name"])
    return names


def main():
    ap = argparse.ArgumentParser()
    ap.add_argument("--only")
    ap.add_argument("--out", default="/tmp/rename_sweep.json")
    a = ap.parse_args()
    f = facts.extract(repo="/repo")
    props = selftest.claimed_properties()
    d, scratch = selftest.make_scratch("/repo")
    results = []
    try:
        for crate, fs in ((k, v) for k, v in f.items() if k in ("lib", "bin")):
            P = T.Program(fs)
            for b in P.user_bodies():
                fn = T.short_path(b["def_path"])
                if a.only and a.only not in fn:
                    continue
                sp = b["tree"].get("sp")
                if not sp or "/tests" in sp[0] or fn.split("::")[-2:-1] == ["tests"] or "::tests::" in b["def_path"]:
                    continue
                path = os.path.join(scratch, sp[0])
                if not os.path.exists(path):
                    continue
                with open(path) as fh:
                    lines = fh.read().split("\n")
                # the function's source: from the line of `fn` (search upwards from the body) to the end of the body
                lo, hi = sp[1] - 1, sp[3]
                while lo > 0 and not re.search(r"\bfn\b", lines[lo]):
                    lo -= 1
                for name in sorted(locals_of(b)):
                    if name in ("self", "_") or len(name) < 2:
                        continue
                    new = name + "_rn"
                    pat = re.compile(r"(?<![\w.])%s(?!\w)(?!\s*:[^:])" % re.escape(name))
                    decl = re.compile(r"(?<![\w.])%s(?=\s*:[^:])" % re.escape(name))
                    seg = lines[lo:hi]
                    seg2 = []
                    for k, l in enumerate(seg):
                        l2 = pat.sub(new, l)
                        # `name: Type` is a declaration in the signature, after `let` and in closure parameters; elsewhere it is a
                        # struct-literal field and stays
                        if lo + k < sp[1] - 1 or re.search(r"\blet\s+(mut\s+)?%s\s*:" % re.escape(name), l) or re.search(r"\|[^|]*\b%s\s*:" % re.escape(name), l):
                            l2 = decl.sub(new, l2)
                        seg2.append(l2)
                    if seg2 == seg:
                        continue
                    with open(path, "w") as fh:
                        fh.write("\n".join(lines[:lo] + seg2 + lines[hi:]))
                    noisy = []
                    try:
                        for p in props:
                            for x in selftest.run_property(p, scratch):
                                noisy.append(x.key)
                        status = "ALARM" if noisy else "silent"
                    except facts.ExtractionError:
                        status = "nocompile"
                    finally:
                        with open(path, "w") as fh:
                            fh.write("\n".join(lines))
                    results.append({"fn": fn, "local": name, "status": status, "alarms": noisy[:6]})
                    if status != "nocompile":
                        print("%-60s %-22s %s %s" % (fn[-60:], name, status, noisy[:2] if noisy else ""), flush=True)
    finally:
        import shutil
        shutil.rmtree(d, ignore_errors=True)
    with open(a.out, "w") as fh:
        json.dump(results, fh, indent=1)
    n = [r for r in results if r["status"] != "nocompile"]
    print("%d renames analysed, %d alarmed, %d skipped (do not compile)" % (len(n), sum(1 for r in n if r["status"] == "ALARM"), len(results) - len(n)))


if __name__ == "__main__":
    main()
