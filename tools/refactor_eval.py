#!/usr/bin/env python3
"""Run every registered quick check against behaviour-preserving refactorings written by independent sub-agents
(/tmp/refac/<module>/refactor<i>.diff): apply to /repo, run, undo.  Any alarm is a candidate false alarm and is
triaged by hand (DESIGN.md section 11).  Kept under /verif/refactors/<module>-<i>/."""
import json
import os
import shutil
import subprocess
import sys

VERIF = os.path.dirname(os.path.dirname(os.path.abspath(__file__)))


def sh(cmd, cwd=None):
    r = subprocess.run(cmd, shell=True, cwd=cwd, stdout=subprocess.PIPE, stderr=subprocess.STDOUT, text=True)
    return r.returncode, r.stdout


def main():
    src = sys.argv[1] if len(sys.argv) > 1 else "/tmp/refac"
    rc, out = sh("git -C /repo status --porcelain")
    if out.strip():
        print("/repo is not clean")
        sys.exit(2)
    with open(os.path.join(VERIF, "MANIFEST.json")) as f:
        checks = [c["property_id"] for c in json.load(f)["checks"]]
    from_kept = src.rstrip("/").endswith("refactors")
    items = []
    if from_kept:
        for d in sorted(os.listdir(src)):
            if os.path.exists(os.path.join(src, d, "patch.diff")):
                items.append((d, os.path.join(src, d, "patch.diff"), None))
    else:
        for m in sorted(os.listdir(src)):
            if not os.path.isdir(os.path.join(src, m)):
                continue
            for f in sorted(os.listdir(os.path.join(src, m))):
                if f.startswith("refactor") and f.endswith(".diff"):
                    i = f[len("refactor"):-len(".diff")]
                    items.append(("%s-%s" % (m, i), os.path.join(src, m, f), os.path.join(src, m, "refactor%s.md" % i)))
    total = silent = 0
    for sid, patch, notes in items:
        rc, out = sh("git -C /repo apply %s" % patch)
        if rc != 0:
            print("%-8s PATCH DOES NOT APPLY" % sid)
            continue
        fired = {}
        try:
            rc, o2 = sh("cargo test --workspace --offline 2>&1 | grep -E '^test result|FAILED' | head -4", cwd="/repo")
            suite_ok = "FAILED" not in o2 and o2.count("test result: ok") >= 3
            for c in checks:
                rc, out = sh("VERIF_EVIDENCE_DIR=/tmp/seed-evidence ./check %s --tier quick" % c, cwd=VERIF)
                if rc != 0:
                    fired[c] = sorted({l.split("[")[1].split("]")[0] + ("*" if "CANNOT-ANALYSE" in l else "") for l in out.splitlines() if "[" + c in l and "]" in l})
        finally:
            sh("git -C /repo checkout -- .")
        total += 1
        silent += 0 if fired else 1
        print("%-8s suite=%s %s" % (sid, "ok" if suite_ok else "FAIL", fired if fired else "silent"))
        if not from_kept:
            d = os.path.join(VERIF, "refactors", sid)
            os.makedirs(d, exist_ok=True)
            shutil.copy(patch, os.path.join(d, "patch.diff"))
            if notes and os.path.exists(notes):
                shutil.copy(notes, os.path.join(d, "notes.md"))
            json.dump({"id": sid, "suite_passes": suite_ok, "checks_fired": fired}, open(os.path.join(d, "meta.json"), "w"), indent=1)
        else:
            mp = os.path.join(src, sid, "meta.json")
            meta = json.load(open(mp)) if os.path.exists(mp) else {"id": sid}
            meta["checks_fired"] = fired
            json.dump(meta, open(mp, "w"), indent=1)
    print("%d refactorings: %d silent, %d with alarms" % (total, silent, total - silent))


if __name__ == "__main__":
    main()
