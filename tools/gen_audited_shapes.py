#!/usr/bin/env python3
"""Fill in the `shape` of every audited site of spec/audited.json from the current tree (the entry must match an obligation
by its site text).  Run after editing audited.json; the shapes let C01 find an entry again when a local was renamed."""
import json
import os
import sys

VERIF = os.path.dirname(os.path.dirname(os.path.abspath(__file__)))
sys.path.insert(0, VERIF)
from sa import facts, oblig, report  # noqa: E402
from sa.rules import Ctx, c01, fshort  # noqa: E402


def main():
    f = facts.extract(repo="/repo")
    ctx = Ctx(f, "quick", "/repo")
    res = report.Result("C01", c01.LEVEL)
    c01.run(ctx, res)            # populates ctx._c01_sites
    p = os.path.join(VERIF, "spec", "audited.json")
    spec = json.load(open(p))
    n = 0
    for e in spec["sites"]:
        hits = [sh for (fn, key, sh) in ctx._c01_sites if fn == e["fn"] and key == c01.aud_key(e["site"])]
        if len(set(hits)) == 1:
            e["shape"] = hits[0]
            n += 1
        else:
            print("no unique obligation for", e["fn"], e["site"], hits)
    json.dump(spec, open(p, "w"), indent=1)
    print(n, "shapes written")


if __name__ == "__main__":
    main()
